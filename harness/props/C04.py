"""C04 — novel transcripts are evidence-backed, correctly labelled and non-redundant."""
import copy
import json
import os
import shutil
import types
from collections import defaultdict

import vlib
from gen import novel as GN
from props import c04sim as SIM
from props import c04split as SPLIT
from props import c04chain as CHAIN

ID = "C04"
PROPS = ["IsoVerif/Props/C04.lean", "IsoVerif/Props/C04Graph.lean", "IsoVerif/Props/C04Store.lean",
         "IsoVerif/Props/C04Paths.lean", "IsoVerif/Props/C03Paths.lean", "IsoVerif/Props/C04Join.lean",
         "IsoVerif/Props/C04Terminals.lean", "IsoVerif/Props/C04Simplify.lean", "IsoVerif/Props/C04Similar.lean",
         "IsoVerif/Props/C04Chromosome.lean", "IsoVerif/Props/C04Chain.lean"]
TARGETS = ["IsoVerif.Props.C04", "IsoVerif.Props.C04Graph", "IsoVerif.Props.C04Store", "IsoVerif.Props.C04Paths",
           "IsoVerif.Props.C03Paths", "IsoVerif.Props.C04Join", "IsoVerif.Props.C04Terminals", "IsoVerif.Props.C04Simplify",
           "IsoVerif.Props.C04Similar", "IsoVerif.Props.C04Chromosome", "IsoVerif.Props.C04Chain"]
GEN_DEPS = ["Prims", "Enums", "Strategies", "Constants", "ModelConstruction", "EventClasses", "ComparatorTables"]
LEVEL = "proof"
RULE = ("in-process: seeded loci (exon lattice, annotated + unannotated isoforms, reads with splice-site jitter, truncation, "
        "multimappers, polyA flags; tiny loci with colliding introns) through the real IntronCollector / IntronGraph (traced "
        "operation history replayed by the model AND simplify() computed by the model: graph after simplify(), collapse order, "
        "operation multiset; exhaustive universe of tiny loci {0,1,3}^8 read multiplicities x 2 parameter sets; simplify() on "
        "random inconsistent graph states), thread_introns, random operation histories on random "
        "graph states, the real construct_fl_isoforms / pre_filter / filter / assign / dump on a constructor whose heuristics are "
        "stubbed with generated answers; a case is non-trivial when the model returns a non-error, non-empty value and equals the "
        "implementation; distinct by (op, input).  Pipeline: synthetic genomes with unannotated isoforms under several "
        "--model_construction_strategy values, with and without --genedb, oracle on GTF / r2t / corrected BED.  Growth "
        "(props/c04sim.py): generated model storages (one or two exon chains; same chain with outer ends on the assigner's "
        "thresholds, skipped / extra exon, shifted site, retained intron; known + novel, mono-exon, strands, reads with spans and "
        "mapq; 3 % coordinates that make an intron start equal a vertex code) through the REAL detect_similar_isoforms, "
        "pre_filter_transcripts, filter_transcripts (real GeneInfo.from_models / LongReadAssigner / CombinedProfileConstructor / "
        "is_matching_assignment / correct_novel_transcript_ends; only the component-coverage functions stubbed) vs the model's "
        "computed filter; exhaustive grid of same-chain pairs (20 x 20 end offsets x 2 strategies; quick: a third).  Growth "
        "(props/c04split.py): chromosome tasks of 2-4 records (chains from one intron pool so that they repeat between records, "
        "copies of an earlier record's chain with another 5' vertex, shared detected_known_isoforms / id distributor / "
        "reported_novel_chains) through REAL process() calls with stubbed collaborators whose recorded answers are the model's "
        "parameters; pipeline datasets whose read cluster is cut into sub-regions (gen/splitloci.py)")
TRUSTED = ["heuristics consulted by the decision block are parameters of the model (assigner verdict per path, per-intron canonical "
           "strand, component coverage, detect_similar_isoforms, per-read mapq): theorems quantify over all their values",
           "tracing shims in harness/props/C04.py (dict subclasses, method wrappers) record the operations the real "
           "IntronGraph performs; they do not change its behaviour"]
ASSUMPTIONS = ["CPython int semantics = Lean Int; set/dict iteration order does not influence the compared (sorted) values",
               "float cut-offs (ratio * count) are modelled in exact thousandths; generated cases avoid products that are "
               "exactly on a comparison boundary (graph_clustering_ratio: the model flags such comparisons, they are compared only "
               "when the float ratio is a dyadic fraction)",
               "a dead-end walk of simplify() that returns to a vertex of its path never ends in the real code (model answer "
               "`cycle`; checked with a 1 s time limit)",
               "the assigner's verdict on a PATH in construct_fl_isoforms, get_intron_strand and the component-coverage functions "
               "are inputs (assumption interface monitored by the pipeline oracle); detect_similar_isoforms is computed by the "
               "model since the growth round (C01 assigner model composed; exact-rational scores as in C01)",
               "transcript ids in one storage are pairwise distinct (id allocation is property C17)",
               "the records (gene_info, assignment_storage) of a chromosome task are taken as given: which alignments reach which "
               "sub-region is C05 / C08; the per-chromosome theorems hold for every sequence of records"]


# ---------------------------------------------------------------------------------------------------
# the repo's objects
# ---------------------------------------------------------------------------------------------------

def _impl():
    vlib.repo_on_path()
    import src.intron_graph as IG
    import src.graph_based_model_construction as GB
    import src.gene_info as GI
    import src.polya_finder as PF
    import src.transcript_printer as TP
    return IG, GB, GI, PF, TP


class FakeRead:
    """the attributes of ReadAssignment the model constructor looks at"""

    def __init__(self, d):
        IG, GB, GI, PF, TP = _impl()
        self.read_id = d["id"]
        self.corrected_exons = [tuple(e) for e in d["exons"]]
        self.corrected_introns = [tuple(i) for i in d["introns"]]
        self.multimapper = d["mm"]
        self.strand = d["strand"]
        self.polya_info = PF.PolyAInfo(d["exons"][-1][1] if d["polya"] else -1, d["exons"][0][0] if d["polyt"] else -1, -1, -1)
        self.read_group = d["group"]
        self.mapping_quality = d.get("mapq", 60)

    def __bool__(self):
        return True


def read_json(d):
    return {"id": d["id"], "introns": [list(i) for i in d["introns"]], "exons": [list(e) for e in d["exons"]],
            "mm": bool(d["mm"]), "strand": d["strand"], "polya": bool(d["polya"]), "polyt": bool(d["polyt"]),
            "group": d["group"]}


def make_gene_info(iso, known_introns, delta):
    """iso: [(tid, strand, exons)] annotated isoforms; without isoforms a region GeneInfo that only knows `known_introns`"""
    IG, GB, GI, PF, TP = _impl()
    if not iso:
        gi = GI.GeneInfo.from_region("chrT", 1, 10 ** 6, delta=delta)
        if known_introns:
            gi.intron_profiles.set_features(sorted(tuple(i) for i in known_introns))
        gi.gene_strands = {}
        return gi
    models = [GI.TranscriptModel("chrT", st, tid, "G1", [tuple(e) for e in ex], GI.TranscriptModelType.known) for tid, st, ex in iso]
    gi = GI.GeneInfo.from_models(models, delta)
    gi.gene_strands = {"G1": iso[0][1]}
    return gi


class Hang(Exception):
    pass


def with_timeout(fn, secs=8):
    """the real `while subs in self.intron_correction_map` has no exit on a cyclic map: never wait for it forever"""
    import signal

    def handler(signum, frame):
        raise Hang()
    old = signal.signal(signal.SIGALRM, handler)
    signal.setitimer(signal.ITIMER_REAL, secs)
    try:
        return fn()
    finally:
        signal.setitimer(signal.ITIMER_REAL, 0)
        signal.signal(signal.SIGALRM, old)


def real_graph_from_kw(kw):
    """re-run the real IntronGraph for a graph case; -> traced graph object (may raise, Hang included)"""
    gi = make_gene_info(kw["_iso"], kw["_known_only"], kw["delta"])
    reads = [FakeRead(r) for r in kw["reads"]]
    return with_timeout(lambda: traced_graph(graph_params(kw["_p"]), gi, reads)), gi, reads


PRESET_NAMES = ["reliable", "default_pacbio", "sensitive_pacbio", "default_ont", "sensitive_ont", "fl_pacbio", "all", "assembly"]


def real_presets():
    """run the real set_model_construction_options for every strategy"""
    vlib.repo_on_path()
    import importlib.util
    spec = importlib.util.spec_from_file_location("isoquant_main_c04", os.path.join(vlib.REPO, "isoquant.py"))
    mod = importlib.util.module_from_spec(spec)
    spec.loader.exec_module(mod)
    res = {}
    for name in PRESET_NAMES:
        for cli in ("auto", "only_canonical", "only_stranded", "all"):
            a = types.SimpleNamespace(model_construction_strategy=name, graph_clustering_distance=None,
                                      report_novel_unspliced=None, no_model_construction=False, polya_requirement="auto",
                                      report_canonical=cli)
            mod.set_model_construction_options(a)
            res[(name, cli)] = a
    return res, mod


def graph_params_json(rng, locus, preset=None):
    """the parameter choices of one in-process graph case (JSON, so that a case can be replayed)"""
    pj = {"preset": preset or rng.choice(PRESET_NAMES), "delta": locus["delta"], "apa_delta": rng.choice([10, 50])}
    # small loci need small thresholds to reach the interesting branches
    if rng.random() < 0.5:
        pj["singleton_adjacent_cov"] = rng.choice([2, 3, 10])
    if rng.random() < 0.3:
        pj["graph_clustering_distance"] = rng.choice([3, 5, 10, 20, 30])
    return pj


def graph_params(pj):
    presets, _ = _PRESETS()
    a = presets[(pj["preset"], "auto")]
    p = types.SimpleNamespace(**vars(a))
    p.debug = False
    for k, v in pj.items():
        setattr(p, k, v)
    return p


_PRESET_CACHE = {}


def _PRESETS():
    if "v" not in _PRESET_CACHE:
        _PRESET_CACHE["v"] = real_presets()
    return _PRESET_CACHE["v"]


def milli(x):
    v = round(x * 1000)
    assert abs(v - x * 1000) < 1e-9
    return v


# ---------------------------------------------------------------------------------------------------
# tracing the operations of the real IntronGraph
# ---------------------------------------------------------------------------------------------------

class LogEdges(defaultdict):
    """defaultdict(set) that records `del d[k]` and `d[k] = set()`"""

    def __init__(self, name, log, init):
        super().__init__(set)
        self._name = name
        self._log = log
        for k, v in init.items():
            dict.__setitem__(self, k, v)

    def __delitem__(self, k):
        self._log.append(["del_" + self._name, list(k)])
        super().__delitem__(k)

    def __setitem__(self, k, v):
        if k in self:
            self._log.append(["del_" + self._name, list(k)])
        super().__setitem__(k, v)


class LogCounts(defaultdict):
    """defaultdict(int) that records the insertions caused by reads of missing keys"""

    def __init__(self, owner, init):
        super().__init__(int)
        self._owner = owner
        for k, v in init.items():
            dict.__setitem__(self, k, v)

    def __missing__(self, k):
        if self._owner._quiet == 0:
            self._owner._log.append(["touch", list(k)])
        dict.__setitem__(self, k, 0)
        return 0


def traced_graph(params, gene_info, reads, keep_on_error=False):
    """build the real IntronGraph while recording the operations of simplify() and attach_terminal_positions();
    keep_on_error: return the partially constructed object (with `_exc`) when the constructor raises"""
    IG, GB, GI, PF, TP = _impl()

    class TracedGraph(IG.IntronGraph):
        def construct(self):
            self._log = []
            self._quiet = 0
            super().construct()
            self.after_construct = snapshot(self)
            self.outgoing_edges = LogEdges("out", self._log, self.outgoing_edges)
            self.incoming_edges = LogEdges("inc", self._log, self.incoming_edges)
            col = self.intron_collector
            col.clustered_introns = LogCounts(self, col.clustered_introns)
            g = self
            orig_discard = col.discard
            orig_simplify = col.simplify_correction_map

            def discard(intron):
                if g._quiet == 0:
                    g._log.append(["discard", list(intron)])
                g._quiet += 1
                try:
                    return orig_discard(intron)
                finally:
                    g._quiet -= 1

            def simplify_correction_map():
                g._log.append(["simplify_map"])
                g._quiet += 1
                try:
                    return orig_simplify()
                finally:
                    g._quiet -= 1

            col.discard = discard
            col.simplify_correction_map = simplify_correction_map

        def collapse_vertex(self, a, b):
            self._log.append(["collapse", list(a), list(b)])
            self._quiet += 1
            try:
                return super().collapse_vertex(a, b)
            finally:
                self._quiet -= 1

        def attach_terminal_positions(self):
            before_out = {(k, v) for k, s in self.outgoing_edges.items() for v in s}
            before_inc = {(k, v) for k, s in self.incoming_edges.items() for v in s}
            n0 = len(self._log)
            self._n_simplify = n0
            self.after_simplify = snapshot(self)
            super().attach_terminal_positions()
            # set.add on the edge sets is not interceptable: recover the attached terminal vertices by difference
            touches = self._log[n0:]
            del self._log[n0:]
            self._log.extend(touches)
            for k, s in sorted(self.outgoing_edges.items()):
                for v in sorted(s):
                    if (k, v) not in before_out:
                        self._log.append(["attach_out", list(k), list(v)])
            for k, s in sorted(self.incoming_edges.items()):
                for v in sorted(s):
                    if (k, v) not in before_inc:
                        self._log.append(["attach_inc", list(k), list(v)])

    if not keep_on_error:
        return TracedGraph(params, gene_info, reads)
    g = TracedGraph.__new__(TracedGraph)
    g._exc = None
    try:
        g.__init__(params, gene_info, reads)
    except (KeyError, AssertionError, IndexError, ValueError, ZeroDivisionError) as ex:
        g._exc = type(ex).__name__
    return g


def snapshot(g):
    col = g.intron_collector
    return {"col": {"clustered": sorted([list(k), v] for k, v in col.clustered_introns.items()),
                    "corr": sorted([list(k), list(v)] for k, v in col.intron_correction_map.items()),
                    "discarded": sorted(list(k) for k in col.discarded_introns)},
            "out": sorted([list(k), list(v)] for k, s in g.outgoing_edges.items() for v in s),
            "inc": sorted([list(k), list(v)] for k, s in g.incoming_edges.items() for v in s)}


def collector_snapshot(col):
    return {"clustered": sorted([list(k), v] for k, v in col.clustered_introns.items()),
            "corr": sorted([list(k), list(v)] for k, v in col.intron_correction_map.items()),
            "discarded": sorted(list(k) for k in col.discarded_introns)}


def observed_introns(reads):
    return {tuple(i) for r in reads if not r["mm"] for i in r["introns"]}


def graph_vertices(snap):
    vs = set()
    for k, _ in snap["col"]["clustered"]:
        vs.add(tuple(k))
    for k, v in snap["col"]["corr"]:
        vs.add(tuple(k))
        vs.add(tuple(v))
    for k in snap["col"]["discarded"]:
        vs.add(tuple(k))
    for k, v in snap["out"] + snap["inc"]:
        for x in (k, v):
            if x[0] >= 0:
                vs.add(tuple(x))
    return vs


# ---------------------------------------------------------------------------------------------------
# correspondence
# ---------------------------------------------------------------------------------------------------

def run_cases(ctx, cases, impl_vals, nontrivial, canon_model=None):
    """cases: [(op, kwargs)], impl_vals: canonical implementation values (already computed)"""
    lines = [vlib.req("C04." + op, **kw) for op, kw in cases]
    outs = ctx.driver.run(lines)
    for (op, kw), mo_raw, io in zip(cases, outs, impl_vals):
        mo = canon_model(mo_raw) if canon_model else mo_raw
        ctx.evaluations += 1
        ctx.count("op:" + op)
        if isinstance(mo, dict) and "driver_error" in mo:
            ctx.disagree(op, kw, mo, io)
            continue
        ctx.traces_validated += 1
        if vlib.is_err(mo):
            ctx.count("model_error:" + op)
        if not vlib.same(mo, io):
            ctx.disagree(op, kw, mo, io)
        elif nontrivial(op, kw, mo):
            ctx.mark_nontrivial([op, kw])
        if len(ctx.samples) < 10 and ctx.rng.random() < 0.02:
            ctx.sample({"op": op, "input": json.loads(json.dumps(kw))if len(json.dumps(kw)) < 1500 else "(large)", "model": mo if len(json.dumps(mo)) < 1500 else "(large)"})
    return outs


def gen_loci(ctx, n):
    loci = []
    for k in range(n):
        r = ctx.rng.random()
        if r < 0.35:
            loci.append(GN.tiny_locus(ctx.rng))
        else:
            loci.append(GN.make_locus(ctx.rng, small=r < 0.6))
    return loci


def corr_tables(ctx):
    presets, mod = _PRESETS()
    cases, vals = [], []
    for name in PRESET_NAMES:
        a = presets[(name, "auto")]
        v = {"min_novel_intron_count": a.min_novel_intron_count, "graph_clustering_ratio": milli(a.graph_clustering_ratio),
             "graph_clustering_distance": a.graph_clustering_distance,
             "min_novel_isolated_intron_abs": a.min_novel_isolated_intron_abs,
             "min_novel_isolated_intron_rel": milli(a.min_novel_isolated_intron_rel),
             "terminal_position_abs": a.terminal_position_abs, "terminal_position_rel": milli(a.terminal_position_rel),
             "terminal_internal_position_rel": milli(a.terminal_internal_position_rel),
             "min_known_count": a.min_known_count, "min_nonfl_count": a.min_nonfl_count,
             "min_novel_count": a.min_novel_count, "min_novel_count_rel": milli(a.min_novel_count_rel),
             "min_mono_count_rel": milli(a.min_mono_count_rel), "singleton_adjacent_cov": a.singleton_adjacent_cov,
             "fl_only": a.fl_only, "novel_monoexonic": a.report_novel_unspliced,
             "require_monointronic_polya": a.require_monointronic_polya,
             "require_monoexonic_polya": a.require_monoexonic_polya,
             "report_canonical": "StrandnessReportingLevel." + a.report_canonical_strategy.name}
        cases.append(("construction_preset", {"name": name}))
        vals.append(v)
        for cli in ("auto", "only_canonical", "only_stranded", "all"):
            cases.append(("report_level", {"cli": cli, "preset": name}))
            vals.append(presets[(name, cli)].report_canonical_strategy.name)
    IG, GB, GI, PF, TP = _impl()
    import src.common as C
    # CLI default of --report_canonical, read from the real argument parser
    try:
        args, _ = mod.parse_args(["--output", "/tmp/x", "--data_type", "nanopore", "--bam", "x.bam", "--reference", "r.fa"])
        cli_default = args.report_canonical
    except BaseException:
        cli_default = None
    cases.append(("constants", {}))
    vals.append({"transcript_prefix": C.TranscriptNaming.transcript_prefix, "novel_gene_prefix": C.TranscriptNaming.novel_gene_prefix,
                 "nic": C.TranscriptNaming.nic_transcript_suffix, "nnic": C.TranscriptNaming.nnic_transcript_suffix,
                 "VERTEX_polya": IG.VERTEX_polya, "VERTEX_read_end": IG.VERTEX_read_end, "VERTEX_polyt": IG.VERTEX_polyt,
                 "VERTEX_read_start": IG.VERTEX_read_start,
                 "cli_default": cli_default if cli_default is not None else "only_stranded"})
    run_cases(ctx, cases, vals, lambda op, kw, mo: True)


def graph_case_kw(rng, locus):
    iso = [[tid, st, [list(e) for e in ex]] for tid, st, ex, a in locus["isoforms"] if a]
    known_only = [list(i) for i in locus["known_introns"]] if not iso else []
    pj = graph_params_json(rng, locus)
    gi = make_gene_info(iso, known_only, locus["delta"])
    known = sorted(list(i) for i in gi.intron_profiles.features)
    rj = [dict(read_json(r), mapq=r.get("mapq", 60)) for r in locus["reads"]]
    presets, _ = _PRESETS()
    return {"known": known, "delta": locus["delta"], "reads": rj, "min_count": presets[(pj["preset"], "auto")].min_novel_intron_count,
            "_p": pj, "_iso": iso, "_known_only": known_only, "_all_iso": [[list(e) for e in ex] for _, _, ex, _ in locus["isoforms"]]}


def simp_params_json(params):
    """the parameters IntronGraph.simplify() reads (ratio in exact thousandths)"""
    return {"graph_clustering_distance": params.graph_clustering_distance,
            "graph_clustering_ratio": milli(params.graph_clustering_ratio),
            "singleton_adjacent_cov": params.singleton_adjacent_cov,
            "min_novel_isolated_intron_abs": params.min_novel_isolated_intron_abs}


def ratio_exact(params):
    """count < count' * ratio is evaluated without rounding when the float ratio is a dyadic fraction (0.5)"""
    from fractions import Fraction
    return Fraction(params.graph_clustering_ratio) == Fraction(milli(params.graph_clustering_ratio), 1000)


def canon_simplify(snap, ops):
    """what is compared for a computed simplify(): the graph, the collapses in order, all operations as a multiset
    (deletions and defaultdict insertions happen in set order in the code)"""
    return {"graph": snap, "collapses": [o for o in ops if o[0] == "collapse"], "ops": sorted(json.dumps(o) for o in ops)}


def run_simplify_cases(ctx, cases, vals, exact):
    """cases of simplify_run / simplify_state / graph_full; a case the model flags as exactly on the ratio boundary is
    compared only when the float product is exact"""
    outs = ctx.driver.run([vlib.req("C04." + op, **kw) for op, kw in cases])
    for (op, kw), mo, io, ex in zip(cases, outs, vals, exact):
        ctx.evaluations += 1
        ctx.count("op:" + op)
        if isinstance(mo, dict) and "driver_error" in mo:
            ctx.disagree(op, kw, mo, io)
            continue
        if isinstance(mo, dict) and mo.get("fragile") and not ex and not vlib.is_err(io):
            ctx.count("simplify_on_float_boundary_skipped")
            continue
        ctx.traces_validated += 1
        if vlib.is_err(mo):
            ctx.count("model_error:" + op)
            got = mo
        elif op == "graph_full":
            got = mo["graph"]
        else:
            got = canon_simplify(mo["graph"], mo["ops"])
        if not vlib.same(got, io):
            ctx.disagree(op, kw, got, io)
        elif not vlib.is_err(mo):
            n = mo.get("n_simplify", len(mo.get("ops", [])))
            ctx.count("simplify_ops_computed", n)
            if op != "graph_full":
                for o in mo["ops"]:
                    ctx.count("computed:" + o[0])
            if n > 1:
                ctx.mark_nontrivial([op, kw])


def corr_collector_and_graph(ctx, loci):
    IG, GB, GI, PF, TP = _impl()
    cases, vals = [], []
    simp_cases, simp_vals, simp_exact = [], [], []
    thread_cases, thread_vals = [], []
    fill_cases, fill_vals = [], []
    te_cases, te_vals = [], []
    att_cases, att_vals = [], []
    hangs = 0
    for locus in loci:
        if hangs >= 3:
            ctx.notes.append("the real IntronGraph constructor did not terminate on 3 inputs; remaining graph cases skipped")
            break
        base = graph_case_kw(ctx.rng, locus)
        gi = make_gene_info(base["_iso"], base["_known_only"], base["delta"])
        reads = [FakeRead(r) for r in base["reads"]]
        params = graph_params(base["_p"])
        # collector alone
        col = IG.IntronCollector(gi, params.delta)
        try:
            all_introns = col.collect_introns(reads)
            iv = sorted([list(k), v] for k, v in all_introns.items())
        except Exception as ex:
            iv = {"error": "error", "exc": type(ex).__name__}
        cases.append(("collect_introns", {"reads": base["reads"]}))
        vals.append(iv)
        col = IG.IntronCollector(gi, params.delta)
        try:
            col.process(reads, params.min_novel_intron_count)
            cv = collector_snapshot(col)
        except Exception as ex:
            cv = {"error": "error", "exc": type(ex).__name__}
        cases.append(("cluster", dict(base)))
        vals.append(cv)
        # whole graph with the traced history
        try:
            g, _, _ = real_graph_from_kw(base)
            snap = snapshot(g)
            ops = g._log
            after_construct = g.after_construct
        except Hang:
            hangs += 1
            ctx.count("graph_hang")
            cases.append(("graph_run", dict(base, ops=[])))
            vals.append({"error": "error", "exc": "the real IntronGraph constructor does not terminate"})
            continue
        except (KeyError, AssertionError, IndexError, ValueError, ZeroDivisionError) as ex:
            ctx.count("graph_exception:" + type(ex).__name__)
            # the constructor raised: when it happened inside attach_terminal_positions() (an `assert` of
            # cluster_polya_positions), the model of the attachment must fail on the same input
            try:
                gx = with_timeout(lambda: traced_graph(params, make_gene_info(base["_iso"], base["_known_only"], base["delta"]),
                                                       [FakeRead(r) for r in base["reads"]], keep_on_error=True))
            except Hang:
                continue
            if gx._exc is not None and not hasattr(gx, "_n_simplify") and hasattr(gx, "after_construct"):
                # raised inside simplify() (KeyError of collapse_vertex): the computed simplify must fail too
                simp_cases.append(("simplify_run", dict(base, simplify=simp_params_json(params))))
                simp_vals.append({"error": "error", "exc": gx._exc})
                simp_exact.append(ratio_exact(params))
            if gx._exc is not None and hasattr(gx, "_n_simplify"):
                simp_cases.append(("simplify_run", dict(base, simplify=simp_params_json(params))))
                simp_vals.append(canon_simplify(gx.after_simplify, gx._log[:gx._n_simplify]))
                simp_exact.append(ratio_exact(params))
                att_cases.append(("graph_attach", dict(base, ops=gx._log[:gx._n_simplify], apa_delta=params.apa_delta,
                                                       terminal_position_abs=params.terminal_position_abs,
                                                       terminal_position_rel=milli(params.terminal_position_rel),
                                                       terminal_internal_position_rel=milli(params.terminal_internal_position_rel),
                                                       known_ends=[[list(k), list(v)] for k, v in gx.terminal_known_positions.items() if v],
                                                       known_starts=[[list(k), list(v)] for k, v in gx.starting_known_positions.items() if v])))
                att_vals.append({"error": "error", "exc": gx._exc})
                simp_cases.append(("graph_full", dict(att_cases[-1][1], ops=[], simplify=simp_params_json(params))))
                simp_vals.append({"error": "error", "exc": gx._exc})
                simp_exact.append(False)
            continue
        cases.append(("construct", dict(base)))
        vals.append(after_construct)
        cases.append(("graph_run", dict(base, ops=ops)))
        vals.append(snap)
        # the same constructor run with the MODELLED attach_terminal_positions (only simplify() is replayed from the trace)
        att_cases.append(("graph_attach", dict(base, ops=ops[:g._n_simplify], apa_delta=params.apa_delta,
                                               terminal_position_abs=params.terminal_position_abs,
                                               terminal_position_rel=milli(params.terminal_position_rel),
                                               terminal_internal_position_rel=milli(params.terminal_internal_position_rel),
                                               known_ends=[[list(k), list(v)] for k, v in g.terminal_known_positions.items() if v],
                                               known_starts=[[list(k), list(v)] for k, v in g.starting_known_positions.items() if v])))
        att_vals.append(snap)
        # simplify() COMPUTED by the model: graph after simplify(), collapse sequence, operation multiset; and the whole
        # constructor inside the model (computed simplify + modelled attachment)
        simp_cases.append(("simplify_run", dict(base, simplify=simp_params_json(params))))
        simp_vals.append(canon_simplify(g.after_simplify, ops[:g._n_simplify]))
        simp_exact.append(ratio_exact(params))
        simp_cases.append(("graph_full", dict(att_cases[-1][1], ops=[], simplify=simp_params_json(params))))
        simp_vals.append(snap)
        simp_exact.append(False)
        ctx.count("graph_ops_len", len(ops))
        for o in ops:
            ctx.count("traced:" + o[0])
            # hypothesis `OpOk` of `edges_witnessed` on the history the real simplify() performs: collapse_vertex(c, s) only
            # for c, s with both splice sites closer than graph_clustering_distance
            if o[0] == "collapse":
                d = params.graph_clustering_distance
                if abs(o[1][0] - o[2][0]) < d and abs(o[1][1] - o[2][1]) < d:
                    ctx.count("collapse_within_clustering_distance")
                else:
                    ctx.disagree("collapse_outside_merge_relation", {"collapse": o, "graph_clustering_distance": d, "case": base},
                                 "Near (graph_clustering_distance - 1)", o)
        # thread_introns on the final collector
        pp = GB.IntronPathProcessor(params, g)
        colj = dict(snap["col"], known=base["known"])
        # IntronPathStorage.fill on the final graph; thread_ends / thread_starts are heuristics: their real answers are
        # recorded and handed to the model as tables
        for req in (False, True):
            params.requires_polya_for_construction = req
            rec = {"ends": [], "starts": []}
            pp2 = GB.IntronPathProcessor(params, g)
            oe, os_ = pp2.thread_ends, pp2.thread_starts

            def te(intron, pos, trusted=False, oe=oe, rec=rec):
                v = oe(intron, pos, trusted)
                rec["ends"].append([[list(intron), pos, bool(trusted)], None if v is None else list(v)])
                return v

            def ts(intron, pos, trusted=False, os_=os_, rec=rec):
                v = os_(intron, pos, trusted)
                rec["starts"].append([[list(intron), pos, bool(trusted)], None if v is None else list(v)])
                return v
            pp2.thread_ends, pp2.thread_starts = te, ts
            st = GB.IntronPathStorage(params, pp2)
            try:
                st.fill(reads)
                fv = {"paths": [[[list(v) for v in k], c] for k, c in sorted(st.paths.items(), key=lambda kv: (-len(kv[0]), kv[0]))],
                      "fl": [[list(v) for v in k] for k in sorted(st.fl_paths, key=lambda k: (-len(k), k))],
                      "to_reads": [[[list(v) for v in k], [a.read_id for a in rs]]
                                   for k, rs in sorted(st.paths_to_reads.items(), key=lambda kv: (-len(kv[0]), kv[0]))]}
            except (IndexError, TypeError) as ex:
                fv = {"error": "error", "exc": type(ex).__name__}
            fill_cases.append(("fill", {"graph": dict(snap, col=colj), "reads": base["reads"], "requires_polya": req,
                                        "ends": rec["ends"], "starts": rec["starts"]}))
            fill_vals.append(fv)
            # the same call with the *modelled* thread_ends / thread_starts (path enumeration end to end)
            fill_cases.append(("fill_graph", {"graph": dict(snap, col=colj), "reads": base["reads"], "requires_polya": req,
                                              "delta": params.delta, "apa_delta": params.apa_delta}))
            fill_vals.append(fv)
            ctx.count("fl_paths", len(st.fl_paths))
            if not req:
                # thread_ends / thread_starts on the queries fill() made and on perturbed ones
                qs = []
                for (k, _v) in rec["ends"] + rec["starts"]:
                    qs.append((tuple(k[0]), k[1], k[2]))
                    qs.append((tuple(k[0]), k[1], not k[2]))
                    qs.append((tuple(k[0]), k[1] + ctx.rng.choice([-1, 1, -params.apa_delta, params.apa_delta, params.delta + 1]), k[2]))
                seen_q = set()
                for (intr, pos, tr) in qs:
                    if (intr, pos, tr) in seen_q or len(seen_q) >= 40:
                        continue
                    seen_q.add((intr, pos, tr))
                    te_cases.append(("thread_end_start", {"graph": dict(snap, col=colj), "intron": list(intr), "pos": pos, "trusted": tr,
                                                          "delta": params.delta, "apa_delta": params.apa_delta}))
                    ve, vs_ = oe(intr, pos, tr), os_(intr, pos, tr)
                    te_vals.append({"end": None if ve is None else list(ve), "start": None if vs_ is None else list(vs_)})
                for intr in sorted(g.intron_collector.clustered_introns)[:6]:
                    for vt in (None, IG.VERTEX_polya, IG.VERTEX_read_end, IG.VERTEX_polyt, IG.VERTEX_read_start):
                        te_cases.append(("get_edges", {"graph": dict(snap, col=colj), "intron": list(intr), "vtype": vt}))
                        te_vals.append({"out": [list(v) for v in g.get_outgoing(intr, vt)], "inc": [list(v) for v in g.get_incoming(intr, vt)]})
        for r in reads[:12]:
            if r.multimapper:
                continue
            thread_cases.append(("thread_introns", {"col": colj, "introns": [list(i) for i in r.corrected_introns]}))
            v = pp.thread_introns(r.corrected_introns)
            thread_vals.append(None if v is None else [list(x) for x in v])
        for ex in base["_all_iso"]:
            intr = GN.introns_of([tuple(e) for e in ex])
            thread_cases.append(("thread_introns", {"col": colj, "introns": [list(i) for i in intr]}))
            v = pp.thread_introns([tuple(i) for i in intr])
            thread_vals.append(None if v is None else [list(x) for x in v])
    run_cases(ctx, cases, vals, lambda op, kw, mo: not vlib.is_err(mo) and (bool(mo) if isinstance(mo, list) else bool(mo.get("col", mo).get("clustered"))))
    run_cases(ctx, thread_cases, thread_vals, lambda op, kw, mo: bool(mo))
    run_cases(ctx, fill_cases, fill_vals, lambda op, kw, mo: bool(mo) and (not isinstance(mo, dict) or bool(mo.get("fl"))))
    run_cases(ctx, te_cases, te_vals, lambda op, kw, mo: isinstance(mo, dict) and any(bool(v) for v in mo.values()))
    run_simplify_cases(ctx, simp_cases, simp_vals, simp_exact)
    # attach_terminal_positions: cases whose float cut-off is exactly on a comparison boundary are not compared
    outs = ctx.driver.run([vlib.req("C04." + op, **kw) for op, kw in att_cases])
    for (op, kw), mo, io in zip(att_cases, outs, att_vals):
        ctx.evaluations += 1
        ctx.count("op:" + op)
        if isinstance(mo, dict) and "driver_error" in mo:
            ctx.disagree(op, kw, mo, io)
            continue
        if isinstance(mo, dict) and mo.get("fragile") and not vlib.is_err(io):
            ctx.count("graph_attach_on_float_boundary_skipped")
            continue
        ctx.traces_validated += 1
        got = mo.get("graph") if isinstance(mo, dict) and "graph" in mo else mo
        if not vlib.same(got, io):
            ctx.disagree(op, kw, got, io)
        elif isinstance(mo, dict) and mo.get("n_attach", 0) > 0:
            ctx.count("attach_ops_modelled", mo["n_attach"])
            ctx.mark_nontrivial([op, kw])


# ------------------------------------------------------------------ graph: arbitrary histories on arbitrary states

POOL = [(10, 20), (10, 22), (12, 20), (30, 40), (30, 42), (33, 40), (50, 60), (52, 61), (70, 80)]


def simplify_would_hang(corr, discarded):
    """dry run of IntronCollector.simplify_correction_map with cycle detection: True when the real
    `while subs in self.intron_correction_map` would never end"""
    m = dict(corr)
    for intron in sorted(m):
        subs = m[intron]
        if subs in discarded:
            continue
        if subs not in m:
            continue
        seen = set()
        while subs in m:
            if subs in seen:
                return True
            seen.add(subs)
            subs = m[subs]
        if subs in discarded:
            continue
        m[intron] = subs
    return False


def random_graph_state(rng):
    vs = rng.sample(POOL, rng.randint(2, len(POOL)))
    clustered = {v: rng.randint(0, 9) for v in vs if rng.random() < 0.8}
    corr = {}
    for v in vs:
        if rng.random() < 0.25:
            w = rng.choice(vs)
            if w != v:
                corr[v] = w
    discarded = {v for v in vs if rng.random() < 0.15}
    out, inc = set(), set()
    for _ in range(rng.randint(0, 8)):
        a, b = rng.sample(vs, 2)
        if a > b:
            a, b = b, a
        out.add((a, b))
        if rng.random() < 0.9:       # mostly mirrored; sometimes not (collapse then raises KeyError)
            inc.add((b, a))
    return vs, clustered, corr, discarded, out, inc


def apply_real_ops(IG, state, ops):
    """apply the operations to a real IntronGraph / IntronCollector pair; returns snapshot or error"""
    vs, clustered, corr, discarded, out, inc = state
    col = IG.IntronCollector.__new__(IG.IntronCollector)
    col.gene_info = None
    col.known_introns = set()
    col.delta = 0
    col.clustered_introns = defaultdict(int, clustered)
    col.intron_correction_map = dict(corr)
    col.discarded_introns = set(discarded)
    g = IG.IntronGraph.__new__(IG.IntronGraph)
    g.params = types.SimpleNamespace(debug=False)
    g.intron_collector = col
    g.outgoing_edges = defaultdict(set)
    g.incoming_edges = defaultdict(set)
    g.edge_weights = defaultdict(int)
    for a, b in out:
        g.outgoing_edges[a].add(b)
    for a, b in inc:
        g.incoming_edges[a].add(b)
    try:
        for o in ops:
            k = o[0]
            if k == "add_edge":
                g.add_edge(tuple(o[1]), tuple(o[2]))
            elif k == "collapse":
                g.collapse_vertex(tuple(o[1]), tuple(o[2]))
            elif k == "del_vertex":
                g.outgoing_edges.pop(tuple(o[1]), None)
                g.incoming_edges.pop(tuple(o[1]), None)
            elif k == "del_out":
                g.outgoing_edges.pop(tuple(o[1]), None)
            elif k == "del_inc":
                g.incoming_edges.pop(tuple(o[1]), None)
            elif k == "discard":
                col.discard(tuple(o[1]))
            elif k == "touch":
                col.clustered_introns[tuple(o[1])]
            elif k == "simplify_map":
                if simplify_would_hang(col.intron_correction_map, col.discarded_introns):
                    # the real `while subs in map` would never end; the model reports this as an error
                    return {"error": "error", "exc": "cycle"}
                col.simplify_correction_map()
            elif k == "attach_out":
                g.outgoing_edges[tuple(o[1])].add(tuple(o[2]))
            elif k == "attach_inc":
                g.incoming_edges[tuple(o[1])].add(tuple(o[2]))
    except KeyError as ex:
        return {"error": "error", "exc": "KeyError"}
    return snapshot(g)


def corr_graph_histories(ctx, n):
    IG, GB, GI, PF, TP = _impl()
    rng = ctx.rng
    cases, vals = [], []
    for _ in range(n):
        state = random_graph_state(rng)
        vs, clustered, corr, discarded, out, inc = state
        obs = sorted(set(vs) | set(rng.sample(POOL, 2)))
        ops = []
        for _k in range(rng.randint(1, 7)):
            r = rng.random()
            v = rng.choice(vs)
            w = rng.choice(vs)
            if r < 0.2:
                ops.append(["add_edge", list(rng.choice(obs)), list(rng.choice(obs))])
            elif r < 0.45:
                if v != w:
                    ops.append(["collapse", list(v), list(w)])
            elif r < 0.55:
                ops.append([rng.choice(["del_vertex", "del_out", "del_inc"]), list(v)])
            elif r < 0.65:
                ops.append(["discard", list(v)])
            elif r < 0.72:
                ops.append(["touch", list(v)])
            elif r < 0.9:
                ops.append(["simplify_map"])
            else:
                ops.append([rng.choice(["attach_out", "attach_inc"]), list(v), [rng.choice([-10, -11, -20, -21]), rng.randint(1, 99)]])
        # scoping as the model demands it: arguments of collapse / discard / touch / attach are vertices the graph has;
        # a vertex of `vs` that occurs nowhere in the state is not one -> make the state mention all of vs
        for v in vs:
            clustered.setdefault(v, 0)
        gj = {"col": {"known": [], "clustered": sorted([list(k), c] for k, c in clustered.items()),
                      "corr": sorted([list(k), list(x)] for k, x in corr.items()),
                      "discarded": sorted(list(k) for k in discarded)},
              "out": sorted([list(a), list(b)] for a, b in out), "inc": sorted([list(a), list(b)] for a, b in inc)}
        cases.append(("graph_ops", {"graph": gj, "obs": [list(o) for o in obs], "ops": ops}))
        vals.append(apply_real_ops(IG, (vs, clustered, corr, discarded, out, inc), ops))
    run_cases(ctx, cases, vals, lambda op, kw, mo: not vlib.is_err(mo))


# ------------------------------------------------------------------ witnesses of Props/C04Paths.lean on the real IntronGraph

def _wread(rid, introns, exons):
    return {"id": rid, "introns": [list(i) for i in introns], "exons": [list(e) for e in exons], "mm": False, "strand": "+",
            "polya": True, "polyt": False, "group": "g"}


EDGE_WITNESSES = {
    # name: (reads, delta, expected edge after construct(), expected thread_introns of read "a")
    "edge_order_witness": ([_wread("a", [(10, 20), (22, 40)], [(5, 9), (21, 21), (41, 50)])] +
                           [_wread(x, [(10, 23)], [(5, 9), (24, 50)]) for x in "bcd"], 4,
                           [[10, 23], [22, 40]], [[10, 23], [22, 40]]),
    "edge_selfloop_witness": ([_wread("a", [(10, 12), (14, 16)], [(5, 9), (13, 13), (17, 30)])] +
                              [_wread(x, [(12, 14)], [(5, 11), (15, 30)]) for x in "bcd"], 4,
                              [[12, 14], [12, 14]], [[12, 14], [12, 14]]),
}


def corr_edge_witnesses(ctx):
    """the inputs of `edge_order_witness` / `edge_selfloop_witness` (raw order invariants of the edge relation are false)
    through the real IntronCollector / IntronGraph.construct / thread_introns"""
    IG, GB, GI, PF, TP = _impl()
    cases, vals = [], []
    seen = {}
    for name, (reads, delta, edge, thread) in EDGE_WITNESSES.items():
        kw = {"known": [], "delta": delta, "reads": reads, "min_count": 1,
              "_p": {"preset": "default_ont", "delta": delta, "apa_delta": 10, "min_novel_intron_count": 1},
              "_iso": [], "_known_only": []}
        g, gi, rr = real_graph_from_kw(kw)
        cases.append(("construct", dict(kw)))
        vals.append(g.after_construct)
        pp = GB.IntronPathProcessor(graph_params(kw["_p"]), g)
        # construct() ran before simplify(); thread on the collector as it was then is not observable any more, so the
        # witness is checked on the edge list of the after-construct snapshot and on the final thread_introns
        th = pp.thread_introns([tuple(i) for i in reads[0]["introns"]])
        seen[name] = {"edge_after_construct": edge in [[a, b] for a, b in g.after_construct["out"]],
                      "thread_introns_final": None if th is None else [list(v) for v in th]}
        if not seen[name]["edge_after_construct"]:
            ctx.disagree("witness:" + name, kw, {"edge": edge}, g.after_construct["out"])
    ctx.extra["edge_witnesses_on_real_code"] = seen
    run_cases(ctx, cases, vals, lambda op, kw, mo: not vlib.is_err(mo) and bool(mo.get("out")))


# ------------------------------------------------------------------ thread_ends / thread_starts: exhaustive small universe

TE_INTRON = (100, 200)
TE_OUT_POOL = [(-10, 250), (-10, 290), (-11, 270), (-11, 330), (240, 400), (300, 420)]
TE_INC_POOL = [(-20, 60), (-20, 30), (-21, 45), (-21, 10), (20, 70), (5, 40)]


def bare_graph(IG, out, inc, clustered=()):
    """a real IntronGraph object with the given edge sets (no reads)"""
    col = IG.IntronCollector.__new__(IG.IntronCollector)
    col.gene_info = None
    col.known_introns = set()
    col.delta = 0
    col.clustered_introns = defaultdict(int, {k: 1 for k in clustered})
    col.intron_correction_map = {}
    col.discarded_introns = set()
    g = IG.IntronGraph.__new__(IG.IntronGraph)
    g.params = types.SimpleNamespace(debug=False)
    g.intron_collector = col
    g.outgoing_edges = defaultdict(set)
    g.incoming_edges = defaultdict(set)
    g.edge_weights = defaultdict(int)
    for a, b in out:
        g.outgoing_edges[a].add(b)
    for a, b in inc:
        g.incoming_edges[a].add(b)
    return g


def corr_thread_universe(ctx):
    """every subset of 6 candidate neighbours of one intron x a grid of read end / start positions x trusted:
    the real thread_ends / thread_starts against the model (the grid contains every candidate position, +-1, +-apa_delta)"""
    IG, GB, GI, PF, TP = _impl()
    q = ctx.tier == "quick"
    cases, vals = [], []
    combos = [(0, 5), (4, 10)] if q else [(0, 5), (4, 10), (6, 50), (12, 10)]
    n_sub = 0
    for mask in range(64):
        if q and mask % 3 != ctx.seed % 3 and mask not in (0, 63):
            continue
        out = [(TE_INTRON, TE_OUT_POOL[i]) for i in range(6) if mask >> i & 1]
        inc = [(TE_INTRON, TE_INC_POOL[i]) for i in range(6) if mask >> i & 1]
        g = bare_graph(IG, out, inc, [TE_INTRON])
        gj = {"col": {"known": [], "clustered": [[list(TE_INTRON), 1]], "corr": [], "discarded": []},
              "out": sorted([list(a), list(b)] for a, b in out), "inc": sorted([list(a), list(b)] for a, b in inc)}
        n_sub += 1
        for delta, apa in combos:
            params = types.SimpleNamespace(delta=delta, apa_delta=apa)
            pp = GB.IntronPathProcessor(params, g)
            grid = set()
            for _, v in out + inc:
                base = v[1] if v[0] < 0 else v[0]
                for d in (-apa - 1, -apa, -delta - 1, -1, 0, 1, delta, delta + 1, apa, apa + 1):
                    grid.add(base + d)
                if v[0] >= 0:
                    for d in (-delta - 1, -delta, 0, 1, delta + 1, delta + 2):
                        grid.add(v[1] + d)
            grid |= {1, 150, 500}
            for pos in sorted(grid):
                for tr in (False, True):
                    cases.append(("thread_end_start", {"graph": gj, "intron": list(TE_INTRON), "pos": pos, "trusted": tr,
                                                       "delta": delta, "apa_delta": apa}))
                    ve, vs_ = pp.thread_ends(TE_INTRON, pos, tr), pp.thread_starts(TE_INTRON, pos, tr)
                    vals.append({"end": None if ve is None else list(ve), "start": None if vs_ is None else list(vs_)})
    ctx.extra["thread_universe"] = {"neighbour_subsets": n_sub, "of": 64, "cases": len(cases),
                                    "grid": "candidate positions +-{0,1,delta,delta+1,apa_delta,apa_delta+1}, trusted in {F,T}"}
    run_cases(ctx, cases, vals, lambda op, kw, mo: isinstance(mo, dict) and any(bool(v) for v in mo.values()))


# ------------------------------------------------------------------ simplify(): exhaustive tiny loci, arbitrary states

SU_A0, SU_A1, SU_A2 = (100, 200), (102, 200), (100, 203)
SU_B0, SU_B1 = (300, 400), (301, 400)
SU_C0, SU_E0, SU_S0 = (500, 600), (700, 800), (20, 50)
SU_TYPES = [[SU_A0, SU_B0, SU_C0], [SU_A1, SU_B0, SU_C0], [SU_A2, SU_B1], [SU_A0, SU_B1, SU_C0], [SU_A1],
            [SU_A0, SU_B0, SU_C0, SU_E0], [SU_S0, SU_A0, SU_B0, SU_C0], [SU_B0, SU_C0]]
SU_COUNTS = (0, 1, 3)
SU_PARAMS = [{"preset": "default_ont", "delta": 0, "apa_delta": 10, "graph_clustering_distance": 4, "singleton_adjacent_cov": 2,
              "min_novel_isolated_intron_abs": 2},
             {"preset": "all", "delta": 1, "apa_delta": 10, "graph_clustering_distance": 3, "singleton_adjacent_cov": 3,
              "min_novel_isolated_intron_abs": 1}]


def su_read(rid, introns):
    ex = [(introns[0][0] - 30, introns[0][0] - 1)] + [(introns[i][1] + 1, introns[i + 1][0] - 1) for i in range(len(introns) - 1)] + \
         [(introns[-1][1] + 1, introns[-1][1] + 30)]
    return {"id": rid, "introns": [list(i) for i in introns], "exons": [list(e) for e in ex], "mm": False, "strand": "+",
            "polya": True, "polyt": False, "group": "g", "mapq": 60}


def simplify_case_from_reads(reads, pj, known=()):
    """-> (kw, canonical value of the real constructor up to simplify(), ratio exact?)"""
    presets, _ = _PRESETS()
    kw = {"known": sorted(list(k) for k in known), "delta": pj["delta"], "reads": reads,
          "min_count": pj.get("min_novel_intron_count", presets[(pj["preset"], "auto")].min_novel_intron_count),
          "_p": pj, "_iso": [], "_known_only": [list(k) for k in known]}
    params = graph_params(pj)
    kw["simplify"] = simp_params_json(params)
    try:
        g = with_timeout(lambda: traced_graph(params, make_gene_info([], kw["_known_only"], pj["delta"]),
                                              [FakeRead(r) for r in reads], keep_on_error=True), secs=3)
    except Hang:
        return kw, {"error": "error", "exc": "hang"}, ratio_exact(params)
    if hasattr(g, "_n_simplify"):
        return kw, canon_simplify(g.after_simplify, g._log[:g._n_simplify]), ratio_exact(params)
    return kw, {"error": "error", "exc": g._exc}, ratio_exact(params)


def corr_simplify_universe(ctx):
    """EXHAUSTIVE tiny loci: every multiplicity vector in {0,1,3}^8 over 8 read shapes on near-identical introns (bulges within
    and outside the clustering distance, a singleton dead end, a singleton dead start, an isolated intron) x 2 parameter sets:
    the real constructor up to simplify() against the COMPUTED simplify of the model"""
    import itertools
    q = ctx.tier == "quick"
    cases, vals, exact = [], [], []
    n = 0
    for idx, vec in enumerate(itertools.product(SU_COUNTS, repeat=len(SU_TYPES))):
        if q and idx % 9 != ctx.seed % 9:
            continue
        reads = []
        for t, c in zip(SU_TYPES, vec):
            for k in range(c):
                reads.append(su_read("u%d" % len(reads), t))
        if not reads:
            continue
        n += 1
        for pj in SU_PARAMS:
            kw, v, ex = simplify_case_from_reads(reads, pj, known=[SU_B0] if pj["preset"] == "all" else ())
            cases.append(("simplify_run", kw))
            vals.append(v)
            exact.append(ex)
    ctx.extra["simplify_universe"] = {"read_shapes": len(SU_TYPES), "multiplicities": list(SU_COUNTS), "loci": n,
                                      "of": len(SU_COUNTS) ** len(SU_TYPES) - 1, "parameter_sets": len(SU_PARAMS), "cases": len(cases)}
    run_simplify_cases(ctx, cases, vals, exact)


def real_simplify_state(IG, state, sp, known):
    """the real simplify() on an IntronGraph / IntronCollector pair in an arbitrary state, traced"""
    vs, clustered, corr, discarded, out, inc = state
    log = []
    col = IG.IntronCollector.__new__(IG.IntronCollector)
    col.gene_info = None
    col.known_introns = set(known)
    col.delta = 0
    col.intron_correction_map = dict(corr)
    col.discarded_introns = set(discarded)

    class G(IG.IntronGraph):
        def collapse_vertex(self, a, b):
            self._log.append(["collapse", list(a), list(b)])
            self._quiet += 1
            try:
                return super().collapse_vertex(a, b)
            finally:
                self._quiet -= 1
    g = G.__new__(G)
    g._log = log
    g._quiet = 0
    g.params = types.SimpleNamespace(debug=False, graph_clustering_distance=sp["graph_clustering_distance"],
                                     graph_clustering_ratio=sp["graph_clustering_ratio"] / 1000.0,
                                     singleton_adjacent_cov=sp["singleton_adjacent_cov"],
                                     min_novel_isolated_intron_abs=sp["min_novel_isolated_intron_abs"])
    g.intron_collector = col
    col.clustered_introns = LogCounts(g, clustered)
    eo, ei = defaultdict(set), defaultdict(set)
    for a, b in out:
        eo[a].add(b)
    for a, b in inc:
        ei[a].add(b)
    g.outgoing_edges = LogEdges("out", log, eo)
    g.incoming_edges = LogEdges("inc", log, ei)
    g.edge_weights = defaultdict(int)
    orig_discard, orig_simplify = col.discard, col.simplify_correction_map

    def discard(intron):
        if g._quiet == 0:
            log.append(["discard", list(intron)])
        g._quiet += 1
        try:
            return orig_discard(intron)
        finally:
            g._quiet -= 1

    def simplify_correction_map():
        log.append(["simplify_map"])
        g._quiet += 1
        try:
            return orig_simplify()
        finally:
            g._quiet -= 1
    col.discard, col.simplify_correction_map = discard, simplify_correction_map
    try:
        with_timeout(g.simplify, secs=1)
    except Hang:
        return {"error": "error", "exc": "hang"}
    except KeyError:
        return {"error": "error", "exc": "KeyError"}
    return canon_simplify(snapshot(g), log)


IDEM_WITNESS = {"reads": [su_read("u0", [SU_A1, SU_B0, SU_C0])] + [su_read("u%d" % k, [SU_A0, SU_B1, SU_C0]) for k in (1, 2, 3)],
                "params": SU_PARAMS[0]}


def corr_simplify_witness(ctx):
    """`simplify_not_idempotent_witness` on the real IntronGraph: a second simplify() changes the graph again"""
    IG, GB, GI, PF, TP = _impl()

    class NoAttach(IG.IntronGraph):
        def attach_terminal_positions(self):
            pass
    pj = IDEM_WITNESS["params"]
    params = graph_params(pj)
    g = NoAttach(params, make_gene_info([], [], pj["delta"]), [FakeRead(r) for r in IDEM_WITNESS["reads"]])
    s1 = snapshot(g)
    g.simplify()
    s2 = snapshot(g)
    k1 = [k for k, _ in s1["col"]["clustered"]]
    k2 = [k for k, _ in s2["col"]["clustered"]]
    ctx.extra["simplify_not_idempotent_on_real_code"] = {"clustered_after_first": k1, "clustered_after_second": k2}
    expect = ([[100, 200], [102, 200], [301, 400], [500, 600]], [[100, 200], [301, 400], [500, 600]])
    if (k1, k2) != expect:
        ctx.disagree("witness:simplify_not_idempotent", {"reads": IDEM_WITNESS["reads"], "params": pj}, list(expect), [k1, k2])
    # the model on the same two runs
    kw, v, ex = simplify_case_from_reads(IDEM_WITNESS["reads"], pj)
    cases = [("simplify_run", kw), ("simplify_state", {"graph": dict(s1, col=dict(s1["col"], known=[])), "simplify": kw["simplify"]})]
    outs = ctx.driver.run([vlib.req("C04." + op, **k) for op, k in cases])
    ctx.evaluations += 2
    for (op, k), mo, want in zip(cases, outs, (s1, s2)):
        ctx.count("op:" + op)
        if vlib.is_err(mo) or "driver_error" in mo or mo.get("graph") != want:
            ctx.disagree(op, k, mo, want)
        else:
            ctx.traces_validated += 1
            ctx.mark_nontrivial([op, "idem_witness"])


def corr_simplify_states(ctx, n):
    """simplify() on random (also inconsistent: non-mirrored edge sets, correction chains, zero counts, cycles) graph states"""
    IG, GB, GI, PF, TP = _impl()
    rng = ctx.rng
    cases, vals, exact = [], [], []
    for _ in range(n):
        vs, clustered, corr, discarded, out, inc = random_graph_state(rng)
        if rng.random() < 0.01 and len(vs) >= 2:
            a, b = vs[0], vs[1]      # a cycle of singletons: the dead-end walk of the real code never ends
            clustered[a] = clustered[b] = 1
            out |= {(a, b), (b, a)}
            inc |= {(a, b), (b, a)}
        if rng.random() < 0.7:
            corr = {}
        known = [v for v in vs if rng.random() < 0.2]
        sp = {"graph_clustering_distance": rng.choice([3, 5]), "graph_clustering_ratio": rng.choice([500, 300]),
              "singleton_adjacent_cov": rng.choice([1, 2, 3]), "min_novel_isolated_intron_abs": rng.choice([1, 2, 5])}
        gj = {"col": {"known": sorted(list(k) for k in known), "clustered": sorted([list(k), c] for k, c in clustered.items()),
                      "corr": sorted([list(k), list(x)] for k, x in corr.items()),
                      "discarded": sorted(list(k) for k in discarded)},
              "out": sorted([list(a), list(b)] for a, b in out), "inc": sorted([list(a), list(b)] for a, b in inc)}
        cases.append(("simplify_state", {"graph": gj, "simplify": sp}))
        vals.append(real_simplify_state(IG, (vs, dict(clustered), dict(corr), set(discarded), set(out), set(inc)), sp, known))
        exact.append(sp["graph_clustering_ratio"] == 500)
    run_simplify_cases(ctx, cases, vals, exact)


# ------------------------------------------------------------------ TranscriptToGeneJoiner

def real_join(kw):
    """run the real TranscriptToGeneJoiner; -> (canonical result | error, table of traced count_score values)"""
    from fractions import Fraction
    IG, GB, GI, PF, TP = _impl()
    gene_strands = {}
    regions = {}
    for g in kw["ref_genes"]:
        gene_strands[g["gid"]] = g["strand"]
        if g["region"] is not None:
            regions[g["gid"]] = tuple(g["region"])
    gi = types.SimpleNamespace(gene_strands=gene_strands, get_gene_regions=lambda: regions,
                               gene_id_map={t: g for t, g, _ in kw["ref_transcripts"]},
                               all_isoforms_introns={t: [tuple(i) for i in intr] for t, g, intr in kw["ref_transcripts"]})
    storage = [GI.TranscriptModel(m["chr"], m["strand"], m["tid"], m["gene"], [tuple(e) for e in m["exons"]],
                                  GI.TranscriptModelType[m["type"]]) for m in kw["storage"]]
    table = {}

    class Traced(GB.TranscriptToGeneJoiner):
        def count_score(self, gene1, gene2):
            v = super().count_score(gene1, gene2)
            if self.gene_strands[gene1] == self.gene_strands[gene2]:
                key = (self.gene_regions[gene1], self.gene_regions[gene2],
                       tuple(sorted(self.gene_introns[gene1])), tuple(sorted(self.gene_introns[gene2])))
                fr = Fraction(v)
                table[key] = (fr.numerator, fr.denominator)
            return v
    try:
        j = Traced(storage, gi)
        res = j.join_transcripts()
    except (KeyError, AssertionError, IndexError, ZeroDivisionError) as ex:
        return {"error": "error", "exc": type(ex).__name__}, table
    out = {"genes": [[m.transcript_id, m.gene_id] for m in res],
           "strands": sorted([g, s] for g, s in j.gene_strands.items()),
           "regions": sorted([g, list(r)] for g, r in j.gene_regions.items()),
           "g2t": sorted([g, sorted(ts)] for g, ts in j.gene_to_transcripts.items()),
           "introns": sorted([g, sorted(list(i) for i in s_)] for g, s_ in j.gene_introns.items() if g in j.gene_to_transcripts),
           "scores": [[a, b, Fraction(v).numerator, Fraction(v).denominator] for (a, b), v in j.scores.items()]}
    return out, table


def canon_join(mo):
    from fractions import Fraction
    if not isinstance(mo, dict) or "genes" not in mo:
        return mo
    g2t_keys = {g for g, _ in mo["g2t"]}
    sc = []
    for a, b, n, d in mo["scores"]:
        fr = Fraction(n, d)
        sc.append([a, b, fr.numerator, fr.denominator])
    return {"genes": mo["genes"], "strands": sorted(mo["strands"]), "regions": sorted(mo["regions"]),
            "g2t": sorted([g, sorted(ts)] for g, ts in mo["g2t"]),
            "introns": sorted([g, i] for g, i in mo["introns"] if g in g2t_keys), "scores": sc}


def gen_joiner_case(rng):
    """a locus with 0-3 annotated genes and a storage of known + novel models attributed to annotated or novel genes"""
    n_ref = rng.choice([0, 1, 1, 2, 3])
    lattice = exon_pool = [(100 + 150 * k, 100 + 150 * k + rng.randint(20, 90)) for k in range(10)]
    ref_genes, ref_tr = [], []
    for k in range(n_ref):
        strand = rng.choice("+-")
        a = rng.randint(0, 5)
        b = rng.randint(a + 2, 9)
        region = [exon_pool[a][0], exon_pool[b][1]]
        gid = "G%d" % k
        ref_genes.append({"gid": gid, "strand": strand, "region": region if rng.random() < 0.97 else None})
        for t in range(rng.randint(0, 2)):
            ex = sorted(rng.sample(exon_pool[a:b + 1], rng.randint(2, min(4, b - a + 1))))
            ref_tr.append(["%s.T%d" % (gid, t), gid, [list(i) for i in GN.introns_of(ex)]])
    storage = []
    novel_genes = ["novel_gene_chr1_%d" % (10 + k) for k in range(rng.randint(1, 4))]
    gene_strand = {g["gid"]: g["strand"] for g in ref_genes}
    for g in novel_genes:
        gene_strand[g] = rng.choice("+-") if rng.random() < 0.93 else "."
    # known models (reference ids; sometimes an id the annotation does not have -> KeyError)
    for t, g, intr in ref_tr:
        if rng.random() < 0.5:
            storage.append({"chr": "chr1", "strand": gene_strand[g], "tid": t, "gene": g, "exons": [[50, 60], [70, 80]],
                            "type": "known", "intron_path": []})
    if rng.random() < 0.03:
        storage.append({"chr": "chr1", "strand": "+", "tid": "ghost", "gene": "G0", "exons": [[50, 60]], "type": "known", "intron_path": []})
    for k in range(rng.randint(1, 6)):
        g = rng.choice(novel_genes + [x["gid"] for x in ref_genes])
        ex = sorted(rng.sample(exon_pool, rng.randint(1, 4)))
        if rng.random() < 0.3:
            # share exons with an earlier model so that intron sets intersect
            prev = [m for m in storage if m["type"] != "known"]
            if prev:
                ex = [tuple(e) for e in rng.choice(prev)["exons"]]
        strand = gene_strand[g] if rng.random() < 0.96 else rng.choice("+-.")
        storage.append({"chr": "chr1", "strand": strand, "tid": "transcript%d.chr1.nnic" % k, "gene": g,
                        "exons": [list(e) for e in ex] if rng.random() < 0.99 else [], "type": rng.choice(["novel_in_catalog", "novel_not_in_catalog"]),
                        "intron_path": []})
    return {"ref_genes": ref_genes, "ref_transcripts": ref_tr, "storage": storage}


def corr_joiner(ctx, n):
    from fractions import Fraction
    cases, vals = [], []
    sc_cases, sc_floats = [], []
    merges = 0
    for _ in range(n):
        kw = gen_joiner_case(ctx.rng)
        iv, table = real_join(kw)
        kw["table"] = [[[list(k[0]), list(k[1]), [list(i) for i in k[2]], [list(i) for i in k[3]]], list(v)] for k, v in table.items()]
        cases.append(("join_transcripts", kw))
        vals.append(iv)
        if not vlib.is_err(iv):
            merged = sum(1 for m, (t, g) in zip(kw["storage"], iv["genes"]) if m["gene"] != g)
            merges += merged
            ctx.count("joiner_models_moved", merged)
        else:
            ctx.count("joiner_exception:" + iv["exc"])
        for k, v in list(table.items())[:3]:
            sc_cases.append(("count_score_exact", {"r1": list(k[0]), "r2": list(k[1]), "i1": [list(i) for i in k[2]], "i2": [list(i) for i in k[3]]}))
            sc_floats.append(float(Fraction(v[0], v[1])))
    run_cases(ctx, cases, vals, lambda op, kw, mo: not vlib.is_err(mo) and any(m["gene"] != g for m, (t, g) in zip(kw["storage"], mo["genes"])),
              canon_model=canon_join)
    # the declarative score formula against the floats of the real count_score (within 1e-9)
    outs = ctx.driver.run([vlib.req("C04." + op, **kw) for op, kw in sc_cases])
    for (op, kw), mo, fl in zip(sc_cases, outs, sc_floats):
        ctx.evaluations += 1
        ctx.count("op:" + op)
        if not (isinstance(mo, list) and len(mo) == 2 and mo[1] > 0 and abs(mo[0] / mo[1] - fl) < 1e-9):
            ctx.disagree(op, kw, mo, fl)
        else:
            ctx.traces_validated += 1
            if fl > 0:
                ctx.mark_nontrivial([op, kw])


# ------------------------------------------------------------------ decision block of construct_fl_isoforms

FL_POOL = [(50, 90), (100, 200), (100, 215), (210, 300), (230, 300), (350, 420), (500, 600), (1200, 1300)]


def fake_constructor(GB, GI):
    c = GB.GraphBasedModelConstructor.__new__(GB.GraphBasedModelConstructor)
    c.transcript_model_storage = []
    c.transcript_read_ids = defaultdict(list)
    c.internal_counter = defaultdict(int)
    c.read_assignment_counts = defaultdict(int)
    c.transcript2transcript = []
    return c


class FakeDistributor:
    def __init__(self, value, forbidden):
        self.value = value
        self.forbidden_ids = set(forbidden)


def model_json(m):
    return {"chr": m.chr_id, "strand": m.strand, "tid": m.transcript_id, "gene": m.gene_id,
            "exons": [list(e) for e in m.exon_blocks], "type": m.transcript_type.name,
            "intron_path": [list(i) for i in m.intron_path]}


def store_json(c):
    return {"models": [model_json(m) for m in c.transcript_model_storage],
            "read_ids": [[k, [a.read_id for a in v]] for k, v in c.transcript_read_ids.items()],
            "counter": [[k, v] for k, v in c.internal_counter.items()],
            "rcount": [[k, v] for k, v in c.read_assignment_counts.items()]}


def real_construct_fl(kw):
    """run the real construct_fl_isoforms on a constructor whose collaborators are stubs answering from `kw`;
    -> (canonical state | error, constructor)"""
    IG, GB, GI, PF, TP = _impl()
    import src.common as C
    import src.id_policy as IDP
    from src.isoform_assignment import ReadAssignmentType
    env = kw["env"]
    level = GB.StrandnessReportingLevel[env["level"]]
    params = types.SimpleNamespace(min_known_count=env["min_known_count"], min_novel_count=env["min_novel_count"],
                                   require_monointronic_polya=env["require_monointronic_polya"],
                                   report_canonical_strategy=level, use_technical_replicas=env["use_technical_replicas"])
    paths, counts, path_reads, verdict = [], {}, {}, {}
    for pi in kw["paths"]:
        pth = tuple(tuple(v) for v in pi["path"])
        paths.append(pth)
        counts[pth] = pi["count"]
        path_reads[pth] = [FakeRead({"id": rid, "exons": [(1, 2)], "introns": [], "mm": False, "strand": "+", "polya": False,
                                     "polyt": False, "group": grp}) for rid, grp in pi["reads"]]
        inner = pth[1:-1]
        if inner:
            verdict[tuple(C.get_exons((pth[0][1], pth[-1][1]), list(inner)))] = (pi["matching"], pi["ref"])
    c = fake_constructor(GB, GI)
    c.params = params
    c.path_storage = types.SimpleNamespace(fl_paths=set(paths), paths=defaultdict(int, counts), paths_to_reads=defaultdict(list, path_reads))
    c.profile_constructor = types.SimpleNamespace(construct_profiles=lambda exons, polya, x: tuple(exons))

    def assign_to_isoform(tid, profile):
        mt, ref = verdict[profile]
        m = types.SimpleNamespace(assigned_transcript=(ref if ref != "" else None), match_subclassifications=[])
        return types.SimpleNamespace(assignment_type=ReadAssignmentType.unique if mt else ReadAssignmentType.inconsistent,
                                     isoform_matches=[m])
    c.assigner = types.SimpleNamespace(assign_to_isoform=assign_to_isoform)
    sdet = GI.StrandDetector(None)
    sdet.strand_dict = {tuple(k): v for k, v in kw["sd"]}
    c.strand_detector = sdet
    ref_models = dict((t, m) for t, m in env["ref_models"])
    gene_empty = env["gene_empty"]
    c.gene_info = types.SimpleNamespace(chr_id=env["chr"], empty=lambda: gene_empty, gene_strands=dict((g, s_) for g, s_ in env["gene_strands"]),
                                        isoform_strands={t: m["strand"] for t, m in ref_models.items()},
                                        gene_id_map={t: m["gene"] for t, m in ref_models.items()},
                                        all_isoforms_exons={t: [tuple(e) for e in m["exons"]] for t, m in ref_models.items()},
                                        sources={t: "syn" for t in ref_models}, other_features={t: [] for t in ref_models})
    c.intron_genes = defaultdict(set, {tuple(k): set(v) for k, v in env["intron_genes"]})
    c.known_isoforms_in_graph = {tuple(tuple(i) for i in p_): "K%d" % i_ for i_, p_ in enumerate(env["known_paths"])}
    c.known_introns = set(tuple(i) for i in env["known_introns"])
    dist = IDP.ExcludingIdDistributor.__new__(IDP.ExcludingIdDistributor)
    dist.value = kw["idv"]
    dist.forbidden_ids = set(kw["forbidden"])
    c.id_distributor = dist
    saved = set(GB.GraphBasedModelConstructor.detected_known_isoforms)
    GB.GraphBasedModelConstructor.detected_known_isoforms = set(kw["detected"])
    try:
        try:
            c.construct_fl_isoforms()
            iv = {"detected": sorted(GB.GraphBasedModelConstructor.detected_known_isoforms), "idv": dist.value,
                  "store": store_json(c)}
        except KeyError as ex:
            iv = {"error": "error", "exc": "KeyError"}
    finally:
        GB.GraphBasedModelConstructor.detected_known_isoforms = saved
    return iv, c


def gen_fl_case(rng):
    IG, GB, GI, PF, TP = _impl()
    presets, _ = _PRESETS()
    name = rng.choice(PRESET_NAMES)
    cli = rng.choice(["auto", "only_canonical", "only_stranded", "all", "all"])
    a = presets[(name, cli)]
    level = a.report_canonical_strategy
    gene_empty = rng.random() < 0.3
    chr_id = rng.choice(["chr1", "chrX"])
    known_introns = [i for i in FL_POOL if rng.random() < 0.5]
    sd = {i: rng.choice(["+", "+", "-", "."]) for i in FL_POOL}
    r0 = rng.random()
    if r0 < 0.4:
        st0 = rng.choice("+-")
        sd = {i: (st0 if rng.random() < 0.8 else ".") for i in FL_POOL}
    elif r0 < 0.6:
        # strand cannot be derived from splice sites: all non-canonical, or balanced
        sd = {i: "." for i in FL_POOL} if rng.random() < 0.6 else {i: "+-"[k % 2] for k, i in enumerate(FL_POOL)}
    genes = {"G1": rng.choice(["+", "-", "."]), "G2": rng.choice("+-")}
    intron_genes = {}
    if not gene_empty:
        for i in FL_POOL:
            if rng.random() < 0.4:
                intron_genes[i] = sorted(rng.sample(["G1", "G2", "G3"] if rng.random() < 0.1 else ["G1", "G2"], rng.randint(1, 2)))
    ref_models = {}
    for t in ("T1", "T2"):
        ref_models[t] = {"chr": chr_id, "strand": rng.choice("+-"), "tid": t, "gene": rng.choice(["G1", "G2"]),
                         "exons": [[10, 49], [91, 99], [201, 400]], "type": "known", "intron_path": []}
    paths = {}
    for _k in range(rng.randint(1, 5)):
        chain = sorted(rng.sample(FL_POOL, rng.randint(0, 4)))
        if rng.random() < 0.7:
            ok = []                      # mostly consistent chains
            for i in chain:
                if not ok or ok[-1][1] + 1 < i[0]:
                    ok.append(i)
            chain = ok
        first = (rng.choice([IG.VERTEX_polyt, IG.VERTEX_read_start]), (chain[0][0] if chain else 50) - rng.randint(1, 40))
        last = (rng.choice([IG.VERTEX_polya, IG.VERTEX_read_end]), (chain[-1][1] if chain else 90) + rng.choice([5, 30, 330]))
        paths[tuple([first] + chain + [last])] = None
    plist = list(paths)
    if rng.random() < 0.25 and plist and len(plist[0]) > 2:
        # a second full-length path with the same chain and another terminal vertex
        q = plist[0]
        paths[tuple(list(q[:-1]) + [(IG.VERTEX_polya, q[-1][1] + 400)])] = None
    known_paths = []
    for pth in list(paths)[:2]:
        if rng.random() < 0.3 and len(pth) > 2:
            known_paths.append(tuple(pth[1:-1]))
    import src.common as C
    verdict, pins = {}, []
    for pth in paths:
        cnt = rng.randint(0, 6)
        reads = [["r%d_%d" % (len(pins), k), rng.choice(["g1", "g1", "g2"])] for k in range(max(cnt, 1))]
        inner = pth[1:-1]
        if inner:
            ex = tuple(C.get_exons((pth[0][1], pth[-1][1]), list(inner)))
            if ex not in verdict:
                r = rng.random()
                if r < 0.25:
                    verdict[ex] = (True, rng.choice(["T1", "T2", "T1", "Tmissing"]))
                elif r < 0.3:
                    verdict[ex] = (True, "")
                else:
                    verdict[ex] = (False, rng.choice(["", "T1"]))
            mt, ref = verdict[ex]
        else:
            mt, ref = False, ""
        pins.append({"path": [list(v) for v in pth], "count": cnt, "reads": reads, "matching": mt, "ref": ref})
    env = {"chr": chr_id, "gene_empty": gene_empty, "known_introns": [list(i) for i in known_introns],
           "known_paths": [[list(i) for i in p_] for p_ in known_paths],
           "intron_genes": [[list(k), v] for k, v in intron_genes.items()],
           "gene_strands": [[g, s_] for g, s_ in genes.items()],
           "ref_models": [[t, m] for t, m in ref_models.items()],
           "min_known_count": a.min_known_count, "min_novel_count": rng.choice([a.min_novel_count, 1, 2]),
           "require_monointronic_polya": a.require_monointronic_polya, "level": level.name,
           "use_technical_replicas": rng.random() < 0.2}
    return {"env": env, "sd": [[list(k), v] for k, v in sd.items()], "forbidden": [x for x in range(1, 12) if rng.random() < 0.2],
            "paths": pins, "detected": [t for t in ("T1", "T2") if rng.random() < 0.2], "idv": rng.randint(0, 5)}


def corr_construct_fl(ctx, n):
    from src.isoform_assignment import ReadAssignmentType, MatchEventSubtype, is_matching_assignment
    # translator cross-check of the allowed event set of is_matching_assignment
    ecases, evals = [], []
    for e in MatchEventSubtype:
        fa = types.SimpleNamespace(assignment_type=ReadAssignmentType.unique_minor_difference,
                                   isoform_matches=[types.SimpleNamespace(match_subclassifications=[types.SimpleNamespace(event_type=e)])])
        ecases.append(("matching_allowed", {"event": e.name}))
        evals.append(bool(is_matching_assignment(fa)))
    run_cases(ctx, ecases, evals, lambda op, kw, mo: True)
    cases, vals = [], []
    for _ in range(n):
        kw = gen_fl_case(ctx.rng)
        iv, _c = real_construct_fl(kw)
        cases.append(("construct_fl", kw))
        vals.append(iv)
        ctx.count("fl_level:" + kw["env"]["level"])
    outs = run_cases(ctx, cases, vals,
                     lambda op, kw, mo: not vlib.is_err(mo) and len(mo["store"]["models"]) > 0, canon_model=canon_fl)
    for mo in outs:
        if isinstance(mo, dict) and "decisions" in mo:
            for d in mo["decisions"]:
                ctx.count("fl_decision:" + d["d"])


def canon_fl(mo):
    if isinstance(mo, dict) and "decisions" in mo:
        return {"detected": sorted(mo["detected"]), "idv": mo["idv"], "store": mo["store"]}
    return mo


# ------------------------------------------------------------------ storage bookkeeping and transcript_model_reads

def real_store_run(kw):
    """apply the JSON store operations to a real GraphBasedModelConstructor (heuristics stubbed from the JSON);
    -> (canonical result | error, constructor)"""
    IG, GB, GI, PF, TP = _impl()
    import io
    from src.isoform_assignment import ReadAssignmentType
    mapq = dict((k, v) for k, v in kw["mapq"])
    pj = kw["_params"]
    c = fake_constructor(GB, GI)
    c.params = types.SimpleNamespace(min_novel_count=pj["min_novel_count"], simple_models_mapq_cutoff=pj["mapq_cutoff"], delta=6,
                                     min_mono_count_rel=pj["min_mono_count_rel"], min_novel_count_rel=pj["min_novel_count_rel"])
    reads = {}

    def get_read(rid):
        if rid not in reads:
            reads[rid] = FakeRead({"id": rid, "exons": [(1, 2)], "introns": [], "mm": False, "strand": "+", "polya": False,
                                   "polyt": False, "group": "g", "mapq": mapq.get(rid, 0)})
        return reads[rid]
    try:
        for k, x in kw["ops"]:
            if k == "add_model":
                mj = x["m"]
                m = GI.TranscriptModel(mj["chr"], mj["strand"], mj["tid"], mj["gene"], [tuple(e) for e in mj["exons"]],
                                       GI.TranscriptModelType[mj["type"]])
                m.intron_path = tuple(tuple(i) for i in mj["intron_path"])
                c.transcript_model_storage.append(m)
                for r in x["reads"]:
                    c.save_assigned_read(get_read(r), m.transcript_id)
            elif k == "delete":
                c.delete_from_storage(x["tid"])
            elif k == "pre_filter":
                c.pre_filter_transcripts()
            elif k == "assign":
                seq = list(x["ins"])
                pos = {"i": 0}

                def assign_to_isoform(read_id, profile, seq=seq, pos=pos):
                    # reads whose count is already positive are skipped *before* the assigner is consulted
                    while seq[pos["i"]]["read"] != read_id:
                        pos["i"] += 1
                    i_ = seq[pos["i"]]
                    pos["i"] += 1
                    return types.SimpleNamespace(
                        assignment_type=ReadAssignmentType.unique if i_["consistent"] else ReadAssignmentType.inconsistent,
                        isoform_matches=[types.SimpleNamespace(assigned_transcript=t) for t in i_["matched"]], read_group=None)
                old = (GB.GeneInfo, GB.LongReadAssigner, GB.CombinedProfileConstructor)
                GB.GeneInfo = types.SimpleNamespace(from_models=lambda st, d: None)
                GB.LongReadAssigner = lambda *a_, **k_: types.SimpleNamespace(assign_to_isoform=assign_to_isoform)
                GB.CombinedProfileConstructor = lambda *a_, **k_: types.SimpleNamespace(construct_profiles=lambda e, p_, y: None)
                try:
                    c.assign_reads_to_models([get_read(i_["read"]) for i_ in seq])
                finally:
                    GB.GeneInfo, GB.LongReadAssigner, GB.CombinedProfileConstructor = old
            elif k == "filter":
                it = iter(x["_covs"])
                cur = {}

                def gmc(path, it=it, cur=cur):
                    cur["v"] = next(it)
                    return cur["v"][0]
                c.intron_graph = types.SimpleNamespace(get_max_component_coverage=gmc,
                                                       is_monointron=lambda v, cur=cur: cur["v"][1],
                                                       get_overlapping_component_max_coverage=lambda r_, cur=cur: cur["v"][2])
                n_all = len(c.transcript_model_storage)

                def detect(storage, n_all=n_all, sub1=x["sub1"], sub2=x["sub2"]):
                    # detect_similar_isoforms is a function of the list it is given: the stub answers sub1 for the whole
                    # storage and sub2 for a shorter (pre-filtered) one -- the same rule the driver applies
                    return {t: "x" for t in (sub1 if len(storage) == n_all else sub2)}
                c.detect_similar_isoforms = detect
                c.correct_novel_transcript_ends = lambda model, reads_: None
                c.filter_transcripts()
    except (KeyError, ZeroDivisionError) as ex:
        return {"error": "error", "exc": type(ex).__name__}, c
    pr = TP.GFFPrinter.__new__(TP.GFFPrinter)
    pr.output_r2t = True
    pr.out_gff = io.StringIO()
    pr.out_r2t = io.StringIO()
    pr.dump_read_assignments(c)
    lines = [l.split("\t") for l in pr.out_r2t.getvalue().split("\n") if l]
    return {"store": store_json(c), "r2t": lines}, c


def gen_store_case(rng):
    """a history of storage operations; ids for assign/delete are drawn from the ids added so far"""
    presets, _ = _PRESETS()
    name = rng.choice(PRESET_NAMES)
    a = presets[(name, "auto")]
    mnc = rng.choice([a.min_novel_count, 1, 2, 3])
    mapq_cutoff = 30
    rel_mono, rel_novel = milli(a.min_mono_count_rel), milli(a.min_novel_count_rel)
    mapq = {}
    ops = []
    models = []
    nmodels = rng.randint(1, 6)
    script = ["add"] * nmodels
    script += rng.choice([["pre", "assign", "filter", "assign"], ["pre", "assign", "filter", "assign"], ["assign", "filter"],
                          ["filter"], ["pre"], ["delete", "assign"], ["assign", "delete", "filter"]])
    if rng.random() < 0.2:
        rng.shuffle(script)

    def rd(hi):
        rid = "rd%d" % rng.randint(0, hi)
        mapq.setdefault(rid, rng.choice([0, 10, 29, 30, 60, 60]))
        return rid
    k_id = 0
    for step in script:
        if step == "add":
            k_id += 1
            known = rng.random() < 0.3
            nex = rng.choice([1, 2, 2, 3, 4])
            exons = [[100 * k + 1, 100 * k + 50] for k in range(nex)]
            tid = ("K%d" % k_id) if known else "transcript%d.chr1.nnic" % k_id
            if rng.random() < 0.04 and models and "filter" not in script:
                tid = models[0]["tid"]          # duplicate id (outside the hypotheses of has_supporting_read)
            m = {"chr": "chr1", "strand": rng.choice("+-"), "tid": tid, "gene": "G1" if known else "novel_gene_chr1_%d" % k_id,
                 "exons": exons, "type": "known" if known else "novel_not_in_catalog",
                 "intron_path": [[e[1] + 1, e[1] + 50] for e in exons[:-1]]}
            models.append(m)
            ops.append(["add_model", {"m": m, "reads": [rd(14) for _k in range(rng.choice([0, 1, 1, 2, 3, 5]))]}])
        elif step == "delete":
            ops.append(["delete", {"tid": rng.choice([m["tid"] for m in models] + ["ghost"])}])
        elif step == "pre":
            ops.append(["pre_filter", {"min_novel_count": mnc, "mapq_cutoff": mapq_cutoff}])
        elif step == "assign":
            tids = [m["tid"] for m in models]
            ins = []
            for k in range(rng.randint(0, 8)):
                cons = rng.random() < 0.7
                matched = rng.sample(tids, rng.randint(1, min(2, len(tids)))) if tids else []
                ins.append({"read": rd(18), "consistent": cons, "matched": matched if cons else []})
            ops.append(["assign", {"ins": ins}])
        elif step == "filter":
            novel = [m for m in models if m["type"] != "known"]
            cov_term, covs = [], []
            seen_cov = {}
            for m in novel:
                if m["tid"] in seen_cov:
                    # a duplicated id (outside the theorems' hypotheses): the model's coverage input is a function of the id
                    covs.append(seen_cov[m["tid"]][0])
                    cov_term.append(seen_cov[m["tid"]][1])
                    continue
                while True:
                    cov1 = rng.choice([0, 0, 3, 10, 57, 150, 333, 1000])
                    cov2 = rng.choice([0, 7, 49, 151, 2003])
                    mono = rng.random() < 0.5
                    use_mono = cov1 == 0 or len(m["intron_path"]) == 0 or (len(m["intron_path"]) == 1 and mono)
                    prod = (a.min_mono_count_rel * cov2) if use_mono else (a.min_novel_count_rel * cov1)
                    if abs(prod - round(prod)) > 1e-6 or prod == round(prod):
                        break
                covs.append([cov1, mono, cov2])
                cov_term.append([m["tid"], (rel_mono * cov2) if use_mono else (rel_novel * cov1)])
                seen_cov[m["tid"]] = (covs[-1], cov_term[-1])
            # the stubs hand out `covs` in storage order of the not-known models that are still stored: keep them aligned
            ops.append(["filter", {"min_novel_count": mnc, "mapq_cutoff": mapq_cutoff,
                                   "sub1": [m["tid"] for m in novel if rng.random() < 0.2],
                                   "sub2": [m["tid"] for m in novel if rng.random() < 0.15],
                                   "cov_term": cov_term, "_covs": covs, "_novel": [m["tid"] for m in novel]}])
    return {"store": {"models": [], "read_ids": [], "counter": [], "rcount": []}, "mapq": [[k, v] for k, v in mapq.items()],
            "ops": ops, "_script": script,
            "_params": {"min_novel_count": mnc, "mapq_cutoff": mapq_cutoff, "min_mono_count_rel": a.min_mono_count_rel,
                        "min_novel_count_rel": a.min_novel_count_rel}}


def align_covs(kw):
    """the real filter consults the coverage stubs once per not-known model *still stored*; models deleted by earlier steps
    must not consume an entry.  Re-derive `_covs` for the models alive at each filter by a dry run of the bookkeeping."""
    IG, GB, GI, PF, TP = _impl()
    alive = []
    for i, (k, x) in enumerate(kw["ops"]):
        if k == "filter":
            res, c = real_store_run(dict(kw, ops=kw["ops"][:i]))
            if vlib.is_err(res):
                return
            ids_alive = [m.transcript_id for m in c.transcript_model_storage if m.transcript_type != GI.TranscriptModelType.known]
            table = dict(zip(x["_novel"], x["_covs"]))
            x["_covs"] = [table[t] for t in ids_alive if t in table]
            terms = dict((t, v) for t, v in x["cov_term"])
            x["cov_term"] = [[t, terms[t]] for t in dict.fromkeys(ids_alive) if t in terms]


def corr_store(ctx, n):
    cases, vals = [], []
    for _ in range(n):
        kw = gen_store_case(ctx.rng)
        align_covs(kw)
        iv, _c = real_store_run(kw)
        cases.append(("store_run", kw))
        vals.append(iv)
        for st in kw["_script"]:
            ctx.count("store_step:" + st)
    run_cases(ctx, cases, vals, lambda op, kw, mo: not vlib.is_err(mo) and len(mo["r2t"]) > 0)


def corr_strand(ctx, n):
    IG, GB, GI, PF, TP = _impl()
    rng = ctx.rng
    cases, vals = [], []
    for _ in range(n):
        sd = {i: rng.choice(["+", "-", "."]) for i in FL_POOL}
        introns = rng.sample(FL_POOL, rng.randint(0, 5))
        pa, pt = rng.random() < 0.5, rng.random() < 0.3
        det = GI.StrandDetector(None)
        det.strand_dict = dict(sd)
        cases.append(("get_strand", {"sd": [[list(k), v] for k, v in sd.items()], "introns": [list(i) for i in introns],
                                     "polya": pa, "polyt": pt}))
        vals.append({"strand": det.get_strand(introns, pa, pt), "clean": det.get_clean_strand(introns)})
    run_cases(ctx, cases, vals, lambda op, kw, mo: True)


def real_monoexon(kw):
    """the real generate_monoexon_from_clustered on a constructor prepared from the JSON"""
    IG, GB, GI, PF, TP = _impl()
    import src.id_policy as IDP
    c = fake_constructor(GB, GI)
    c.params = types.SimpleNamespace(min_novel_count=kw["min_novel_count"])
    c.gene_info = types.SimpleNamespace(chr_id=kw["chr"])
    dist = IDP.ExcludingIdDistributor.__new__(IDP.ExcludingIdDistributor)
    dist.value = kw["idv"]
    dist.forbidden_ids = set(kw["forbidden"])
    c.id_distributor = dist
    for mj in kw["store"]["models"]:
        m = GI.TranscriptModel(mj["chr"], mj["strand"], mj["tid"], mj["gene"], [tuple(e) for e in mj["exons"]],
                               GI.TranscriptModelType[mj["type"]])
        m.intron_path = tuple(tuple(i) for i in mj["intron_path"])
        c.transcript_model_storage.append(m)
    n0 = len(c.transcript_model_storage)
    clustered = {}
    for cl in kw["clusters"]:
        clustered[cl["three_prime"]] = [FakeRead({"id": rid, "exons": [(a, b)], "introns": [], "mm": False, "strand": ".",
                                                  "polya": False, "polyt": False, "group": "g"}) for rid, a, b in cl["reads"]]
    try:
        c.generate_monoexon_from_clustered(clustered, kw["forward"])
    except ValueError:
        return {"error": "error", "exc": "ValueError"}, c
    return {"idv": dist.value, "store": store_json(c),
            "added": [model_json(m) for m in c.transcript_model_storage[n0:]]}, c


def gen_monoexon_case(rng):
    presets, _ = _PRESETS()
    a = presets[(rng.choice(PRESET_NAMES), "auto")]
    forward = rng.random() < 0.5
    stored = []
    for k in range(rng.randint(0, 3)):
        s0 = rng.randint(50, 900)
        exons = [[s0, s0 + rng.randint(20, 300)]]
        if rng.random() < 0.5:
            exons.append([exons[0][1] + 100, exons[0][1] + 250])
        stored.append({"chr": "chr1", "strand": "+", "tid": "S%d" % k, "gene": "G", "exons": exons, "type": "known", "intron_path": []})
    clusters = []
    used = set()
    for k in range(rng.randint(1, 4)):
        three = rng.randint(100, 1500)
        if three in used:
            continue
        used.add(three)
        n = rng.choice([0, 1, 2, 3, 5])
        reads = []
        for j in range(n):
            if forward:
                b = three + rng.randint(-5, 5)
                a_ = b - rng.randint(10, 400)
            else:
                a_ = three + rng.randint(-5, 5)
                b = a_ + rng.randint(10, 400)
            reads.append(["m%d_%d" % (k, j), a_, b])
        clusters.append({"three_prime": three, "reads": reads})
    return {"chr": rng.choice(["chr1", "chrM"]), "forbidden": [x for x in range(1, 12) if rng.random() < 0.2],
            "clusters": clusters, "idv": rng.randint(0, 5), "forward": forward,
            "min_novel_count": rng.choice([a.min_novel_count, 1, 2, 0]),
            "store": {"models": stored, "read_ids": [], "counter": [], "rcount": []}}


def corr_monoexon(ctx, n):
    cases, vals = [], []
    for _ in range(n):
        kw = gen_monoexon_case(ctx.rng)
        iv, _c = real_monoexon(kw)
        cases.append(("monoexon", kw))
        vals.append(iv)
    run_cases(ctx, cases, vals, lambda op, kw, mo: not vlib.is_err(mo) and bool(mo["added"]))


def oracle_monoexon_case(kw):
    IG, GB, GI, PF, TP = _impl()
    import src.common as C
    iv, c = real_monoexon(kw)
    if vlib.is_err(iv):
        return None
    for mj in iv["added"]:
        if mj["strand"] not in "+-":
            return "undefined_strand", "mono-exonic model %s has strand %r" % (mj["tid"], mj["strand"])
        if not mj["gene"].startswith(C.TranscriptNaming.novel_gene_prefix) or mj["type"] == "known":
            return "annotation_free_not_novel", "mono-exonic novel model %s in gene %s, type %s" % (mj["tid"], mj["gene"], mj["type"])
        if len(c.transcript_read_ids.get(mj["tid"], [])) < max(1, kw["min_novel_count"]) and kw["min_novel_count"] >= 1:
            return "no_supporting_read", "mono-exonic model %s has %d reads" % (mj["tid"], len(c.transcript_read_ids.get(mj["tid"], [])))
        if len(mj["exons"]) != 1:
            return "unsupported_intron", "mono-exonic model %s has exons %s" % (mj["tid"], mj["exons"])
    return None


def corr_correct_ends(ctx, n):
    """correct_novel_transcript_ends only rewrites the two outer coordinates: the real result must equal
    setEnd (setStart exons new_start) new_end for the start / end it chose"""
    IG, GB, GI, PF, TP = _impl()
    rng = ctx.rng
    cases, vals = [], []
    for _ in range(n):
        k = rng.randint(1, 4)
        pts = sorted(rng.sample(range(100, 2000), 2 * k))
        exons = [(pts[2 * i], pts[2 * i + 1]) for i in range(k)]
        reads = []
        for j in range(rng.randint(0, 5)):
            a = exons[0][0] + rng.choice([0, 3, 20, 80, -40, 200])
            b = exons[-1][1] - rng.choice([0, 3, 20, 80, -40, 200])
            reads.append(FakeRead({"id": "e%d" % j, "exons": [(a, max(a + 1, b))], "introns": [], "mm": False, "strand": "+",
                                   "polya": False, "polyt": False, "group": "g"}))
        c = fake_constructor(GB, GI)
        c.params = types.SimpleNamespace(apa_delta=rng.choice([10, 50]))
        m = GI.TranscriptModel("chr1", "+", "t", "g", list(exons), GI.TranscriptModelType.novel_not_in_catalog)
        c.correct_novel_transcript_ends(m, reads)
        cases.append(("set_ends", {"ex": [list(e) for e in exons], "s": m.exon_blocks[0][0], "e": m.exon_blocks[-1][1]}))
        vals.append([list(e) for e in m.exon_blocks])
        if m.exon_blocks != exons:
            ctx.count("ends_corrected")
    run_cases(ctx, cases, vals, lambda op, kw, mo: bool(mo))


def corr_validate_exons(ctx, n):
    IG, GB, GI, PF, TP = _impl()
    rng = ctx.rng
    cases, vals = [], []
    for _ in range(n):
        k = rng.randint(0, 4)
        if rng.random() < 0.6:
            pts = sorted(rng.sample(range(-2, 40), 2 * k))
            l = [(pts[2 * i], pts[2 * i + 1]) for i in range(k)]
            if rng.random() < 0.2 and l:
                rng.shuffle(l)
        else:
            l = [(rng.randint(-1, 12), rng.randint(-1, 12)) for _ in range(k)]
        cases.append(("validate_exons", {"l": [list(x) for x in l]}))
        vals.append(bool(TP.validate_exons(l)))
    run_cases(ctx, cases, vals, lambda op, kw, mo: mo is True)


def correspondence(ctx):
    q = ctx.tier == "quick"
    corr_tables(ctx)
    corr_collector_and_graph(ctx, gen_loci(ctx, 150 if q else 1500))
    corr_graph_histories(ctx, 600 if q else 6000)
    corr_thread_universe(ctx)
    corr_simplify_universe(ctx)
    corr_simplify_states(ctx, 500 if q else 5000)
    corr_simplify_witness(ctx)
    corr_edge_witnesses(ctx)
    corr_joiner(ctx, 400 if q else 4000)
    corr_strand(ctx, 200 if q else 2000)
    corr_validate_exons(ctx, 300 if q else 3000)
    corr_monoexon(ctx, 300 if q else 3000)
    corr_correct_ends(ctx, 200 if q else 2000)
    corr_construct_fl(ctx, 400 if q else 4000)
    corr_store(ctx, 400 if q else 4000)
    # growth: detect_similar_isoforms / filter_transcripts computed by the model (props/c04sim.py)
    SIM.correspondence(ctx)
    # growth: the constructors of one chromosome task (props/c04split.py)
    SPLIT.correspondence(ctx)
    # closure p04chain: the second assigner's answers as a function of (read, content of the storage) (props/c04chain.py)
    CHAIN.correspondence(ctx)


# ---------------------------------------------------------------------------------------------------
# oracle: the property itself, evaluated on the real code
# ---------------------------------------------------------------------------------------------------

def junctions(exons):
    return [(exons[i][1] + 1, exons[i + 1][0] - 1) for i in range(len(exons) - 1)]


def oracle_graph_case(kw):
    """vertices_observed on the real IntronGraph: -> (kind, detail) or None"""
    IG, GB, GI, PF, TP = _impl()
    try:
        g, gi, reads = real_graph_from_kw(kw)
    except Hang:
        return "hang", "IntronGraph construction does not terminate (cyclic correction map)"
    except (KeyError, AssertionError, IndexError, ValueError, ZeroDivisionError):
        return None
    obs = observed_introns(kw["reads"])
    snap = snapshot(g)
    bad = sorted(v for v in graph_vertices(snap) if v not in obs)
    if bad:
        return "graph_vertex_unobserved", "vertices %s occur in no non-multimapper read" % bad[:4]
    bad_simplify = oracle_simplify_clauses(g, graph_params(kw["_p"]), kw.get("known", []))
    if bad_simplify:
        return bad_simplify
    # terminal_vertices_spec: codes, side and origin of the attached terminal vertices
    ends = {r.corrected_exons[-1][1] for r in reads if not r.multimapper and r.corrected_exons}
    starts = {r.corrected_exons[0][0] for r in reads if not r.multimapper and r.corrected_exons}
    for k, vs in g.outgoing_edges.items():
        for v in vs:
            if v[0] >= 0:
                continue
            ok_pos = v[1] in ends or (v[0] == IG.VERTEX_polya and v[1] in g.terminal_known_positions.get(k, []))
            if v[0] not in (IG.VERTEX_polya, IG.VERTEX_read_end) or not v[1] > k[1] or not ok_pos:
                return "terminal_vertex_misplaced", "outgoing_edges[%s] holds %s" % (k, v)
    for k, vs in g.incoming_edges.items():
        for v in vs:
            if v[0] >= 0:
                continue
            ok_pos = v[1] in starts or (v[0] == IG.VERTEX_polyt and v[1] in g.starting_known_positions.get(k, []))
            if v[0] not in (IG.VERTEX_polyt, IG.VERTEX_read_start) or not v[1] < k[0] or not ok_pos:
                return "terminal_vertex_misplaced", "incoming_edges[%s] holds %s" % (k, v)
    params = graph_params(kw["_p"])
    pp = GB.IntronPathProcessor(params, g)
    threaded = set()
    for r in reads:
        if r.multimapper:
            continue
        path = pp.thread_introns(r.corrected_introns)
        if path:
            threaded.add(tuple(tuple(v) for v in path))
        if path and any(tuple(v) not in obs for v in path):
            return "thread_path_unobserved", "read %s threads through %s" % (r.read_id, [v for v in path if tuple(v) not in obs][:3])
    # full-length paths of the path storage come from non-multimapper reads
    params.requires_polya_for_construction = False
    st = GB.IntronPathStorage(params, pp)
    try:
        st.fill(reads)
    except IndexError:
        return None
    except TypeError:
        return "fill_raises", "IntronPathStorage.fill raises TypeError on a well-formed read set"
    for pth in st.fl_paths:
        inner = tuple(tuple(v) for v in pth[1:-1])
        if inner not in threaded:
            return "fl_path_without_read", "full-length path %s is threaded by no non-multimapper read" % (list(pth),)
        if any(tuple(v) not in obs for v in inner):
            return "unsupported_intron", "full-length path %s has an intron no non-multimapper read contains" % (list(pth),)
        if st.paths[pth] != len(st.paths_to_reads[pth]) or any(a.multimapper for a in st.paths_to_reads[pth]):
            return "fl_path_without_read", "path %s: count %d, reads %d" % (list(pth), st.paths[pth], len(st.paths_to_reads[pth]))
        # fl_paths_attached: the ends are terminal vertices attached to the first / last intron
        if not inner or pth[0][0] not in (IG.VERTEX_polyt, IG.VERTEX_read_start) or pth[-1][0] not in (IG.VERTEX_polya, IG.VERTEX_read_end) \
                or pth[0] not in g.incoming_edges.get(inner[0], ()) or pth[-1] not in g.outgoing_edges.get(inner[-1], ()):
            return "fl_path_not_attached", "full-length path %s does not run from a starting to a terminal vertex of its introns" % (list(pth),)
        # paths_monotone: what survives the length guard is strictly increasing with an exon everywhere
        import src.common as C
        ex = C.get_exons((pth[0][1], pth[-1][1]), list(inner))
        if len(ex) == len(inner) + 1:
            chain = [(0, pth[0][1] - 1)] + list(inner) + [(pth[-1][1] + 1, 0)]
            if any(i[0] > i[1] for i in inner) or any(chain[k][1] + 1 >= chain[k + 1][0] for k in range(len(chain) - 1)) or \
                    any(ex[k][1] >= ex[k + 1][0] for k in range(len(ex) - 1)) or any(e[0] > e[1] for e in ex):
                return "path_not_monotone", "path %s passes the length guard with exons %s" % (list(pth), ex)
    return None


def oracle_simplify_clauses(g, params, known):
    """Props/C04Simplify.lean on the REAL simplify() (traced): collapses stay inside the merge relation, every key of
    clustered_introns that disappears was collapsed or discarded with a justification, supported introns survive"""
    if not hasattr(g, "_n_simplify"):
        return None
    d = params.graph_clustering_distance
    ops = g._log[:g._n_simplify]
    for o in ops:
        if o[0] == "collapse":
            c, s_ = tuple(o[1]), tuple(o[2])
            if c == s_ or not (abs(c[0] - s_[0]) < d and abs(c[1] - s_[1]) < d):
                return "collapse_outside_merge_relation", "collapse_vertex(%s, %s) with graph_clustering_distance %d" % (c, s_, d)
    before = {tuple(k): v for k, v in g.after_construct["col"]["clustered"]}
    after = {tuple(k): v for k, v in g.after_simplify["col"]["clustered"]}
    corr0 = {tuple(k) for k, _ in g.after_construct["col"]["corr"]}
    disc0 = {tuple(k) for k in g.after_construct["col"]["discarded"]}
    collapsed = {tuple(o[1]) for o in ops if o[0] == "collapse"}
    discarded = {tuple(o[1]) for o in ops if o[0] == "discard"}
    knownset = {tuple(k) for k in known}
    for v in before:
        if v not in after and v not in collapsed and v not in discarded and v not in corr0:
            return "unjustified_drop", "intron %s left clustered_introns without collapse_vertex / discard" % (v,)
    for v in discarded:
        if v in knownset or before.get(v, 0) >= params.min_novel_isolated_intron_abs and v not in collapsed:
            # a discarded intron is unannotated and below the cut-off (its count can only have grown since construct())
            return "unjustified_drop", "intron %s (annotated: %s, count %d) was discarded" % (v, v in knownset, before.get(v, 0))
    allv = set(before) | corr0 | disc0
    for v, c in before.items():
        if v in corr0 or v in disc0:
            continue
        if not (v in knownset or c >= params.min_novel_isolated_intron_abs):
            continue
        if any(u != v and abs(u[0] - v[0]) < d and abs(u[1] - v[1]) < d for u in allv):
            continue
        if v not in after or after[v] < c:
            return "supported_intron_dropped", "intron %s (count %d, no sibling within %d) -> %s" % (v, c, d, after.get(v))
    return None


def oracle_graph_ops_case(kw):
    IG, GB, GI, PF, TP = _impl()
    g = kw["graph"]
    state = ([tuple(k) for k, _ in g["col"]["clustered"]], {tuple(k): c for k, c in g["col"]["clustered"]},
             {tuple(k): tuple(v) for k, v in g["col"]["corr"]}, {tuple(k) for k in g["col"]["discarded"]},
             {(tuple(a), tuple(b)) for a, b in g["out"]}, {(tuple(a), tuple(b)) for a, b in g["inc"]})
    before = graph_vertices(g) | {tuple(o) for o in kw["obs"]}
    snap = apply_real_ops(IG, state, kw["ops"])
    if vlib.is_err(snap):
        return None
    bad = sorted(v for v in graph_vertices(snap) if v not in before)
    if bad:
        return "graph_vertex_invented", "vertices %s appear from nowhere" % bad[:4]
    return None


def oracle_fl_case(kw):
    """the clauses of the property on the models the real construct_fl_isoforms emits"""
    IG, GB, GI, PF, TP = _impl()
    import src.common as C
    iv, c = real_construct_fl(kw)
    if vlib.is_err(iv):
        return None
    env = kw["env"]
    known = {tuple(i) for i in env["known_introns"]}
    known_paths = {tuple(tuple(i) for i in p_) for p_ in env["known_paths"]}
    matching_chains = {tuple(tuple(v) for v in pi["path"][1:-1]) for pi in kw["paths"] if pi["matching"]}
    chains = []
    for m in c.transcript_model_storage:
        if m.transcript_type == GI.TranscriptModelType.known:
            if env["gene_empty"] and not any(pi["matching"] for pi in kw["paths"]):
                return "annotation_free_not_novel", "known model %s in an annotation-free run" % m.transcript_id
            continue
        ip = [tuple(i) for i in m.intron_path]
        if junctions(m.exon_blocks) != ip:
            return "unsupported_intron", "model %s: exon junctions %s != path %s" % (m.transcript_id, junctions(m.exon_blocks), ip)
        allk = all(i in known for i in ip)
        sfx_nic = m.transcript_id.endswith(C.TranscriptNaming.nic_transcript_suffix) and \
            not m.transcript_id.endswith(C.TranscriptNaming.nnic_transcript_suffix)
        sfx_nnic = m.transcript_id.endswith(C.TranscriptNaming.nnic_transcript_suffix)
        if (allk and not sfx_nic) or (not allk and not sfx_nnic) or \
                (m.transcript_type == GI.TranscriptModelType.novel_in_catalog) != allk:
            return "wrong_suffix", "model %s type %s, all introns annotated = %s" % (m.transcript_id, m.transcript_type.name, allk)
        if env["level"] != "all" and m.strand not in "+-":
            return "undefined_strand", "model %s has strand %r under level %s" % (m.transcript_id, m.strand, env["level"])
        if tuple(ip) in known_paths and tuple(ip) not in matching_chains:
            return "chain_equals_reference", "model %s repeats the chain of a reference isoform in the graph" % m.transcript_id
        rs = c.transcript_read_ids.get(m.transcript_id, [])
        if len(rs) < max(1, env["min_novel_count"]) and env["min_novel_count"] >= 1:
            return "no_supporting_read", "model %s has %d reads, min_novel_count %d" % (m.transcript_id, len(rs), env["min_novel_count"])
        if env["gene_empty"] and not m.gene_id.startswith(C.TranscriptNaming.novel_gene_prefix):
            return "annotation_free_not_novel", "model %s in gene %s" % (m.transcript_id, m.gene_id)
        chains.append((tuple(ip), m.strand, m.transcript_id))
    return None


def oracle_store_case(kw):
    """r2t_refers_to_storage / has_supporting_read on the real bookkeeping, for histories inside the theorems' domain"""
    IG, GB, GI, PF, TP = _impl()
    ops = kw["ops"]
    # domain: every `assign` names stored models, no bare delete_from_storage (the code never calls it without dropping the model)
    stored = []
    for i, (k, x) in enumerate(ops):
        if k == "delete":
            return None
        if k == "assign":
            res, c = real_store_run(dict(kw, ops=ops[:i]))
            if vlib.is_err(res):
                return None
            ids = {m.transcript_id for m in c.transcript_model_storage}
            if any(t not in ids for a in x["ins"] for t in a["matched"]):
                return None
    res, c = real_store_run(kw)
    if vlib.is_err(res):
        return None
    ids = [m.transcript_id for m in c.transcript_model_storage]
    for rid, tid in res["r2t"]:
        if tid != "*" and tid not in ids:
            return "r2t_unknown_transcript", "line (%s, %s): transcript not in the storage" % (rid, tid)
    kinds = [k for k, _ in ops]
    if "filter" in kinds:
        last = max(i for i, k in enumerate(kinds) if k == "filter")
        if all(k == "assign" for k in kinds[last + 1:]) and len(set(ids)) == len(ids) and kw["_params"]["min_novel_count"] >= 1 \
                and len({x["m"]["tid"] for k, x in ops if k == "add_model"}) == sum(1 for k in kinds if k == "add_model"):
            listed = {tid for _, tid in res["r2t"]}
            for m in c.transcript_model_storage:
                if m.transcript_type != GI.TranscriptModelType.known and m.transcript_id not in listed:
                    return "no_supporting_read", "stored novel model %s has no line in transcript_model_reads" % m.transcript_id
    return None


def oracle_joiner_case(kw):
    """joined_gene_strand on the real TranscriptToGeneJoiner, inside the theorem's domain (pairwise distinct ids)"""
    IG, GB, GI, PF, TP = _impl()
    novel = [m for m in kw["storage"] if m["type"] != "known"]
    ids = [m["tid"] for m in novel]
    if len(set(ids)) != len(ids) or set(ids) & {t for t, _, _ in kw["ref_transcripts"]}:
        return None
    gene_strands = {g["gid"]: g["strand"] for g in kw["ref_genes"]}
    regions = {g["gid"]: tuple(g["region"]) for g in kw["ref_genes"] if g["region"] is not None}
    gi = types.SimpleNamespace(gene_strands=gene_strands, get_gene_regions=lambda: regions,
                               gene_id_map={t: g for t, g, _ in kw["ref_transcripts"]},
                               all_isoforms_introns={t: [tuple(i) for i in intr] for t, g, intr in kw["ref_transcripts"]})
    storage = [GI.TranscriptModel(m["chr"], m["strand"], m["tid"], m["gene"], [tuple(e) for e in m["exons"]],
                                  GI.TranscriptModelType[m["type"]]) for m in kw["storage"]]
    try:
        j = GB.TranscriptToGeneJoiner(storage, gi)
        res = j.join_transcripts()
    except (KeyError, AssertionError, IndexError, ZeroDivisionError):
        return None
    by_gene = defaultdict(set)
    for m in res:
        if m.transcript_type == GI.TranscriptModelType.known:
            continue
        if j.gene_strands.get(m.gene_id) != m.strand:
            return "gene_strand_mismatch", "novel model %s (%s) joined to gene %s of strand %r" % (
                m.transcript_id, m.strand, m.gene_id, j.gene_strands.get(m.gene_id))
        by_gene[m.gene_id].add(m.strand)
        if m.gene_id in gene_strands and gene_strands[m.gene_id] != m.strand:
            return "gene_strand_mismatch", "novel model %s (%s) joined to annotated gene %s (%s)" % (
                m.transcript_id, m.strand, m.gene_id, gene_strands[m.gene_id])
    if any(len(v) > 1 for v in by_gene.values()):
        return "gene_strand_mismatch", "a joined gene holds novel models of two strands"
    return None


def oracle_tables():
    """min_novel_count >= 1 in every preset of the real set_model_construction_options; suffixes distinguishable"""
    import src.common as C
    presets, _ = _PRESETS()
    for (name, cli), a in presets.items():
        if a.min_novel_count < 1:
            return "preset_allows_unsupported_model", "strategy %s: min_novel_count = %s" % (name, a.min_novel_count), {"preset": name}
    n, nn = C.TranscriptNaming.nic_transcript_suffix, C.TranscriptNaming.nnic_transcript_suffix
    if n.endswith(nn) or nn.endswith(n):
        return "suffixes_not_distinguishable", "%r / %r" % (n, nn), {}
    return None


# ------------------------------------------------------------------ pipeline level

def witness_dataset(name, control=False):
    """hand-made inputs for the two defects found (docs/C04.md); `control`: the same locus in a read cluster that is NOT cut"""
    from gen import synth
    ds = SPLIT.witness_dataset(name, control=control)        # growth c04split: loci whose read cluster is cut into sub-regions
    if ds is not None:
        return ds
    ds = synth.Dataset(7)
    ds.add_chrom("chr1", 30000)
    if name == "overlap_substitution":
        A = [(900, 1099), (1501, 1599), (2001, 2009), (2501, 2700)]
        B = [(900, 1099), (1501, 1599), (2016, 2199), (2501, 2700)]
        for ex in (A, B):
            ds.plant_sites("chr1", junctions(ex), "+")
        for k in range(3):
            ds.read_from_exons("A%d" % k, "chr1", A, polya=25)
        for k in range(8):
            ds.read_from_exons("B%d" % k, "chr1", B, polya=25)
    elif name == "monointron_apa":
        E1 = [(900, 1099), (1501, 1900)]
        E2 = [(900, 1099), (1501, 2600)]
        ds.plant_sites("chr1", [(1100, 1500)], "+")
        for k in range(6):
            ds.read_from_exons("S%d" % k, "chr1", E1, polya=25)
        for k in range(6):
            ds.read_from_exons("L%d" % k, "chr1", E2, polya=25)
    elif name == "multiexon_apa":
        E1 = [(900, 1099), (1501, 1700), (2001, 2300)]
        E2 = [(900, 1099), (1501, 1700), (2001, 3000)]
        ds.plant_sites("chr1", [(1100, 1500), (1701, 2000)], "+")
        for k in range(6):
            ds.read_from_exons("S%d" % k, "chr1", E1, polya=25)
        for k in range(6):
            ds.read_from_exons("L%d" % k, "chr1", E2, polya=25)
    elif name == "noncanonical_all":
        E = [(900, 1099), (1501, 1700), (2001, 2300)]
        s_ = list(ds.chroms["chr1"])
        for a, b in junctions(E):
            s_[a - 1:a + 1] = "AA"
            s_[b - 2:b] = "AA"
        ds.chroms["chr1"] = "".join(s_)
        for k in range(6):
            ds.read_from_exons("N%d" % k, "chr1", E)
    else:
        raise ValueError(name)
    ds.add_gene("chr1", "Gfar", "+", [("Tfar", [(20000, 20300), (21000, 21300)])])
    return ds


def build_dataset(spec):
    if spec["kind"] == "witness":
        return witness_dataset(spec["name"], control=bool(spec.get("control")))
    if spec["kind"] == "split":
        return SPLIT.build_dataset(spec)
    if spec["kind"] == "layout":
        return GN.layout_dataset(spec["seed"], **spec.get("args", {}))
    ds, truth = GN.novel_dataset(spec["seed"], **spec.get("args", {}))
    return ds


def effective_level(cfg):
    presets, _ = _PRESETS()
    cli = cfg.get("report_canonical") or "only_stranded"
    strategy = cfg.get("strategy") or {"nanopore": "default_ont", "pacbio_ccs": "default_pacbio"}[cfg.get("data_type", "nanopore")]
    return presets[(strategy, cli)].report_canonical_strategy.name


def bed_introns(path):
    import pipeline as P
    res = defaultdict(set)
    for f in P.read_bed(path):
        if len(f) < 12:
            continue
        start0 = int(f[1])
        sizes = [int(x) for x in f[10].rstrip(",").split(",")]
        starts = [int(x) for x in f[11].rstrip(",").split(",")]
        for i in range(len(sizes) - 1):
            res[f[0]].add((start0 + starts[i] + sizes[i] + 1, start0 + starts[i + 1]))
    return res


def gtf_transcripts(path):
    import pipeline as P
    tx = {}
    order = []
    for r in P.parse_gtf(path):
        tid = r["attrs"].get("transcript_id")
        if r["feature"] in ("transcript", "mRNA"):
            if tid in tx and tx[tid].get("seen_line"):
                tx[tid]["dup"] = True
            tx.setdefault(tid, {"exons": []}).update({"chr": r["chr"], "strand": r["strand"], "gene": r["attrs"].get("gene_id"),
                                                      "seen_line": True})
            order.append(tid)
        elif r["feature"] == "exon":
            tx.setdefault(tid, {"exons": []})
            tx[tid].setdefault("chr", r["chr"])
            tx[tid].setdefault("strand", r["strand"])
            tx[tid].setdefault("gene", r["attrs"].get("gene_id"))
            tx[tid]["exons"].append((r["start"], r["end"]))
    for t in tx.values():
        t["exons"] = sorted(t["exons"])
        t["introns"] = junctions(t["exons"])
    return tx


def check_outputs(inputs, outdir, cfg):
    """-> list of (kind, class, detail); evaluates every clause of the statement on the output files"""
    import pipeline as P
    import src.common as C
    f = P.out_files(outdir)
    res = []
    models = gtf_transcripts(f["S.transcript_models.gtf"])
    ref = gtf_transcripts(inputs["gtf"]) if cfg.get("genedb") else {}
    bed = bed_introns(f["S.corrected_reads.bed"])
    r2t = [l.split("\t") for l in P.read_lines(f["S.transcript_model_reads.tsv"])]
    reads_of = defaultdict(list)
    for rid, tid in r2t:
        reads_of[tid].append(rid)
        if tid != "*" and tid not in models:
            res.append(("r2t_unknown_transcript", "", "transcript_model_reads names %s, absent from transcript_models.gtf" % tid))
    ann_introns = defaultdict(set)
    ref_chains = defaultdict(set)
    for tid, t in ref.items():
        for i in t["introns"]:
            ann_introns[t["chr"]].add(i)
        if t["introns"]:
            ref_chains[(t["chr"], t["strand"])].add(tuple(t["introns"]))
    level = effective_level(cfg)
    for tid, t in sorted(models.items()):
        if t.get("dup"):
            # interface to C17 (distinct ids; hypothesis of has_supporting_read / repeated_chain_keeps_reads): round c04rep re-uses the id
            # of the model reported first for the reads of a later constructor - the model itself must not be printed again
            res.append(("duplicate_transcript_id", "", "transcript_models.gtf has two transcript records with the id %s" % tid))
    novel = {tid: t for tid, t in models.items() if tid not in ref}
    seen_chain = {}
    ndot = 0
    for tid, t in sorted(novel.items()):
        for i in t["introns"]:
            if i not in bed[t["chr"]]:
                res.append(("unsupported_intron", "", "novel %s: intron %s of %s in no corrected read" % (tid, i, t["chr"])))
        if not reads_of.get(tid):
            res.append(("no_supporting_read", "", "novel %s has no line in transcript_model_reads" % tid))
        if t["strand"] not in "+-":
            ndot += 1
            if level != "all":
                res.append(("undefined_strand", "", "novel %s has strand %r under level %s" % (tid, t["strand"], level)))
        if t["introns"]:
            allk = all(i in ann_introns[t["chr"]] for i in t["introns"])
            nic = tid.endswith(C.TranscriptNaming.nic_transcript_suffix) and not tid.endswith(C.TranscriptNaming.nnic_transcript_suffix)
            nnic = tid.endswith(C.TranscriptNaming.nnic_transcript_suffix)
            if (allk and not nic) or (not allk and not nnic):
                # growth c04split (audit GAP-1b): on a CUT cluster the constructor only knows the genes of its sub-region
                cls = SPLIT.classify_wrong_suffix(inputs, t, ref) if (allk and nnic) else ""
                res.append(("wrong_suffix", cls, "novel %s: all introns annotated = %s" % (tid, allk)))
            ch = tuple(t["introns"])
            if ch in ref_chains[(t["chr"], t["strand"])]:
                res.append(("chain_equals_reference", "", "novel %s repeats the intron chain of a reference transcript" % tid))
            key = (t["chr"], t["strand"], ch)
            if key in seen_chain:
                # the listed finding is mono-intronic AND its twins end at two different polyA sites (audit C04 remark 3: the
                # predicate must not swallow a mono-intronic duplicate of another origin, e.g. two sub-regions of a cut cluster,
                # whose twins share the 3' end and differ at the 5' end)
                o = novel[seen_chain[key]]
                end3 = (lambda x: x["exons"][-1][1]) if t["strand"] == "+" else (lambda x: x["exons"][0][0])
                cls = "multi_exon" if len(ch) > 1 else ("monointron_apa" if end3(o) != end3(t) else "monointron_same_polya")
                res.append(("duplicate_novel_chain", cls, "novel %s and %s share the intron chain %s on %s%s"
                            % (seen_chain[key], tid, list(ch)[:3], t["chr"], t["strand"])))
            else:
                seen_chain[key] = tid
    if not cfg.get("genedb"):
        for tid, t in models.items():
            if not (t.get("gene") or "").startswith(C.TranscriptNaming.novel_gene_prefix):
                res.append(("annotation_free_not_novel", "", "%s belongs to gene %s in an annotation-free run" % (tid, t.get("gene"))))
            if t["introns"] and not (tid.endswith(C.TranscriptNaming.nic_transcript_suffix) or tid.endswith(C.TranscriptNaming.nnic_transcript_suffix)):
                res.append(("annotation_free_not_novel", "", "%s is not a novel id" % tid))
    stats = {"novel": len(novel), "novel_spliced": sum(1 for t in novel.values() if t["introns"]), "dot_strand": ndot,
             "known": len(models) - len(novel), "r2t_lines": len(r2t)}
    return res, stats


def run_pipeline_case(spec, cfg, keep=None):
    """-> (failures, stats) ; failures: list of (kind, class, detail)"""
    import pipeline as P
    d = P.scratch("isoverif_c04_")
    try:
        ds = build_dataset(spec)
        inputs = ds.write(os.path.join(d, "in"))
        extra = []
        if cfg.get("strategy"):
            extra += ["--model_construction_strategy", cfg["strategy"]]
        if cfg.get("report_canonical"):
            extra += ["--report_canonical", cfg["report_canonical"]]
        if cfg.get("novel_unspliced"):
            extra += ["--report_novel_unspliced", "true"]
        extra += list(cfg.get("extra") or [])          # audit-2: options outside the model-construction group
        rc, log = P.run_isoquant(os.path.join(d, "out"), P.std_args(inputs, threads=1, genedb=bool(cfg.get("genedb")),
                                                                      data_type=cfg.get("data_type", "nanopore"), extra=extra),
                                  timeout=150)
        if rc != 0:
            return [("pipeline_crash", "", log[-600:])], {}
        fails, stats = check_outputs(inputs, os.path.join(d, "out"), cfg)
        # round c04rep: a cut read cluster against the SAME locus in a cluster that is not cut (the deep neighbour left out):
        # the reads of the locus must be listed under models with the same intron chains and counted the same
        cspec = SPLIT.control_spec(spec)
        if cspec is not None:
            cin = build_dataset(cspec).write(os.path.join(d, "cin"))
            rc2, log2 = P.run_isoquant(os.path.join(d, "cout"), P.std_args(cin, threads=1, genedb=bool(cfg.get("genedb")),
                                                                           data_type=cfg.get("data_type", "nanopore"), extra=extra),
                                       timeout=150)
            if rc2 != 0:
                return fails + [("pipeline_crash", "", log2[-600:])], stats
            dfails, dstats = SPLIT.differential(os.path.join(d, "out"), os.path.join(d, "cout"))
            fails = fails + dfails
            stats = dict(stats, **dstats)
        return fails, stats
    finally:
        shutil.rmtree(d, ignore_errors=True)


PIPE_STRATEGIES = [("nanopore", None), ("nanopore", "sensitive_ont"), ("pacbio_ccs", None), ("pacbio_ccs", "sensitive_pacbio"),
                   ("nanopore", "all"), ("pacbio_ccs", "assembly"), ("pacbio_ccs", "reliable"), ("pacbio_ccs", "fl_pacbio"),
                   ("nanopore", "default_pacbio"), ("pacbio_ccs", "default_ont")]


REPORT_LEVELS = [None, "auto", "only_canonical", "all", "only_stranded"]


def pipeline_oracle(ctx, nrandom):
    stats_total = defaultdict(int)
    crashes = {"n": 0}

    def record(spec, cfg, fails, stats):
        for k, v in stats.items():
            stats_total[k] += v
        ctx.count("pipeline_run:%s:%s" % (cfg.get("strategy") or cfg.get("data_type"), "genedb" if cfg.get("genedb") else "nodb"))
        for kind, cls, detail in fails:
            if kind == "pipeline_crash":
                # audit-2: docs/C04.md reading rule 4 ("a crashed run is not a property failure") is withdrawn - a run that
                # aborts on legal input reports no model at all; it is a failure kind of its own, with a replay.  Only a
                # TIME-OUT of the harness (rc 124, machine load) stays a note (infrastructure, DESIGN 3.3 item 4).
                crashes["n"] += 1
                if detail.startswith("timeout:"):
                    ctx.notes.append("pipeline run timed out (infrastructure, not judged): %s" % detail[-300:])
                    continue
                ctx.fail(kind, {"level": "pipeline", "dataset": spec, "config": cfg, "class": ""},
                         "isoquant.py aborted on a legal input: %s" % detail[-500:])
                continue
            if kind == SPLIT.FINDING_1B_KIND and cls == SPLIT.FINDING_1B_CLASS and not SPLIT.finding_listed():
                # proposed known finding (the builder may not edit known_findings.json): counted until it is listed
                ctx.count("proposed_finding:%s" % SPLIT.FINDING_1B_ID)
                ctx.extra.setdefault("proposed_finding_example:" + SPLIT.FINDING_1B_ID, {"dataset": spec, "config": cfg, "detail": detail})
                continue
            if kind == SPLIT.LOST_KIND and cls == SPLIT.APA_CLASS and not SPLIT.apa_finding_listed():
                # round c04rep2: proposed known finding (the builder may not edit known_findings.json): counted until it is listed
                ctx.count("proposed_finding:%s" % SPLIT.APA_ID)
                ctx.extra.setdefault("proposed_finding_example:" + SPLIT.APA_ID, {"dataset": spec, "config": cfg, "detail": detail})
                continue
            ctx.fail(kind, {"level": "pipeline", "dataset": spec, "config": cfg, "class": cls}, detail)
    # fixed witnesses first: the repaired defect (regression) and the listed finding
    for name, cfg in [("overlap_substitution", {"genedb": False}), ("overlap_substitution", {"genedb": True}),
                      ("monointron_apa", {"genedb": False}), ("multiexon_apa", {"genedb": True}),
                      ("noncanonical_all", {"genedb": False, "report_canonical": "all"})]:
        if crashes["n"] >= 2:
            break
        spec = {"kind": "witness", "name": name}
        fails, stats = run_pipeline_case(spec, cfg)
        record(spec, cfg, fails, stats)
        if name == "noncanonical_all":
            ctx.extra["level_all_dot_strand_models"] = stats.get("dot_strand", 0)
    for k in range(nrandom):
        if crashes["n"] >= 2:
            ctx.notes.append("two pipeline runs crashed or timed out; remaining pipeline runs skipped")
            break
        dt, strat = PIPE_STRATEGIES[(ctx.seed + k) % len(PIPE_STRATEGIES)]
        cfg = {"data_type": dt, "strategy": strat, "genedb": ctx.rng.random() < 0.6}
        # audit-2: every `--report_canonical` level in turn (was: auto 15 %, only_canonical 10 %, `all` in one witness only);
        # the rotation is co-prime with the strategy rotation (10 strategies x 4 levels + default)
        lvl = REPORT_LEVELS[(ctx.seed // 7 + k) % len(REPORT_LEVELS)]
        if lvl:
            cfg["report_canonical"] = lvl
        ctx.rng.random()
        if ctx.rng.random() < 0.3:
            cfg["novel_unspliced"] = True
        spec = {"kind": "random", "seed": ctx.rng.randrange(10 ** 9),
                "args": {"n_chroms": 2, "genes_per_chrom": ctx.rng.choice([3, 4, 5]), "annotation": True,
                         "dup_polya": ctx.rng.random() < 0.3}}
        fails, stats = run_pipeline_case(spec, cfg)
        record(spec, cfg, fails, stats)
    # audit-2: gene layouts (antisense pair with a novel isoform using an intron annotated only on the other strand, reference
    # twins, nested gene, locus read on both BAM strands, secondary alignments as support, locus ending at the last base,
    # non-canonical locus) x options outside the model-construction group; +- annotation, every report level in turn
    nlay = 4 if ctx.tier == "quick" else 44
    for k in range(nlay):
        if crashes["n"] >= 2:
            break
        name, extra = GN.LAYOUT_OPTION_SETS[(ctx.seed + k) % len(GN.LAYOUT_OPTION_SETS)]
        dt, strat = PIPE_STRATEGIES[(ctx.seed // 3 + 3 * k) % len(PIPE_STRATEGIES)]
        cfg = {"data_type": dt, "strategy": strat, "genedb": k % 3 != 1, "extra": extra}
        lvl = REPORT_LEVELS[(ctx.seed // 5 + k) % len(REPORT_LEVELS)]
        if lvl:
            cfg["report_canonical"] = lvl
        spec = {"kind": "layout", "seed": ctx.rng.randrange(10 ** 9)}
        fails, stats = run_pipeline_case(spec, cfg)
        ctx.count("pipeline_layout_options:" + name)
        record(spec, cfg, fails, stats)
    # growth c04split: loci whose read cluster is cut into sub-regions (alignments bridging the cut reach two constructors)
    for spec, cfg in SPLIT.pipeline_cases(ctx):
        if crashes["n"] >= 2:
            break
        fails, stats = run_pipeline_case(spec, cfg)
        SPLIT.note_pipeline_case(ctx, spec, cfg, fails, stats)
        record(spec, cfg, fails, stats)
    ctx.extra["pipeline_totals"] = dict(stats_total)
    if stats_total.get("novel_spliced", 0) > 0:
        ctx.mark_nontrivial("pipeline:novel_spliced_models_checked")


INPROC = {"join_transcripts": oracle_joiner_case, "monoexon": oracle_monoexon_case, "graph_run": oracle_graph_case, "construct": oracle_graph_case, "cluster": oracle_graph_case,
          "graph_ops": oracle_graph_ops_case, "construct_fl": oracle_fl_case, "store_run": oracle_store_case,
          "simplify_run": oracle_graph_case, "graph_full": oracle_graph_case}


def oracle(ctx, disagreements, broken):
    n = 0
    # 1. the disagreeing inputs first
    for d in disagreements:
        fn = INPROC.get(d["op"])
        if fn is None:
            continue
        try:
            r = fn(d["input"])
        except Exception as ex:          # an input the implementation cannot even be driven with
            ctx.notes.append("oracle could not evaluate a disagreeing %s input: %s" % (d["op"], type(ex).__name__))
            continue
        n += 1
        if r and r[0] != "hang":
            ctx.fail(r[0], {"level": "inproc", "op": d["op"], "args": d["input"], "class": ""}, r[1])
    # 2. tables of the real code
    r = oracle_tables()
    if r:
        ctx.fail(r[0], {"level": "tables", "args": r[2], "class": ""}, r[1])
    # 3. the normal in-process generators (independent of the driver)
    q = ctx.tier == "quick" and not broken
    hangs = 0
    for locus in gen_loci(ctx, 80 if q else 600):
        kw = graph_case_kw(ctx.rng, locus)
        r = oracle_graph_case(kw)
        n += 1
        if r and r[0] == "hang":
            # a run that never ends reports nothing: not a failure of the statement, but the tie is broken (noted)
            hangs += 1
            ctx.notes.append("oracle: " + r[1])
            if hangs >= 3:
                break
            continue
        if r:
            ctx.fail(r[0], {"level": "inproc", "op": "graph_run", "args": kw, "class": ""}, r[1])
    # tiny loci of the simplify() universe (bulges, singleton dead ends, isolated introns), sampled
    import itertools
    vecs = list(itertools.product(SU_COUNTS, repeat=len(SU_TYPES)))
    for vec in ctx.rng.sample(vecs, 120 if q else 1200):
        reads = []
        for t, c in zip(SU_TYPES, vec):
            for k in range(c):
                reads.append(su_read("u%d" % len(reads), t))
        if not reads:
            continue
        pj = ctx.rng.choice(SU_PARAMS)
        kw, _, _ = simplify_case_from_reads(reads, pj, known=[SU_B0] if pj["preset"] == "all" else ())
        r = oracle_graph_case(kw)
        n += 1
        if r and r[0] != "hang":
            ctx.fail(r[0], {"level": "inproc", "op": "simplify_run", "args": kw, "class": ""}, r[1])
    for _ in range(300 if q else 3000):
        kw = gen_fl_case(ctx.rng)
        r = oracle_fl_case(kw)
        n += 1
        if r:
            ctx.fail(r[0], {"level": "inproc", "op": "construct_fl", "args": kw, "class": ""}, r[1])
            if len(ctx.failures) > 20:
                break
    for _ in range(200 if q else 2000):
        kw = gen_store_case(ctx.rng)
        align_covs(kw)
        r = oracle_store_case(kw)
        n += 1
        if r:
            ctx.fail(r[0], {"level": "inproc", "op": "store_run", "args": kw, "class": ""}, r[1])
            if len(ctx.failures) > 20:
                break
    for _ in range(300 if q else 3000):
        kw = gen_joiner_case(ctx.rng)
        r = oracle_joiner_case(kw)
        n += 1
        if r:
            ctx.fail(r[0], {"level": "inproc", "op": "join_transcripts", "args": kw, "class": ""}, r[1])
            if len(ctx.failures) > 20:
                break
    for _ in range(150 if q else 1500):
        kw = gen_monoexon_case(ctx.rng)
        r = oracle_monoexon_case(kw)
        n += 1
        if r:
            ctx.fail(r[0], {"level": "inproc", "op": "monoexon", "args": kw, "class": ""}, r[1])
            if len(ctx.failures) > 20:
                break
    ctx.extra["oracle_inproc_cases"] = n
    # growth: the clauses on the output of the REAL filter_transcripts (props/c04sim.py)
    SIM.oracle(ctx, disagreements, broken)
    # growth: the per-chromosome clause on real sequences of constructors (props/c04split.py)
    SPLIT.oracle(ctx, disagreements, broken)
    # 4. the real pipeline
    pipeline_oracle(ctx, 6 if ctx.tier == "quick" else 80)


def matches_finding(failure, entry):
    return failure["kind"] == entry.get("kind") and failure["input"].get("class", "") == entry.get("class", "")


def replay(ctx, failure):
    inp = failure["input"]
    if inp.get("level") == "pipeline":
        fails, _ = run_pipeline_case(inp["dataset"], inp["config"])
        return any(k == failure["kind"] and c == inp.get("class", "") for k, c, _ in fails)
    if inp.get("level") == "tables":
        return oracle_tables() is not None
    if inp.get("op") == "chr_run":
        r = SPLIT.replay_case(inp["args"])
        return bool(r) and r[0] == failure["kind"]
    if inp.get("op") in ("sim_filter", "detect_similar"):
        r = SIM.replay_case(inp["args"])
        return bool(r) and r[0] == failure["kind"] and r[1] == inp.get("class", "")
    fn = INPROC.get(inp.get("op"))
    if fn is None:
        return False
    r = fn(inp["args"])
    return r is not None and r[0] == failure["kind"]
