"""C11 extension — polyA / polyT exon trimming (Model/PolyA.lean, C16) and the tail finder (Model/PolyAFinder.lean).
Theorems: lean/IsoVerif/Props/C11PolyA16.lean, C11Finder.lean.  Real functions: src/polya_verification.py
PolyAFixer.count_polya_exons / count_polyt_exons / correct_read_info, shift_polya / shift_polyt,
src/alignment_info.py AlignmentInfo.add_polya_info, src/polya_finder.py PolyAFinder.detect_polya."""
import vlib
from gen import c11gen as T
from gen import cigars as G
from props.c11ext import Rel

PROPS = ["IsoVerif/Props/C11PolyA16.lean", "IsoVerif/Props/C11Finder.lean"]
TARGETS = ["IsoVerif.Props.C11PolyA16", "IsoVerif.Props.C11Finder"]


def _c16():
    from props import C16 as M
    return M


def _tl(l):
    return [tuple(x) for x in l]


# ---- transformations (twins of Model/C11SymPolyA.lean; compared through C11.T.* each run)

def shift_pos_by(orig, k, p):
    return p if orig == -1 else p + k


def mirror_pos_by(orig, L, p):
    return p if orig == -1 else L + 1 - p


def shift_info(k, i):
    return [T.shift_pos(k, p) for p in i]


def mirror_info(L, i):
    ea, et, ia, it = i
    return [T.mirror_pos(L, et), T.mirror_pos(L, ea), T.mirror_pos(L, it), T.mirror_pos(L, ia)]


def shift_ainfo_by(orig, k, st):
    return {"exons": T.shift_l(k, _tl(st["exons"])), "read_blocks": st["read_blocks"], "cigar_blocks": st["cigar_blocks"],
            "info": [shift_pos_by(o, k, p) for o, p in zip(orig, st["info"])], "changed": st["changed"],
            "read_start": st["read_start"] + k, "read_end": st["read_end"] + k}


def mirror_ainfo_by(orig, L, st):
    oea, oet, oia, oit = orig
    ea, et, ia, it = st["info"]
    return {"exons": T.mirror_l(L, _tl(st["exons"])), "read_blocks": list(reversed(st["read_blocks"])),
            "cigar_blocks": list(reversed(st["cigar_blocks"])),
            "info": [mirror_pos_by(oet, L, et), mirror_pos_by(oea, L, ea), mirror_pos_by(oit, L, it), mirror_pos_by(oia, L, ia)],
            "changed": st["changed"], "read_start": L + 1 - st["read_end"], "read_end": L + 1 - st["read_start"]}


def no_coll(k, p):
    return p == -1 or p + k != -1


def no_coll_m(L, p):
    return p == -1 or L + 1 - p != -1


def _m(op):
    return lambda kw: vlib.req("C16." + op, **kw)


def _i(op):
    return lambda kw: _c16().impl_call(op, kw)


def _cnt_tin_s(par, kw):
    return {"mf": kw["mf"], "exons": T.shift_l(par["k"], _tl(kw["exons"])), "pos": T.shift_pos(par["k"], kw["pos"])}


def _cnt_tin_m(par, kw):
    return {"mf": kw["mf"], "exons": T.mirror_l(par["L"], _tl(kw["exons"])), "pos": T.mirror_pos(par["L"], kw["pos"])}


def _sh_tin_s(par, kw):
    return {"exons": T.shift_l(par["k"], _tl(kw["exons"])), "k": kw["k"], "pos": T.shift_pos(par["k"], kw["pos"])}


def _sh_tin_m(par, kw):
    return {"exons": T.mirror_l(par["L"], _tl(kw["exons"])), "k": kw["k"], "pos": T.mirror_pos(par["L"], kw["pos"])}


COLLISION_WITNESS = {"mf": 40, "exons": [[100, 200], [300, 330]], "pos": 305}


def _dom_cnt_s(par, kw):
    if no_coll(par["k"], kw["pos"]):
        return True
    # `sentinel_collision_witness`
    return "witness" if vlib.canon(kw) == COLLISION_WITNESS and par["k"] == -306 else False


RELS = [
    Rel("S.count_polya_exons", "shift_equivariant_countPolyaExons", _m("count_polya_exons"), _i("count_polya_exons"),
        tin=_cnt_tin_s, tout=lambda par, kw, v: v, domain=_dom_cnt_s, nontrivial=lambda kw, v: v not in (0,) and not vlib.is_err(v)),
    Rel("S.count_polyt_exons", "shift_equivariant_countPolytExons", _m("count_polyt_exons"), _i("count_polyt_exons"),
        tin=_cnt_tin_s, tout=lambda par, kw, v: v, domain=lambda par, kw: no_coll(par["k"], kw["pos"]),
        nontrivial=lambda kw, v: v not in (0,) and not vlib.is_err(v)),
    Rel("M.count_polya_exons", "mirror_dual_countPolyaExons", _m("count_polya_exons"), _i("count_polya_exons"),
        model_t=_m("count_polyt_exons"), impl_t=_i("count_polyt_exons"),
        tin=_cnt_tin_m, tout=lambda par, kw, v: v, domain=lambda par, kw: no_coll_m(par["L"], kw["pos"]),
        nontrivial=lambda kw, v: v not in (0,) and not vlib.is_err(v)),
    Rel("M.count_polyt_exons", "mirror_dual_countPolytExons", _m("count_polyt_exons"), _i("count_polyt_exons"),
        model_t=_m("count_polya_exons"), impl_t=_i("count_polya_exons"),
        tin=_cnt_tin_m, tout=lambda par, kw, v: v, domain=lambda par, kw: no_coll_m(par["L"], kw["pos"]),
        nontrivial=lambda kw, v: v not in (0,) and not vlib.is_err(v)),
    Rel("S.shift_polya", "shift_equivariant_shiftPolya", _m("shift_polya"), _i("shift_polya"),
        tin=_sh_tin_s, tout=lambda par, kw, v: shift_pos_by(kw["pos"], par["k"], v),
        domain=lambda par, kw: no_coll(par["k"], kw["pos"]),
        nontrivial=lambda kw, v: not vlib.is_err(v) and v != kw["pos"]),
    Rel("S.shift_polyt", "shift_equivariant_shiftPolyt", _m("shift_polyt"), _i("shift_polyt"),
        tin=_sh_tin_s, tout=lambda par, kw, v: shift_pos_by(kw["pos"], par["k"], v),
        domain=lambda par, kw: no_coll(par["k"], kw["pos"]),
        nontrivial=lambda kw, v: not vlib.is_err(v) and v != kw["pos"]),
    Rel("M.shift_polya", "mirror_dual_shiftPolya", _m("shift_polya"), _i("shift_polya"),
        model_t=_m("shift_polyt"), impl_t=_i("shift_polyt"),
        tin=_sh_tin_m, tout=lambda par, kw, v: mirror_pos_by(kw["pos"], par["L"], v),
        domain=lambda par, kw: no_coll_m(par["L"], kw["pos"]),
        nontrivial=lambda kw, v: not vlib.is_err(v) and v != kw["pos"]),
    Rel("M.shift_polyt", "mirror_dual_shiftPolyt", _m("shift_polyt"), _i("shift_polyt"),
        model_t=_m("shift_polya"), impl_t=_i("shift_polya"),
        tin=_sh_tin_m, tout=lambda par, kw, v: mirror_pos_by(kw["pos"], par["L"], v),
        domain=lambda par, kw: no_coll_m(par["L"], kw["pos"]),
        nontrivial=lambda kw, v: not vlib.is_err(v) and v != kw["pos"]),
    Rel("S.correct_read_info", "shift_equivariant_correctReadInfo", _m("correct_read_info"), _i("correct_read_info"),
        tin=lambda par, kw: {"mf": kw["mf"], "exons": T.shift_l(par["k"], _tl(kw["exons"])), "info": shift_info(par["k"], kw["info"])},
        tout=lambda par, kw, v: v,
        domain=lambda par, kw: no_coll(par["k"], kw["info"][2]) and no_coll(par["k"], kw["info"][3]),
        nontrivial=lambda kw, v: not vlib.is_err(v) and v != [0, 0]),
    Rel("M.correct_read_info", "mirror_dual_correctReadInfo", _m("correct_read_info"), _i("correct_read_info"),
        tin=lambda par, kw: {"mf": kw["mf"], "exons": T.mirror_l(par["L"], _tl(kw["exons"])), "info": mirror_info(par["L"], kw["info"])},
        tout=lambda par, kw, v: [v[1], v[0]],
        domain=lambda par, kw: no_coll_m(par["L"], kw["info"][2]) and no_coll_m(par["L"], kw["info"][3]),
        nontrivial=lambda kw, v: not vlib.is_err(v) and v != [0, 0]),
    Rel("S.add_polya_info", "shift_equivariant_addPolyaInfo", _m("add_polya_info"), _i("add_polya_info"),
        tin=lambda par, kw: dict(kw, exons=T.shift_l(par["k"], _tl(kw["exons"])), info=shift_info(par["k"], kw["info"])),
        tout=lambda par, kw, v: shift_ainfo_by(kw["info"], par["k"], v),
        domain=lambda par, kw: all(no_coll(par["k"], p) for p in kw["info"]),
        nontrivial=lambda kw, v: not vlib.is_err(v) and v["changed"]),
    Rel("M.add_polya_info", "mirror_dual_addPolyaInfo", _m("add_polya_info"), _i("add_polya_info"),
        tin=lambda par, kw: dict(kw, exons=T.mirror_l(par["L"], _tl(kw["exons"])), rb=list(reversed(kw["rb"])),
                                 cb=list(reversed(kw["cb"])), info=mirror_info(par["L"], kw["info"])),
        tout=lambda par, kw, v: mirror_ainfo_by(kw["info"], par["L"], v),
        domain=lambda par, kw: all(no_coll_m(par["L"], p) for p in kw["info"]),
        nontrivial=lambda kw, v: not vlib.is_err(v) and v["changed"]),
]

def _dom_finder(par, kw):
    # `shift_equivariant_findPolyaTail_pos` / `_findPolytHead_pos`: far enough from the chromosome start that no found
    # position is −1 and the clamp `max(1, …)` of find_polyt_head is inactive (2 * window + 2 suffices)
    m = 2 * kw["w"] + 2
    return kw["s"] >= m and kw["s"] + par["k"] >= m and kw["s"] + par["k"] < 2 ** 29 - 10 ** 7


RELS.append(
    Rel("S.detect_polya", "shift_equivariant_findPolyaTail(_pos) / shift_equivariant_findPolytHead(_pos)",
        _m("detect_polya"), _i("detect_polya"),
        tin=lambda par, kw: dict(kw, s=kw["s"] + par["k"]),
        tout=lambda par, kw, v: [T.shift_pos(par["k"], p) for p in v],
        domain=_dom_finder,
        nontrivial=lambda kw, v: not vlib.is_err(v) and any(p != -1 for p in v)))

KS = [1, 255, 256, 1000, -7]

# `finder_mirror_minus_two_witness` (Props/C11Finder.lean) replayed on the real PolyAFinder
MINUS_TWO = {"read": {"w": 16, "num": 3, "den": 4, "s": 99, "cigar": [[0, 20], [4, 20]], "seq": "C" * 20 + "A" * 20},
             "mirrored": {"w": 16, "num": 3, "den": 4, "s": 881, "cigar": [[4, 20], [0, 20]], "seq": "T" * 20 + "G" * 20},
             "polya": 119, "polyt": 880, "L": 1000}


def _unit_cases(ctx):
    """(exons, info, mf): exhaustive small universe (sampled in quick) + random realistic exon lists (C16's generators)"""
    rng = ctx.rng
    quick = ctx.tier == "quick"
    U = 7
    lists = [l for l in G.all_sd_lists(U, 3) if l]
    pos = [-1] + list(range(0, U + 2))
    frac = 0.04 if quick else 0.25
    n = 0
    for l in lists:
        for ia in pos:
            for it in pos:
                if rng.random() < frac:
                    n += 1
                    yield (l, [rng.choice(pos), rng.choice(pos), ia, it], rng.choice([0, 2, 40]), U + 2)
    ctx.extra["xpolya_universe"] = {"max_coord": U, "max_exons": 3, "lists": len(lists), "sampled_cases": n}
    for _ in range(500 if quick else 5000):
        ex = G.rand_sd_exons(rng, rng.randint(1, 8))
        info = [G.rand_pos_near(rng, ex) for _ in range(4)]
        yield (ex, info, rng.choice([0, 6, 20, 40]), ex[-1][1] + rng.choice([0, 1, 50, 10 ** 6]))
    # unsorted / overlapping exon lists: the theorems hold for ALL lists
    for _ in range(100 if quick else 1000):
        ex = [tuple(sorted((rng.randint(0, 40), rng.randint(0, 40)))) for _ in range(rng.randint(1, 4))]
        yield (ex, [rng.randint(-1, 42) for _ in range(4)], rng.choice([0, 3, 40]), 50)


def cases(ctx):
    rng = ctx.rng
    out = []
    out.append(("S.count_polya_exons", {"k": -306}, dict(COLLISION_WITNESS)))
    for ex, info, mf, L in _unit_cases(ctx):
        ex = [list(x) for x in ex]
        k = rng.choice(KS)
        n = len(ex)
        rb = [[10 * i, 10 * i + 7] for i in range(n)]
        cb = [[2 * i, 2 * i] for i in range(n)]
        for kind, par in (("S", {"k": k}), ("M", {"L": L})):
            for p, fn in ((info[2], "count_polya_exons"), (info[3], "count_polyt_exons")):
                out.append((kind + "." + fn, par, {"mf": mf, "exons": ex, "pos": p}))
            cnt = rng.randint(-1, n + 1)
            out.append((kind + ".shift_polya", par, {"exons": ex, "k": cnt, "pos": info[2]}))
            out.append((kind + ".shift_polyt", par, {"exons": ex, "k": cnt, "pos": info[3]}))
            out.append((kind + ".correct_read_info", par, {"mf": mf, "exons": ex, "info": info}))
            out.append((kind + ".add_polya_info", par, {"mf": mf, "exons": ex, "rb": rb, "cb": cb, "info": info}))
    for _ in range(150 if ctx.tier == "quick" else 2000):
        seq, cigar = G.tailed_read(rng) if rng.random() < 0.7 else G.block_read(rng)
        out.append(("S.detect_polya", {"k": rng.choice([1, 255, 256, 1000, 4099])},
                    {"w": 16, "num": 3, "den": 4, "s": rng.choice([40, 1000, rng.randint(40, 10 ** 6)]),
                     "cigar": [list(x) for x in cigar], "seq": seq}))
    return out


def transformation_checks(ctx):
    rng = ctx.rng
    # the pinned -2 offset of the finder pair: model (driver) and real code give the values of the witness theorem
    mo = ctx.driver.run([vlib.req("C16.detect_polya", **MINUS_TWO["read"]), vlib.req("C16.detect_polya", **MINUS_TWO["mirrored"])])
    io = [_c16().impl_call("detect_polya", MINUS_TWO["read"]), _c16().impl_call("detect_polya", MINUS_TWO["mirrored"])]
    ctx.evaluations += 2
    ctx.traces_validated += 2
    got = {"model": [mo[0][0], mo[1][1]], "impl": [io[0][0], io[1][1]]}
    ctx.extra["finder_minus_two_witness_on_real_code"] = got
    if got["model"] != [MINUS_TWO["polya"], MINUS_TWO["polyt"]] or got["impl"] != got["model"]:
        ctx.disagree("finder_minus_two_witness", MINUS_TWO, got["model"], got["impl"])
    lines, exp = [], []
    for _ in range(40):
        info = [rng.choice([-1, rng.randint(0, 500)]) for _ in range(4)]
        orig = [rng.choice([-1, rng.randint(0, 500)]) for _ in range(4)]
        k, L = rng.choice(KS), rng.randint(500, 900)
        ex = [list(x) for x in G.rand_sd_exons(rng, rng.randint(1, 4), start=10, maxlen=30, maxgap=50)]
        st = {"exons": ex, "read_blocks": [[i, i + 3] for i in range(len(ex))], "cigar_blocks": [[i, i] for i in range(len(ex))],
              "info": info, "changed": rng.random() < 0.5, "read_start": ex[0][0], "read_end": ex[-1][1]}
        lines += [vlib.req("C11.T.shift_info", k=k, info=info), vlib.req("C11.T.mirror_info", L=L, info=info),
                  vlib.req("C11.T.shift_ainfo", orig=orig, k=k, st=st), vlib.req("C11.T.mirror_ainfo", orig=orig, L=L, st=st),
                  vlib.req("C11.T.shift_pos_by", orig=orig[0], k=k, p=info[0]),
                  vlib.req("C11.T.mirror_pos_by", orig=orig[0], L=L, p=info[0])]
        exp += [shift_info(k, info), mirror_info(L, info), shift_ainfo_by(orig, k, st), mirror_ainfo_by(orig, L, st),
                shift_pos_by(orig[0], k, info[0]), mirror_pos_by(orig[0], L, info[0])]
    outs = ctx.driver.run(lines)
    for ln, mo, io in zip(lines, outs, exp):
        ctx.evaluations += 1
        op = ln.split(" ", 1)[0]
        ctx.count("op:" + op[4:])
        ctx.traces_validated += 1
        if mo != vlib.canon(io):
            ctx.disagree(op[4:], ln.split(" ", 1)[1], mo, vlib.canon(io))
