"""C09 — grouped tables partition the ungrouped ones; matrix and linear formats agree.

correspondence: the Lean model (IsoVerif/Model/C09.lean through the driver) against
  * Python's str.split / str.strip / str.isspace (what the groupers are built on),
  * the real groupers of src/read_groups.py on fake alignment objects (sequence of calls, final read_groups set),
  * create_read_grouper, load_table, split_read_group_table (on real BAM files written with pysam),
  * the real ExonCounter / IntronCounter (numeric ids, dumped lines),
  * the real AssignedFeatureCounter (state before dump, dumped matrix / linear files) re-executed in subprocesses under
    several PYTHONHASHSEED values, with the iteration order of the `read_groups` set that the subprocess really saw.
oracle: the property itself on the real code, without the model
  * groupers: returned value is a string equal to the documented group, and it is a member of read_groups;
  * counters: no exception when every group is in the universe; every cell equals the sum of the increments an
    ungrouped twin counter makes for the calls of that group; rows sum to the twin's value; matrix and linear files
    both equal the in-memory cells under the group *names*; outputs identical under every hash seed;
  * file_name grouping through the real BAMOnlineMerger + FileNameGrouper on 2-4 real BAM files with partly disjoint
    coverage: the group of every alignment is the label of the file that stores the read;
  * the real pipeline on synthetic data: {tag, read_id, file, file_name, implicit file_name with >= 2 BAMs whose loci /
    chromosomes are partly missing from earlier-listed files} x {matrix, linear, both} with reads that
    have no group, groups missing from a chromosome, 1-2 threads, two hash seeds; table mode with read ids that start
    with '#', groups that end with a blank and the empty group; --yaml with integer labels; one run with blank-padded
    BAM tag values killed after a `_collected` lock and resumed (check_resume_run);
  * audit-2 B (props/C09_options.py): `file:FILE:READ_COL:GROUP_COL:DELIM` in every documented spelling (fields omitted or
    left empty, `:` as delimiter) through the real prepare_read_groups / create_read_grouper on BAM files whose headers differ
    and a reference sequence that no header lists; `read_id:DELIM` with delimiters that are / contain a colon; pipeline modes
    `file3` (file:T:2), `filesub` (FASTA sequence absent from the BAM header), `read_id::`; the renderings written are those
    --counts_format asks for, for gene, transcript and transcript-model tables; columns = documented groups also for the
    transcript-model tables; a run restarted from its save files (--read_assignments): the universe of the `_info` file.
"""
import json
import os
import shutil
import subprocess
import tempfile
from concurrent.futures import ThreadPoolExecutor

import vlib
from gen import groups as G
from props import C09_growth as GR
from props import C09_options as OP

ID = "C09"
PROPS = ["IsoVerif/Props/C09.lean", "IsoVerif/Props/C09Groupers.lean", "IsoVerif/Props/C09Tables.lean",
         "IsoVerif/Props/C09Profiles.lean", "IsoVerif/Props/C09Labels.lean", "IsoVerif/Props/C09Tpm.lean", "IsoVerif/Props/C09TablesChrom.lean",
         "IsoVerif/Props/C09Files.lean", "IsoVerif/Props/C09Options.lean", "IsoVerif/Props/C09Format.lean"]
TARGETS = ["IsoVerif.Props.C09", "IsoVerif.Props.C09Groupers", "IsoVerif.Props.C09Tables", "IsoVerif.Props.C09Profiles",
           "IsoVerif.Props.C09Labels", "IsoVerif.Props.C09Tpm", "IsoVerif.Props.C09TablesChrom", "IsoVerif.Props.C09Files", "IsoVerif.Props.C09Options", "IsoVerif.Props.C09Format"]
GEN_DEPS = ["Enums", "EventClasses", "Strategies", "ReadGroups", "CounterTables"]
LEVEL = "proof"
RULE = ("split/strip: exhaustive strings over {a,_,:} up to length 5 x 6 delimiters + random unicode; groupers: seeded call "
        "sequences per mode (missing tags / delimiters / table rows / file names, integer tags); counters: exhaustive small "
        "universe (<=2 groups, <=2 features, call streams of length <=2) + seeded random streams with 1..300 groups, each "
        "re-executed under several PYTHONHASHSEED values; exon/intron counters: seeded read streams over genes sharing feature keys; non-trivial = model returns a non-error value with at least one "
        "non-zero cell / a non-NA group and model == implementation; distinct by (op, input)")
TRUSTED = ["Gen/ReadGroups.lean (NA label, default tag, option keywords) is extracted from src/read_groups.py on every run",
           "Python's str.split / str.strip / sorted on str are modelled (pySplit, pyStrip, sortStr) and cross-checked each run",
           "'%.2f' float formatting and float addition of 1.0 and 1.0/k: the model is exact (Rat); files are compared to the "
           "exact value within 0.005 + 1e-9, in-memory floats within 1e-9",
           "pysam get_tag raises KeyError for a missing tag; AlignmentFile iteration order = file order (split_read_group_table)",
           "the dump / re-read statements of the <save>_<chr>_groups file are cut out of collect_reads_in_parallel by their "
           "syntax tree (C09_growth._groups_file_code) and executed on a stand-in grouper; a kill->resume pipeline run "
           "(harness/c07_wrap.py) exercises them in place"]
ASSUMPTIONS = ["group names, read ids and feature ids contain no tab / newline (TSV structure); tag values are str or int",
               "the stub assignment extractor of the correspondence returns the case's features / type / confirms flag "
               "(the real extractors are the subject of C02)",
               "float sums compared to exact rationals within 1e-9 (in memory) and 0.005+1e-9 (printed with %.2f)",
               "the info-file round trip of the group universe (write_string/read_string) is the subject of C15",
               "YAML labels: strings and integers are modelled (TagVal); any other scalar is stored as Python's str(value)",
               "the model of the internal text files (per-chromosome read-group tables, <save>_<chr>_groups) describes the "
               "code with the candidate patches fix_D1 / fix_D2 / fix_D3 applied: on a tree without them the check reports "
               "VIOLATION with replays of the three defects (kinds wrong_group/split_table, file_label_not_string, "
               "groups_file_roundtrip, pipeline matrix_header / group_of_read / abort)",
               "the model of the --read_group option string (Model/C09Options.lean, parseReadGroupL), of the tables of unlisted "
               "reference sequences and the generated table of grouped counters describe the code with the candidate patches "
               "fix_file_option_fields / fix_group_table_missing_contig / fix_read_id_colon_delimiter / "
               "fix_counts_format_transcript_model (builder c09x): on a tree without them the check reports VIOLATION (kinds "
               "abort + wrong_group / file_option + read_id_option, counts_format_ignored, pipeline matrix_header / abort)",
               "column fields of the option string are ASCII in the correspondence (CPython's int() also accepts other Unicode "
               "decimal digits: not modelled); FILE contains no colon; negative column numbers are not generated by the oracle",
               "read_id: with the empty delimiter is an invalid configuration (ValueError), not an ungroupable read "
               "(proposed DESIGN §6 sentence, docs/C09.md §10.6)",
               "files are opened with newline='\\n' on both ends (no translation): the text written is the text read; BAM "
               "read names contain no tab / newline"]

HELPER = os.path.join(vlib.HERE, "gen", "groups_helper.py")
EPS = 1e-9
PRINT_TOL = 0.005 + 1e-9


def req(op, **kw):
    return "C09." + op + " " + json.dumps(kw, separators=(",", ":"))


def frac(p):
    return p[0] / p[1]


# ----------------------------------------------------------------------------------------------------------------
# real code adapters

def _impl():
    vlib.repo_on_path()
    import logging
    logging.getLogger("IsoQuant").disabled = True
    import src.read_groups as RG
    return RG


class FakeAln:
    def __init__(self, a):
        self.query_name = a["name"]
        self._tags = {t: v for t, v in reversed(a["tags"])}   # first occurrence wins, as in the model's lookup

    def get_tag(self, t):
        return self._tags[t]


class _NS:
    def __init__(self, **kw):
        self.__dict__.update(kw)


def make_grouper(spec, tmpdir):
    """real grouper object for a model grouper spec"""
    RG = _impl()
    k = spec["kind"]
    if k == "default":
        return RG.DefaultReadGrouper()
    if k == "tag":
        return RG.AlignmentTagReadGrouper(spec["tag"])
    if k == "read_id":
        return RG.ReadIdSplitReadGrouper(spec["delim"])
    if k == "table_lines":
        p = os.path.join(tmpdir, "table.tsv")
        with open(p, "w", newline="\n") as f:
            f.write("".join(l + "\n" for l in spec["lines"]))
        return RG.ReadTableGrouper(p, spec["rc"], spec["gc"], spec["delim"])
    if k == "file_name":
        sample = _NS(readable_names_dict=dict(spec["names"]), file_list=[])
        g = RG.FileNameGrouper(_NS(input_data=_NS(samples=[])), sample)
        return g
    raise RuntimeError(k)


def run_real_grouper(spec, alns, tmpdir):
    try:
        g = make_grouper(spec, tmpdir)
        rets = []
        for a in alns:
            rets.append(g.get_group_id(FakeAln(a), a["file"]))
        return {"rets": rets, "groups": sorted(g.read_groups, key=lambda x: (str(type(x)), x))}, g
    except (ValueError, KeyError, IndexError, TypeError) as ex:
        return {"error": "error", "exc": type(ex).__name__}, None


class _FakeFeature:
    """FeatureInfo stand-in: the row key used by the counter (id, or (chr, start, end, strand)) is the model's feature id"""

    def __init__(self, fid):
        self.id = fid
        self.chr_id, self.start, self.end, self.strand = fid, 0, 0, "+"

    def to_str(self):
        return self.id

    def merge(self, other):
        # ProfileFeatureCounter (fix a72c642) joins the descriptions of one row; a stand-in has a single description
        return self


class _FakePRead:
    def __init__(self, r):
        self.exon_gene_profile = list(r["profile"])
        self.intron_gene_profile = list(r["profile"])
        fm = [_FakeFeature(f) for f in r["fids"]]
        self.gene_info = _NS(exon_property_map=fm, intron_property_map=fm)
        self.read_group = r["group"]


def run_real_profile_counter(case, tmpdir, which="exon"):
    """real ExonCounter / IntronCounter: {ids, lines} or an error"""
    vlib.repo_on_path()
    import src.long_read_counter as LC
    cls = LC.ExonCounter if which == "exon" else LC.IntronCounter
    prefix = os.path.join(tmpdir, "prof")
    try:
        c = cls(prefix, ignore_read_groups=case["ignore"])
        for r in case["reads"]:
            c.add_read_info(_FakePRead(r) if r["valid"] else None)
        c.dump()
        with open(prefix + "_counts.tsv") as f:
            lines = f.read().split("\n")[1:]
        res = []
        for l in lines:
            if l:
                p = l.split("\t")
                res.append([p[0], p[1], int(p[2]), int(p[3])])
        return {"ids": [[k, v] for k, v in c.group_numeric_ids.items()], "lines": res}
    except (IndexError, KeyError, TypeError) as ex:
        return {"error": "error", "exc": type(ex).__name__}


def profile_cases(ctx):
    rng = ctx.rng
    n = 60 if ctx.tier == "quick" else 600
    cases = [G.profile_case(rng, rng.randint(1, 6), rng.randint(1, 5), rng.randint(0, 30)) for _ in range(n)]
    cases += [G.profile_case(rng, rng.randint(1, 3), rng.randint(1, 3), rng.randint(1, 8), malformed=True) for _ in range(n // 6)]
    for c in cases[::5]:
        c["ignore"] = True
    return cases


def check_profile_case(case, tmpdir):
    """the property on the real ExonCounter: list of (kind, detail)"""
    res = []
    g = run_real_profile_counter(case, tmpdir)
    u = run_real_profile_counter(dict(case, ignore=True), tmpdir)
    if "error" in u:
        return res                         # the ungrouped counter itself raises: malformed read, out of scope
    if "error" in g:
        return [("abort", "grouped exon counter raised %s, the ungrouped one did not" % g.get("exc"))]
    want = {}
    for r in case["reads"]:
        if not r["valid"]:
            continue
        grp = "NA" if case["ignore"] else r["group"]
        for v, f in zip(r["profile"], r["fids"]):
            if v in (1, -1):
                a = want.setdefault((f, grp), [0, 0])
                a[0 if v == 1 else 1] += 1
    got = {}
    for f, grp, i, e in g["lines"]:
        if (f, grp) in got:
            res.append(("linear_duplicate", "two lines for %s" % ((f, grp),)))
        got[(f, grp)] = [i, e]
    if got != want:
        k = sorted(set(map(str, got.items())) ^ set(map(str, want.items())))[0]
        res.append(("group_of_read", "exon table differs from the reads of each group at %s" % k))
    tot = {}
    for (f, grp), (i, e) in got.items():
        a = tot.setdefault(f, [0, 0])
        a[0] += i
        a[1] += e
    ung = {f: [i, e] for f, _, i, e in u["lines"]}
    if tot != ung:
        res.append(("partition", "exon groups sum to %s, ungrouped %s" % (sorted(tot.items())[:4], sorted(ung.items())[:4])))
    return res


def merger_case(rng):
    """several BAM files of one experiment with partly disjoint coverage (description only; written by check_merger_case)"""
    nfiles = rng.choice([2, 3, 3, 4])
    chroms = ["chr1", "chr2"]
    loci = [(c, 200 + 1500 * k) for c in chroms for k in range(rng.randint(2, 4))]
    files = [[] for _ in range(nfiles)]
    n = 0
    for li, (c, pos) in enumerate(loci):
        sub = [i for i in range(nfiles) if rng.random() < 0.55]
        if li % 2 == 0:
            sub = [i for i in sub if i != 0] or [nfiles - 1]
        sub = sub or [rng.randrange(nfiles)]
        for i in sub:
            for _ in range(rng.randint(1, 3)):
                files[i].append(["f%d_q%d" % (i, n), c, pos + rng.randint(0, 300), rng.choice([80, 150, 400])])
                n += 1
    for i in range(nfiles):
        if not files[i]:
            files[i].append(["f%d_q%d" % (i, n), "chr1", 5000 + 10 * i, 100])
            n += 1
    regions = [[c, 0, 7000] for c in chroms] + [[c, max(0, pos - 50), pos + 800] for c, pos in loci]
    return {"files": files, "regions": regions, "labels": rng.random() < 0.5}


def check_merger_case(case, tmpdir):
    """file_name grouping through the real BAMOnlineMerger + FileNameGrouper on real BAM files: the group of every
    alignment handed out by the merger must be the label of the file the read is stored in"""
    import pysam
    from gen import synth
    vlib.repo_on_path()
    import src.alignment_processor as AP
    RG = _impl()
    d = tempfile.mkdtemp(prefix="merger_", dir=tmpdir)
    res = []
    try:
        paths, home = [], {}
        for i, reads in enumerate(case["files"]):
            ds = synth.Dataset(seed=i)
            ds.add_chrom("chr1", 8000)
            ds.add_chrom("chr2", 8000)
            for name, chrom, pos, ln in reads:
                ds.add_read(name, chrom, pos, "%dM" % ln)
                home[name] = i
            paths.append(ds.write(d, bam_name="in%d.bam" % i, write_ref=False)["bam"])
        label = {p: ("L%d" % i if case["labels"] else os.path.splitext(os.path.basename(p))[0]) for i, p in enumerate(paths)}
        sample = _NS(readable_names_dict=dict(label) if case["labels"] else {}, file_list=[[p] for p in paths])
        grouper = RG.FileNameGrouper(_NS(input_data=_NS(samples=[sample])), sample)
        bam_pairs = [(pysam.AlignmentFile(p, "rb", require_index=True), p) for p in paths]
        try:
            merger = None
            for chrom, a, b in case["regions"]:
                if merger is None:
                    merger = AP.BAMOnlineMerger(bam_pairs, chrom, a, b)
                else:
                    merger.reset_region(chrom, a, b)
                for bam_index, aln in merger.get():
                    got = grouper.get_group_id(aln, merger.bam_pairs[bam_index][1])
                    want = label[paths[home[aln.query_name]]]
                    if got != want:
                        res.append(("wrong_group", "read %s of file %s (%s:%d-%d) is grouped under %r, its file is labelled %r"
                                    % (aln.query_name, os.path.basename(paths[home[aln.query_name]]), chrom, a, b, got, want),
                                    [chrom, a, b]))
                        break
                if res:
                    break
        finally:
            for bp in bam_pairs:
                bp[0].close()
    finally:
        shutil.rmtree(d, ignore_errors=True)
    return res


def _shrink_profile_case(case, kind, tmpdir):
    """greedy removal of reads while the same failure class shows"""
    cur = case
    changed = True
    while changed and len(cur["reads"]) > 1:
        changed = False
        for i in range(len(cur["reads"])):
            cand = dict(cur, reads=cur["reads"][:i] + cur["reads"][i + 1:])
            if any(k == kind for k, _ in check_profile_case(cand, tmpdir)):
                cur, changed = cand, True
                break
    return cur


def run_helper(cases, hashseed, timeout=1500):
    """real counters in a subprocess under PYTHONHASHSEED=hashseed"""
    if not cases:
        return []
    env = dict(os.environ, PYTHONHASHSEED=str(hashseed), VERIF_REPO=vlib.REPO)
    data = "".join(json.dumps(c) + "\n" for c in cases)
    p = subprocess.run([vlib.PY, HELPER], input=data, capture_output=True, text=True, env=env, timeout=timeout)
    outs = [l for l in p.stdout.split("\n") if l.startswith("{")]
    if len(outs) != len(cases):
        raise RuntimeError("helper returned %d lines for %d cases: %s" % (len(outs), len(cases), p.stderr[-800:]))
    return [json.loads(o) for o in outs]


# ----------------------------------------------------------------------------------------------------------------
# generators of cases (shared by correspondence and oracle)

def counter_cases(ctx):
    rng = ctx.rng
    quick = ctx.tier == "quick"
    cases = list(G.small_counter_universe())
    ctx.extra["small_counter_universe"] = len(cases)
    if quick:
        cases = rng.sample(cases, min(len(cases), 700))
    n_rand = 220 if quick else 6000
    for i in range(n_rand):
        r = rng.random()
        ng = rng.choice([1, 2, 3, 5, 8, 13]) if r < 0.8 else rng.randint(20, 300)
        nf = rng.randint(1, 6)
        cases.append(G.counter_case(rng, ng, nf, rng.randint(0, 40 if ng < 20 else 400)))
    for i in range(40 if quick else 300):    # malformed stream: groups outside the universe, empty feature sets
        cases.append(G.counter_case(rng, rng.randint(1, 4), rng.randint(1, 3), rng.randint(1, 10), malformed=True))
    for i in range(10 if quick else 60):     # no read_groups at all / empty set: the counter ignores groups
        c = G.counter_case(rng, rng.randint(1, 3), rng.randint(1, 3), rng.randint(0, 12))
        c["rg"] = None if rng.random() < 0.5 else []
        cases.append(c)
    return cases


def hash_seeds(ctx):
    base = [0, 1, 2] if ctx.tier == "quick" else [0, 1, 2, 3, 4, 5, 6, 7]
    return base + [1000 + ctx.seed % 100000]


def grouper_cases(ctx):
    """[(spec, alns)]"""
    rng = ctx.rng
    quick = ctx.tier == "quick"
    res = []
    n = 60 if quick else 600
    for _ in range(n):
        groups = G.group_names(rng, rng.randint(1, 6))
        groups = [g for g in groups if g] or ["g"]
        mode = rng.choice(["tag", "read_id", "table", "file_name", "default"])
        if mode == "tag":
            tag = rng.choice(["CB", "RG", "HP"])
            spec = {"kind": "tag", "tag": tag}
            alns = [G.alignment(rng, "tag", groups, tag=tag) for _ in range(rng.randint(1, 25))]
        elif mode == "read_id":
            delim = rng.choice(["_", "=", "-", "__", "_a", ".", "ab", ":", "::", "a:"])
            spec = {"kind": "read_id", "delim": delim}
            alns = [G.alignment(rng, "read_id", groups, delim=delim) for _ in range(rng.randint(1, 25))]
        elif mode == "table":
            names = ["read%d" % i for i in range(rng.randint(1, 15))]
            delim = rng.choice(["\t", "\t", ",", ";;"])
            rc, gc = rng.choice([(0, 1), (0, 1), (1, 0), (2, 1), (0, 3), (0, 0)])
            glist = [g for g in groups if delim not in g] or ["g"]
            spec = {"kind": "table_lines", "lines": G.table_lines(rng, names, glist, delim, rc, gc), "rc": rc, "gc": gc,
                    "delim": delim}
            alns = [G.alignment(rng, "table", groups, names=names) for _ in range(rng.randint(1, 25))]
        elif mode == "file_name":
            files = ["/d/%s.bam" % x for x in ("A", "B", "C.x")][:rng.randint(1, 3)]
            names = [[f, rng.choice([os.path.basename(f)[:-4], "L%d" % i])] for i, f in enumerate(files)]
            spec = {"kind": "file_name", "names": names}
            alns = [G.alignment(rng, "file_name", groups, files=files) for _ in range(rng.randint(1, 25))]
        else:
            spec = {"kind": "default"}
            alns = [G.alignment(rng, "default", groups) for _ in range(rng.randint(1, 5))]
        res.append((spec, alns))
    res.append(({"kind": "read_id", "delim": ""}, [{"name": "abc", "tags": [], "file": None}]))    # ValueError
    return res


def doc_group(spec, a):
    """the group the documentation assigns (independent of the code under test); a set of acceptable answers"""
    k = spec["kind"]
    if k == "default":
        return {"NA"}
    if k == "tag":
        for t, v in a["tags"]:
            if t == spec["tag"]:
                return {str(v)}
        return {"NA"}
    if k == "read_id":
        d, name = spec["delim"], a["name"]
        if d not in name:
            return {"NA"}
        # "split by DELIM, the group is the suffix": every suffix g with name = p + d + g and d not in g
        return {name[i + len(d):] for i in range(len(name)) if name.startswith(d, i) and d not in name[i + len(d):]}
    if k == "table_lines":
        m = {}
        for line in spec["lines"]:
            l = line.strip()
            if not l or l.startswith("#"):
                continue
            cols = l.split(spec["delim"])
            if len(cols) > max(spec["rc"], spec["gc"]):
                m[cols[spec["rc"]]] = cols[spec["gc"]]
        return {m.get(a["name"], "NA")}
    if k == "file_name":
        f = a["file"]
        names = dict(spec["names"])
        if f in names:
            return {names[f]}
        return {f} if f else {"NA"}
    raise RuntimeError(k)


# ----------------------------------------------------------------------------------------------------------------
# correspondence

def _close(x, q, tol):
    return abs(x - q) <= tol


def compare_counter(case, obs, mo):
    """model output `mo` vs real observation `obs`; returns None or a description of the first difference"""
    if vlib.is_err(mo) or "error" in obs:
        return None if (vlib.is_err(mo) and "error" in obs) else "error mismatch"
    ms, rs = mo["state"], obs["state"]
    if ms["ignore"] != rs["ignore"]:
        return "ignore_read_groups"
    if ms["ordered"] != rs["ordered"]:
        return "ordered_groups"
    if sorted(ms["ids"]) != rs["ids"]:
        return "group_numeric_ids"
    if ms["all_features"] != rs["all_features"] or ms["confirmed"] != rs["confirmed"]:
        return "feature sets"
    if ms["counts"] != rs["counts"]:
        return "read counters"
    mfc = {f: {k: frac(v) for k, v in d} for f, d in ms["fc"]}
    rfc = {f: {k: v for k, v in d} for f, d in rs["fc"].items() if d}
    mfc = {f: d for f, d in mfc.items() if d}
    if set(mfc) != set(rfc):
        return "feature_counter keys"
    for f in mfc:
        if set(mfc[f]) != set(rfc[f]) or any(not _close(rfc[f][k], mfc[f][k], EPS) for k in mfc[f]):
            return "feature_counter[%s]" % f
        if [k for k, _ in dict(ms["fc"])[f]] != [k for k, _ in rs["fc"][f]]:
            return "feature_counter[%s] key order" % f
    if "dump" not in mo:
        return None
    md = mo["dump"]
    rm, rl = obs.get("matrix"), obs.get("linear")
    if (md["matrix"] is None) != (rm is None):
        return "matrix presence"
    if md["matrix"] is not None:
        if md["header"] != rm["header"]:
            return "matrix header"
        if [r[0] for r in md["matrix"]] != [r[0] for r in rm["rows"]]:
            return "matrix row ids"
        for (f, vals), (_, rvals) in zip(md["matrix"], rm["rows"]):
            if len(vals) != len(rvals) or any(not _close(x, frac(q), PRINT_TOL) for x, q in zip(rvals, vals)):
                return "matrix row %s" % f
    if (md["linear"] is None) != (rl is None):
        return "linear presence"
    if md["linear"] is not None:
        if [(f, g) for f, g, _ in md["linear"]] != [(f, g) for f, g, _ in rl["rows"]]:
            return "linear labels"
        if any(not _close(x[2], frac(q[2]), PRINT_TOL) for x, q in zip(rl["rows"], md["linear"])):
            return "linear values"
    if md["stats"] != obs.get("stats"):
        return "stats"
    if md["tpm_header"] != obs.get("tpm_header"):
        return "tpm header"
    return None


def correspondence(ctx):
    rng = ctx.rng
    quick = ctx.tier == "quick"
    drv = ctx.driver
    # --- 1. str.split / strip / isspace
    lines, exp = [], []
    delims = ["_", ":", "__", "_a", "a_", "a_a"]
    for s in G.all_strings("a_:", 5 if quick else 6):
        for d in delims:
            lines.append(req("split", d=d, s=s))
            exp.append(("split", {"d": d, "s": s}, s.split(d)))
    for _ in range(300 if quick else 3000):
        alpha = rng.choice(["ab_", "aé中\U0001F600_", "_", "a_ \t"])
        s = "".join(rng.choice(alpha) for _ in range(rng.randint(0, 30)))
        d = "".join(rng.choice(alpha) for _ in range(rng.randint(1, 3)))
        lines.append(req("split", d=d, s=s))
        exp.append(("split", {"d": d, "s": s}, s.split(d)))
        t = "".join(rng.choice(" \t\r\n\x0b\x0c\x1c\x1f\x85\xa0 　ab#") for _ in range(rng.randint(0, 8)))
        lines.append(req("strip", s=t))
        exp.append(("strip", {"s": t}, t.strip()))
    lines.append(req("split", d="", s="abc"))
    exp.append(("split", {"d": "", "s": "abc"}, {"error": "error"}))
    lines.append(req("py_space_codes"))
    exp.append(("py_space_codes", {}, [c for c in range(0x110000) if chr(c).isspace()]))
    outs = drv.run(lines)
    for (op, kw, io), mo in zip(exp, outs):
        ctx.evaluations += 1
        ctx.count("op:" + op)
        ctx.traces_validated += 1
        if not vlib.same(mo, io):
            ctx.disagree(op, kw, mo, io)
        elif not vlib.is_err(mo) and (op != "split" or len(mo) > 1):
            ctx.mark_nontrivial([op, kw])
    # --- 2. groupers
    tmp = tempfile.mkdtemp(prefix="isoverif_c09_")
    try:
        gcases = grouper_cases(ctx)
        outs = drv.run([req("run_grouper", grouper=spec, alns=alns) for spec, alns in gcases])
        for (spec, alns), mo in zip(gcases, outs):
            ctx.evaluations += 1
            ctx.count("op:run_grouper:" + spec["kind"])
            io, _ = run_real_grouper(spec, alns, tmp)
            ctx.traces_validated += 1
            if isinstance(mo, dict) and "driver_error" in mo:
                ctx.disagree("run_grouper", {"grouper": spec, "alns": alns}, mo, io)
            elif not vlib.same(mo, io):
                ctx.disagree("run_grouper", {"grouper": spec, "alns": alns}, mo, io)
            elif not vlib.is_err(mo) and any(r != "NA" for r in mo["rets"]):
                ctx.mark_nontrivial(["run_grouper", spec, alns])
            if len(ctx.samples) < 2 and not vlib.is_err(mo):
                ctx.sample({"op": "run_grouper", "grouper": spec["kind"], "model": mo, "impl": io})
        # --- 3. create_read_grouper option parsing
        RG = _impl()
        opts = [None, "file_name", "tag", "tag:CB", "tag:CB:x", "read_id:_", "read_id:__:x", "read_id", "read_id:", "read_id::",
                "read_id:a:b", "file:" + os.path.join(tmp, "t.tsv"), "file:" + os.path.join(tmp, "t.tsv") + ":0:1",
                "file:" + os.path.join(tmp, "t.tsv") + ":2", "file:" + os.path.join(tmp, "t.tsv") + "::1:,", "bogus", "", ":tag", "Tag:CB"]
        with open(os.path.join(tmp, "rgf_chrZ"), "w") as f:
            f.write("r1\tg1\n")
        outs = drv.run([req("parse_read_group", opt=o) for o in opts])
        for o, mo in zip(opts, outs):
            ctx.evaluations += 1
            ctx.count("op:parse_read_group")
            args = _NS(read_group=o, input_data=_NS(samples=[]))
            sample = _NS(readable_names_dict={"x": "y"}, file_list=[], read_group_file=os.path.join(tmp, "rgf"))
            try:
                g = RG.create_read_grouper(args, sample, "chrZ")
                cls = type(g).__name__
                io = {"DefaultReadGrouper": {"kind": "default"}, "FileNameGrouper": {"kind": "file_name"},
                      "AlignmentTagReadGrouper": {"kind": "tag", "tag": getattr(g, "tag", None)},
                      "ReadIdSplitReadGrouper": {"kind": "read_id", "delim": getattr(g, "delim", None)},
                      "ReadTableGrouper": {"kind": "table"}}[cls]
            except (IndexError, ValueError, KeyError) as ex:
                io = {"error": "error", "exc": type(ex).__name__}
            ctx.traces_validated += 1
            if not vlib.same(mo, io):
                ctx.disagree("parse_read_group", {"opt": o}, mo, io)
            elif not vlib.is_err(mo) and mo["kind"] != "default":
                ctx.mark_nontrivial(["parse_read_group", o])
        # --- 4. load_table
        tcases = []
        for _ in range(40 if quick else 400):
            names = ["read%d" % i for i in range(rng.randint(0, 12))]
            delim = rng.choice(["\t", "\t", ",", ";;", " "])
            rc, gc = rng.choice([(0, 1), (1, 0), (2, 1), (0, 3), (0, 0)])
            groups = [g for g in G.group_names(rng, 4) if delim not in g and g.strip() == g and g] or ["g"]
            tcases.append({"lines": G.table_lines(rng, names, groups, delim, rc, gc), "rc": rc, "gc": gc, "delim": delim})
        outs = drv.run([req("load_table", **c) for c in tcases])
        for c, mo in zip(tcases, outs):
            ctx.evaluations += 1
            ctx.count("op:load_table")
            p = os.path.join(tmp, "lt.tsv")
            with open(p, "w", newline="\n") as f:
                f.write("".join(l + "\n" for l in c["lines"]))
            try:
                io = [[k, v] for k, v in RG.load_table(p, c["rc"], c["gc"], c["delim"]).items()]
            except (IndexError, ValueError) as ex:
                io = {"error": "error", "exc": type(ex).__name__}
            ctx.traces_validated += 1
            if not vlib.same(mo, io):
                ctx.disagree("load_table", c, mo, io)
            elif not vlib.is_err(mo) and mo:
                ctx.mark_nontrivial(["load_table", c])
        # --- 5. split_read_group_table on real BAM files
        _corr_split_table(ctx, tmp, 3 if quick else 12)
        # --- 5b. ExonCounter / IntronCounter (ProfileFeatureCounter)
        pcases = profile_cases(ctx)
        outs = drv.run([req("profile_counter", ignore=c["ignore"], reads=c["reads"]) for c in pcases])
        for i, (c, mo) in enumerate(zip(pcases, outs)):
            ctx.evaluations += 1
            ctx.count("op:profile_counter")
            io = run_real_profile_counter(c, tmp, "exon" if i % 2 == 0 else "intron")
            ctx.traces_validated += 1
            if not vlib.is_err(mo) and not (isinstance(mo, dict) and "driver_error" in mo):
                mo = {"ids": mo["ids"], "lines": [[f, g, int(frac(a)), int(frac(b))] for f, g, a, b in mo["lines"]]}
            if not vlib.same(mo, io):
                ctx.disagree("profile_counter", c, mo, io)
            elif not vlib.is_err(mo) and mo["lines"]:
                ctx.mark_nontrivial(["profile_counter", c])
        # --- 5c. growth: file labels, grouped TPM values, tables of several BAM files
        GR.correspondence(ctx, tmp)
        # --- 5d. option strings: file:FILE:READ_COL:GROUP_COL:DELIM field by field, read_id delimiters with colons, tables of
        #         reference sequences that no BAM header lists (audit-2 B)
        OP.correspondence(ctx, tmp)
    finally:
        shutil.rmtree(tmp, ignore_errors=True)
    # --- 6. counters under several hash seeds
    cases = counter_cases(ctx)
    seeds = hash_seeds(ctx)
    ctx.extra["hash_seeds"] = seeds
    ctx.extra["max_groups"] = max(len(c["rg"] or []) for c in cases)
    obs_by_seed = {}
    with ThreadPoolExecutor(max_workers=min(8, len(seeds))) as ex:
        futs = {hs: ex.submit(run_helper, cases, hs) for hs in seeds}
        for hs, fu in futs.items():
            obs_by_seed[hs] = fu.result()
    ctx.extra["_observations"] = (cases, obs_by_seed)      # reused by the oracle (removed before evidence is written)
    for hs in seeds:
        obs = obs_by_seed[hs]
        lines = []
        for c, o in zip(cases, obs):
            lines.append(req("counter", buggy=False, rg=o["pi"], strategy=c["strategy"], all_features=c["all_features"],
                             output_zeroes=c["output_zeroes"], fmt=c["fmt"], calls=c["calls"]))
        outs = drv.run(lines)
        for c, o, mo in zip(cases, obs, outs):
            ctx.evaluations += 1
            ctx.count("op:counter")
            ctx.count("groups:%s" % ("none" if c["rg"] is None else (len(c["rg"]) if len(c["rg"]) < 4 else ("4-19" if len(c["rg"]) < 20 else "20-300"))))
            ctx.traces_validated += 1
            if isinstance(mo, dict) and "driver_error" in mo:
                ctx.disagree("counter", {"case": c, "hashseed": hs}, mo, None)
                continue
            if vlib.is_err(mo):
                ctx.count("model_error")
            diff = compare_counter(c, o, mo)
            if diff:
                ctx.disagree("counter", {"case": c, "hashseed": hs, "pi": o["pi"]}, {"diff": diff, "model": _short(mo)}, _short(o))
            elif not vlib.is_err(mo) and any(frac(v) != 0 for _, d in mo["state"]["fc"] for _, v in d):
                ctx.mark_nontrivial(["counter", c["rg"], c["strategy"], c["output_zeroes"], c["fmt"], c["calls"]])
            if len(ctx.samples) < 5 and not vlib.is_err(mo) and mo.get("dump", {}).get("linear") and len(c["calls"]) < 6:
                ctx.sample({"op": "counter", "hashseed": hs, "pi": o["pi"], "calls": c["calls"], "model_dump": mo["dump"],
                            "impl_matrix": o.get("matrix"), "impl_linear": o.get("linear")})


def _short(x):
    s = json.dumps(x, default=str)
    return s if len(s) < 1500 else s[:1500] + "..."


def _corr_split_table(ctx, tmp, n):
    """real split_read_group_table (pysam reads real BAMs) + ReadTableGrouper on the per-chromosome file vs the model"""
    from gen import synth
    RG = _impl()
    rng = ctx.rng
    lines, meta = [], []
    for i in range(n):
        ds = synth.Dataset(seed=rng.randrange(10 ** 6))
        ds.add_chrom("chr1", 3000)
        ds.add_chrom("chr2", 3000)
        names = ["q%d" % j for j in range(rng.randint(2, 10))]
        for nm in names:
            for _ in range(rng.choice([1, 1, 2])):
                ds.add_read(nm, rng.choice(["chr1", "chr2"]), rng.randint(10, 2000), "100M")
        if rng.random() < 0.5:
            ds.add_read("unm", None, 0, "", flag=4)
        d = os.path.join(tmp, "bam%d" % i)
        paths = ds.write(d, write_ref=False)
        groups = ["gA", "gB", "g C", "NA"]
        tl = G.table_lines(rng, [nm for nm in names if rng.random() < 0.8], groups, "\t", 0, 1)
        tf = os.path.join(d, "tab.tsv")
        with open(tf, "w", newline="\n") as f:
            f.write("".join(l + "\n" for l in tl))
        sample = _NS(file_list=[[paths["bam"]]], read_group_file=os.path.join(d, "rg"))
        RG.split_read_group_table(tf, sample, 0, 1, "\t")
        import pysam
        with pysam.AlignmentFile(paths["bam"], "rb") as bam:
            alns = [[a.query_name, a.reference_name] for a in bam]
        table = [[k, v] for k, v in RG.load_table(tf, 0, 1, "\t").items()]
        for chrom in ("chr1", "chr2"):
            with open(os.path.join(d, "rg_" + chrom)) as f:
                real_lines = f.read().split("\n")[:-1]
            lines.append(req("split_table", map=table, chr=chrom, alns=alns))
            meta.append(({"map": table, "chr": chrom, "alns": alns}, real_lines))
    outs = ctx.driver.run(lines)
    for (kw, io), mo in zip(meta, outs):
        ctx.evaluations += 1
        ctx.count("op:split_table")
        ctx.traces_validated += 1
        if not vlib.same(mo, io):
            ctx.disagree("split_table", kw, mo, io)
        elif mo:
            ctx.mark_nontrivial(["split_table", kw])


# ----------------------------------------------------------------------------------------------------------------
# oracle

def check_grouper_case(spec, alns, tmp):
    """the property on the real grouper: list of (kind, detail)"""
    res = []
    try:
        g = make_grouper(spec, tmp)
    except ValueError:
        return res
    for a in alns:
        try:
            r = g.get_group_id(FakeAln(a), a["file"])
        except ValueError:
            if spec["kind"] == "read_id" and spec["delim"] == "":
                return res          # empty delimiter: an invalid configuration, not a read that cannot be grouped
            raise
        want = doc_group(spec, a)
        if not isinstance(r, str):
            res.append(("ungroupable_not_NA" if want == {"NA"} else "group_not_string", "returned %r for %s (documented %s)" % (r, a, sorted(want))))
        elif r not in want:
            res.append(("wrong_group", "returned %r for %s (documented %s)" % (r, a, sorted(want))))
        elif r not in g.read_groups:
            res.append(("group_missing_from_universe", "%r returned for %s but not added to read_groups %s" % (r, a, sorted(map(str, g.read_groups)))))
        if res:
            res = [(k, det, a) for k, det in res]
            break
    return res


def check_counter_obs(case, obs):
    """the property on one observation of the real counter (no model involved): list of (kind, detail)"""
    universe = case["rg"]
    grouped = bool(universe)
    wellformed = all(c["k"] == "confirm" or (not grouped) or c["group"] in universe for c in case["calls"])
    tw = obs.get("twin") or {}
    if "error" in tw:
        return []                      # the ungrouped counter itself raises on this stream (malformed read): out of scope
    if "error" in obs:
        if wellformed:
            return [("abort", "grouped counter raised %s although every read group is in the universe" % obs.get("exc"))]
        return []
    if not wellformed:
        return []
    res = []
    st = obs["state"]
    ids = dict((k, v) for k, v in st["ids"])
    name_of = {}
    for k, v in ids.items():
        if v in name_of:
            res.append(("numeric_id_shared", "groups %r and %r share numeric id %d" % (name_of[v], k, v)))
        name_of[v] = k
    cells = {}
    for f, d in st["fc"].items():
        for k, v in d:
            cells[(f, name_of.get(k))] = v
    # group_of_read: every cell is the sum of the twin's increments for the calls of that group
    exp = {}
    for call, delta in zip(case["calls"], tw.get("deltas", [])):
        if call["k"] == "confirm":
            continue
        g = call["group"] if grouped else "NA"
        for f, dv in delta.items():
            exp[(f, g)] = exp.get((f, g), 0.0) + dv
    for key in set(exp) | set(cells):
        if abs(exp.get(key, 0.0) - cells.get(key, 0.0)) > EPS:
            res.append(("group_of_read", "cell %s holds %s, the reads of that group contribute %s" % (key, cells.get(key, 0.0), exp.get(key, 0.0))))
            break
    # partition (in memory, before the unconfirmed features are zeroed) and in the printed tables
    tst = tw.get("state")
    if tst:
        for f in set(list(st["fc"]) + list(tst["fc"])):
            s = sum(v for _, v in st["fc"].get(f, []))
            u = sum(v for _, v in tst["fc"].get(f, []))
            if abs(s - u) > EPS:
                res.append(("partition", "feature %s: groups sum to %s, ungrouped %s" % (f, s, u)))
                break
    # truth after dump: confirmed features keep their cells, the others are zero
    conf = set(st["confirmed"])
    truth = {k: v for k, v in cells.items() if k[0] in conf and k[0] in st["all_features"] and abs(v) > 0}
    m, l = obs.get("matrix"), obs.get("linear")
    if grouped:
        if m is not None:
            mt = {}
            for f, vals in m["rows"]:
                if len(vals) != len(m["header"]):
                    res.append(("matrix_shape", "row %s has %d values for %d groups" % (f, len(vals), len(m["header"]))))
                for g, v in zip(m["header"], vals):
                    if v != 0:
                        mt[(f, g)] = v
            if sorted(m["header"]) != sorted(universe):
                res.append(("matrix_header", "header %s is not the group universe %s" % (m["header"][:10], sorted(universe)[:10])))
            bad = [k for k in set(mt) | set(truth) if abs(mt.get(k, 0.0) - truth.get(k, 0.0)) > PRINT_TOL]
            if bad:
                k = sorted(bad, key=str)[0]
                res.append(("matrix_mislabelled", "matrix cell %s prints %s, counted %s" % (k, mt.get(k, 0.0), truth.get(k, 0.0))))
            tm = tw.get("matrix")
            if tm is not None and case["output_zeroes"]:
                tv = {f: vals[0] for f, vals in tm["rows"]}
                for f, vals in m["rows"]:
                    if f in tv and abs(sum(vals) - tv[f]) > 0.005 * (len(vals) + 1) + EPS:
                        res.append(("partition", "printed row %s sums to %s, ungrouped table has %s" % (f, sum(vals), tv[f])))
                        break
        if l is not None:
            lt = {}
            for f, g, v in l["rows"]:
                if (f, g) in lt:
                    res.append(("linear_duplicate", "linear table has two lines for %s" % ((f, g),)))
                if v != 0:
                    lt[(f, g)] = v
            bad = [k for k in set(lt) | set(truth) if abs(lt.get(k, 0.0) - truth.get(k, 0.0)) > PRINT_TOL]
            if bad:
                k = sorted(bad, key=str)[0]
                res.append(("linear_mislabelled", "linear line %s prints %s, counted %s" % (k, lt.get(k, 0.0), truth.get(k, 0.0))))
        if m is not None and obs.get("tpm_header") != m["header"]:
            res.append(("tpm_header_mislabelled", "grouped TPM table has columns %s, the count table %s" % (obs.get("tpm_header"), m["header"])))
        if m is not None and l is not None:
            mt = {(f, g): v for f, vals in m["rows"] for g, v in zip(m["header"], vals) if v != 0}
            lt = {(f, g): v for f, g, v in l["rows"] if v != 0}
            if mt != lt:
                k = sorted(set(mt.items()) ^ set(lt.items()), key=str)[0]
                res.append(("matrix_linear_disagree", "triple %s is in only one of the two renderings" % (k,)))
    return res


def shrink_counter_case(case, hs, kind):
    """smaller call stream / universe that still shows the same failure class (one helper batch per round)"""
    def fails(cands):
        obs = run_helper(cands, hs)
        return [any(k == kind for k, _ in check_counter_obs(c, o)) for c, o in zip(cands, obs)]
    try:
        cur = case
        for _ in range(8):
            calls = cur["calls"]
            cands = []
            # shortest failing prefix, then drop single calls, then drop unused groups
            for k in sorted(set([0, 1, 2, 3, 5, 8, len(calls) // 4, len(calls) // 2])):
                if k < len(calls):
                    cands.append(dict(cur, calls=calls[:k]))
            for i in range(min(len(calls), 40)):
                cands.append(dict(cur, calls=calls[:i] + calls[i + 1:]))
            used = {c.get("group") for c in calls}
            if cur["rg"] and len(cur["rg"]) > 1:
                keep = [g for g in cur["rg"] if g in used]
                rest = [g for g in cur["rg"] if g not in used]
                for extra in ([], rest[:1], rest[:len(rest) // 2], rest[len(rest) // 2:]) + tuple([g] for g in rest[:20]):
                    if 0 < len(keep + list(extra)) < len(cur["rg"]):
                        cands.append(dict(cur, rg=keep + list(extra)))
            if not cands:
                break
            res = fails(cands)
            better = [c for c, r in zip(cands, res) if r]
            if not better:
                break
            cur = min(better, key=lambda c: (len(c["calls"]), len(c["rg"] or [])))
        return cur
    except Exception:
        return case


def _fail_counter(ctx, kind, det, case, hs):
    """record a counter failure; the first few of a run are shrunk (and their detail recomputed)"""
    n_shrunk = ctx.extra.get("_shrunk", 0)
    if n_shrunk < 3:
        ctx.extra["_shrunk"] = n_shrunk + 1
        small = shrink_counter_case(case, hs, kind)
        if small is not case:
            o = run_helper([small], hs)[0]
            dets = [d for k, d in check_counter_obs(small, o) if k == kind]
            if dets:
                case, det = small, dets[0]
    ctx.fail(kind, {"what": "counter", "case": case, "hashseed": hs}, det)


def oracle(ctx, disagreements, broken):
    n = 0
    tmp = tempfile.mkdtemp(prefix="isoverif_c09o_")
    try:
        # 1. seeded with the disagreeing inputs (counter cases batched per hash seed)
        by_seed = {}
        for d in disagreements:
            inp = d["input"]
            if d["op"] == "run_grouper":
                for kind, det, a in check_grouper_case(inp["grouper"], inp["alns"], tmp):
                    ctx.fail(kind, {"what": "grouper", "grouper": inp["grouper"], "alns": [a]}, det)
            elif d["op"] == "counter" and isinstance(inp, dict) and "case" in inp:
                by_seed.setdefault(inp["hashseed"], []).append(inp["case"])
            n += 1
        for hs, cs in by_seed.items():
            cs = cs[:40]
            for c, o in zip(cs, run_helper(cs, hs)):
                for kind, det in check_counter_obs(c, o):
                    _fail_counter(ctx, kind, det, c, hs)
        # 2. groupers
        for spec, alns in grouper_cases(ctx):
            n += 1
            for kind, det, a in check_grouper_case(spec, alns, tmp):
                ctx.fail(kind, {"what": "grouper", "grouper": spec, "alns": [a]}, det)
        # 2a. file_name grouping through the real BAM merger (several files, partly disjoint coverage)
        for _ in range(12 if ctx.tier == "quick" else 80):
            mc = merger_case(ctx.rng)
            n += 1
            for kind, det, region in check_merger_case(mc, tmp):
                if len(ctx.failures) < 30:
                    # minimal replay: the failing region only, and only the files that have reads there
                    ctx.fail(kind, {"what": "merger", "case": dict(mc, regions=[region])}, det)
        # 2b. exon / intron counters
        for d in disagreements:
            if d["op"] == "profile_counter":
                for kind, det in check_profile_case(d["input"], tmp):
                    ctx.fail(kind, {"what": "profile", "case": d["input"]}, det)
        for c in profile_cases(ctx):
            n += 1
            for kind, det in check_profile_case(c, tmp):
                if len(ctx.failures) < 30:
                    small = _shrink_profile_case(c, kind, tmp) if ctx.extra.get("_pshrunk", 0) < 3 else c
                    ctx.extra["_pshrunk"] = ctx.extra.get("_pshrunk", 0) + 1
                    det = ([d for k, d in check_profile_case(small, tmp) if k == kind] or [det])[0]
                    ctx.fail(kind, {"what": "profile", "case": small}, det)
        # 3. counters (observations of the correspondence step are reused when it ran)
        pre = ctx.extra.pop("_observations", None)
        if pre:
            cases, obs_by_seed = pre
        else:
            cases = counter_cases(ctx)
            obs_by_seed = {hs: run_helper(cases, hs) for hs in hash_seeds(ctx)}
        first = None
        for hs, obs in obs_by_seed.items():
            for i, (c, o) in enumerate(zip(cases, obs)):
                n += 1
                for kind, det in check_counter_obs(c, o):
                    if len(ctx.failures) < 12:
                        _fail_counter(ctx, kind, det, c, hs)
            if first is None:
                first = (hs, obs)
            else:
                for c, o0, o in zip(cases, first[1], obs):
                    if "error" in o or "error" in o0:
                        continue
                    lin = lambda x: sorted(map(tuple, x["rows"])) if x else None
                    if o.get("matrix") != o0.get("matrix") or lin(o.get("linear")) != lin(o0.get("linear")):
                        if len(ctx.failures) < 30:
                            ctx.fail("hashseed_dependent_output", {"what": "counter_seeds", "case": c, "hashseeds": [first[0], hs]},
                                     "dumped tables differ between PYTHONHASHSEED=%s and %s" % (first[0], hs))
        # 3b. growth: labels -> groups, grouped TPM values, per-chromosome tables
        n += GR.oracle(ctx, disagreements, tmp)
        # 3c. option strings through prepare_read_groups / create_read_grouper
        n += OP.oracle(ctx, disagreements, tmp)
        # 4. the real pipeline
        n += oracle_pipeline(ctx, broken)
    finally:
        shutil.rmtree(tmp, ignore_errors=True)
        ctx.extra.pop("_observations", None)
        ctx.extra.pop("_shrunk", None)
        ctx.extra.pop("_pshrunk", None)
    ctx.extra["oracle_cases"] = n


# ---- pipeline level ---------------------------------------------------------------------------------------------

def build_dataset(ds_seed, mode, d):
    """synthetic data set for one --read_group mode; returns (cli args, read -> documented group)"""
    import random
    from gen import synth
    rng = random.Random(ds_seed)
    ds = synth.simple_dataset(seed=ds_seed, n_chroms=2, genes_per_chrom=rng.randint(2, 3), reads_per_tx=rng.randint(3, 6))
    groups = ["cellA", "count_B", "b", "B", "10", "9"][:rng.randint(2, 6)]
    only_chr1 = "zz_chr1_only"
    doc = {}
    os.makedirs(d, exist_ok=True)
    kind = mode.split(":")[0]

    def pick(r):
        if r["chr"] == "chr1" and rng.random() < 0.2:
            return only_chr1
        return rng.choice(groups)

    extra = []
    if kind == "tag":
        tag = mode.split(":")[1]
        for r in ds.reads:
            x = rng.random()
            if x < 0.2:
                doc[r["name"]] = "NA"
            elif x < 0.3 and tag == "HP":
                v = rng.randint(1, 3)
                r["tags"] = [(tag, v, "i")]
                doc[r["name"]] = str(v)
            else:
                g = pick(r)
                r["tags"] = [(tag, g, "Z")]
                doc[r["name"]] = g
        paths = ds.write(d)
        bams = [paths["bam"]]
    elif kind == "read_id":
        delim = mode[len("read_id:"):]              # everything after the first colon: the delimiter may be ':' itself
        for r in ds.reads:
            base = r["name"].replace("_", "-") if delim != "_" else r["name"]
            if rng.random() < 0.2:
                if delim in base:
                    doc_name = base
                    doc[doc_name] = base.rsplit(delim, 1)[1]
                else:
                    doc_name = base
                    doc[doc_name] = "NA"
                r["name"] = doc_name
            else:
                g = pick(r) if rng.random() > 0.06 else ""          # read id ending with the delimiter: the empty group
                r["name"] = base + delim + g
                doc[r["name"]] = r["name"].rsplit(delim, 1)[1]     # a group name may itself contain the delimiter
        paths = ds.write(d)
        bams = [paths["bam"]]
    elif kind == "file":
        # default layout (read id, group, further columns): blank lines, a comment, malformed rows, a row of a read that
        # does not exist; the group column is not the last one, so a group may END WITH A BLANK (it belongs to the group)
        tab = os.path.join(d, "groups.tsv")
        lines = ["# read\tgroup", ""]
        padded = False
        for r in ds.reads:
            x = rng.random()
            if x < 0.2:
                if x < 0.05:
                    lines.append(r["name"])            # malformed row: skipped
            else:
                g = pick(r)
                if rng.random() < 0.15 or not padded:
                    g, padded = g + " ", True
                lines.append("%s\t%s\tignored" % (r["name"], g))
        lines.append("not_a_read\tghost")
        with open(tab, "w") as f:
            f.write("".join(l + "\n" for l in lines))
        tdoc = GR.doc_table_map(lines, "\t", 0, 1)
        doc = {r["name"]: tdoc.get(r["name"], "NA") for r in ds.reads}
        paths = ds.write(d)
        bams = [paths["bam"]]
        mode = "file:" + tab
    elif kind in ("file3", "filesub"):
        tab = os.path.join(d, "groups.tsv")
        if kind == "file3":
            # `file:FILE:READ_COL` (three fields, docs/cmd.md: "GROUP_COL ... 1 if not set"): columns x, group, read id
            tmpl, rc, gc, suffix = "x\t%(g)s\t%(r)s", 2, 1, ":2"
        else:
            tmpl, rc, gc, suffix = "%(r)s\t%(g)s", 0, 1, ""
        lines = ["# table of read groups"]
        for r in ds.reads:
            if rng.random() >= 0.2:
                lines.append(tmpl % {"r": r["name"], "g": pick(r)})
        lines.append(tmpl % {"r": "not_a_read", "g": "ghost"})
        with open(tab, "w") as f:
            f.write("".join(l + "\n" for l in lines))
        tdoc = GR.doc_table_map(lines, "\t", rc, gc)
        paths = ds.write(d)
        bams = [paths["bam"]]
        if kind == "filesub":
            # the BAM file was aligned to / subset to chr1 only: its header does not list chr2, the reference FASTA has both
            # (legal since fix 3cddb34); the reads of chr2 are not in the file
            import pysam
            sub = os.path.join(d, "chr1_only.bam")
            hdr = {"HD": {"VN": "1.6", "SO": "coordinate"}, "SQ": [{"SN": "chr1", "LN": len(ds.chroms["chr1"])}]}
            kept = set()
            with pysam.AlignmentFile(paths["bam"]) as inp, pysam.AlignmentFile(sub, "wb", header=hdr) as out_:
                for a in inp.fetch("chr1"):
                    out_.write(pysam.AlignedSegment.from_dict(a.to_dict(), out_.header))
                    kept.add(a.query_name)
            pysam.index(sub)
            bams = [sub]
            doc = {nm: tdoc.get(nm, "NA") for nm in kept}
        else:
            doc = {r["name"]: tdoc.get(r["name"], "NA") for r in ds.reads}
        mode = "file:" + tab + suffix
    elif kind == "filecsv":
        # file:FILE:READ_COL:GROUP_COL:DELIM with swapped columns and a comma: group names that contain blanks, END with a
        # blank, the empty group; read ids that start with '#' (a legal first character of a BAM read name)
        tab = os.path.join(d, "groups.csv")
        lines = []
        for i, r in enumerate(ds.reads):
            if i == 0 or rng.random() < 0.12:
                r["name"] = "#" + r["name"]
            if i > 1 and rng.random() < 0.2:
                continue
            g = pick(r).replace("_", " ")
            y = rng.random()
            if i == 1 or y < 0.12:
                g = g + " "
            elif y < 0.18:
                g = ""
            lines.append("%s,%s,extra" % (g, r["name"]))
        with open(tab, "w") as f:
            f.write("".join(l + "\n" for l in lines))
        tdoc = GR.doc_table_map(lines, ",", 1, 0)
        doc = {r["name"]: tdoc.get(r["name"], "NA") for r in ds.reads}
        paths = ds.write(d)
        bams = [paths["bam"]]
        mode = "file:%s:1:0:," % tab
    elif kind in ("file_name", "implicit", "yaml_int"):
        # several BAM files of one experiment with partly disjoint coverage: every gene (= locus, a cluster of
        # overlapping reads) is covered by a proper subset of the files, some loci and (often) a whole chromosome are
        # missing from an EARLIER-listed file while a later-listed one covers them
        nfiles = rng.choice([3, 3, 4, 2]) if (kind in ("implicit", "yaml_int") or rng.random() < 0.9) else 1
        names = ["A", "b.x", "counts_C", "d"][:nfiles]
        gene_of = lambda r: "_".join(r["name"].split("_")[1:3])
        genes = sorted({(r["chr"], gene_of(r)) for r in ds.reads})
        skip_chr2_in_first = nfiles > 1 and rng.random() < 0.6
        allowed = {}
        for k, (chrom, gname) in enumerate(genes):
            if nfiles == 1:
                allowed[gname] = [0]
                continue
            sub = [i for i in range(nfiles) if rng.random() < 0.6]
            if k % 2 == 0:
                sub = [i for i in sub if i != 0] or [nfiles - 1]       # an earlier file is absent, a later one present
            if chrom == "chr2" and skip_chr2_in_first:
                sub = [i for i in sub if i != 0]
            allowed[gname] = sub or [rng.randrange(1, nfiles)]
        buckets = [[] for _ in range(nfiles)]
        for r in ds.reads:
            buckets[rng.choice(allowed[gene_of(r)])].append(r)
        for i in range(nfiles):                 # no empty BAM file: move one read of the fullest bucket
            if not buckets[i]:
                src = max(range(nfiles), key=lambda q: len(buckets[q]))
                buckets[i].append(buckets[src].pop())
        paths = ds.write(d, bam_name=names[0] + ".bam", reads=buckets[0])
        bams = [paths["bam"]]
        for nm, b in zip(names[1:], buckets[1:]):
            bams.append(ds.write(d, bam_name=nm + ".bam", reads=b, write_ref=False)["bam"])
        labels = None
        if kind == "yaml_int":
            labels = [1, 2, 10, 3][:nfiles]                  # `labels: [1, 2, 10]`: YAML integers, grouped by their printed value
        elif rng.random() < 0.5:
            labels = ["L%d" % i for i in range(nfiles)]
            extra += ["--labels"] + labels
        for i, b in enumerate(buckets):
            for r in b:
                doc[r["name"]] = str(labels[i]) if labels else names[i]
        if kind == "yaml_int":
            import yaml
            yf = os.path.join(d, "data.yaml")
            with open(yf, "w") as f:
                yaml.safe_dump([{"data format": "bam"}, {"name": "S", "long read files": bams, "labels": labels}], f)
            return (["--yaml", yf, "--reference", paths["ref"], "--genedb", paths["gtf"], "--complete_genedb", "--data_type",
                     "nanopore", "--no_gzip", "--read_group", "file_name"], doc)
    else:
        raise RuntimeError(mode)
    args = ["--bam"] + bams + ["--reference", paths["ref"], "--genedb", paths["gtf"], "--complete_genedb",
                                 "--data_type", "nanopore", "-p", "S", "--no_gzip"] + \
           ([] if kind == "implicit" else ["--read_group", mode]) + extra      # several BAMs without --read_group: file_name
    return args, doc


def _read_table(path):
    """tsv count table -> {feature: [values...]}, header list (cells of LINE 0 only, without the leading '#'), stats.
    Only the first line is a header: a feature id may itself start with '#' (fixes 1c8d7fc / ffabc7a), such a line is a row."""
    rows, stats, header = {}, {}, None
    with open(path) as f:
        for i, l in enumerate(f):
            l = l.rstrip("\n")
            if i == 0 and l.startswith("#"):
                header = l[1:].split("\t")
                continue
            p = l.split("\t")
            if p[0].startswith("__"):
                stats[p[0]] = p[1:]
            else:
                rows[p[0]] = p[1:]
    return rows, header, stats


def triples_of_matrix(path):
    rows, header, _ = _read_table(path)
    if header is None:
        return None, None
    groups = header[1:]
    t = {}
    for f, vals in rows.items():
        for g, v in zip(groups, vals):
            if float(v) != 0:
                t[(f, g)] = float(v)
    return t, groups


def triples_of_linear(path):
    t = {}
    dup = None
    with open(path) as f:
        lines = f.read().split("\n")
    if not lines or not lines[0].startswith("#"):
        return None, None
    for l in lines[1:]:
        if not l:
            continue
        f_, g, v = l.split("\t")
        if (f_, g) in t and dup is None:
            dup = (f_, g)
        if float(v) != 0:
            t[(f_, g)] = float(v)
        else:
            t.setdefault((f_, g), 0.0)
    return {k: v for k, v in t.items() if v != 0}, dup


def check_pipeline_run(cfg):
    """one real pipeline run; returns list of (kind, detail)"""
    import pipeline as P
    d = P.scratch("isoverif_c09p_")
    res = []
    try:
        args, doc = build_dataset(cfg["ds_seed"], cfg["mode"], os.path.join(d, "data"))
        out = os.path.join(d, "out")
        args = ["--threads", str(cfg["threads"]), "--counts_format", cfg["fmt"]] + args + (["--count_exons"] if cfg.get("exons") else [])
        if cfg.get("quant"):
            # gene and transcript quantification strategies that differ in whether ambiguous reads are admitted: every grouped table must
            # follow the strategy of ITS level (seed C02_a4: the grouped transcript-model counter was handed the gene strategy)
            args += ["--transcript_quantification", cfg["quant"][0], "--gene_quantification", cfg["quant"][1]]
        rc, log = P.run_isoquant(out, args, env={"PYTHONHASHSEED": cfg["hashseed"]}, timeout=900)
        ungroupable = sorted(r for r, g in doc.items() if g == "NA")
        if rc != 0:
            tail = [l for l in log.strip().split("\n") if l.strip() and "SyntaxWarning" not in l and "file_names.sort" not in l][-1:]
            return [("abort", "isoquant.py exited with %s (%d reads without a group): %s" % (rc, len(ungroupable), tail))], None
        files = P.out_files(out)
        universe = sorted(set(doc.values()))
        summary = {}
        for level in ("transcript", "gene", "transcript_model"):
            fmt = cfg["fmt"]
            mpath = files.get("S.%s_grouped_counts.tsv" % level)
            lpath = files.get("S.%s_grouped_counts_linear.tsv" % level)
            upath = files.get("S.%s_counts.tsv" % level)
            mt = lt = groups = None
            # --counts_format: "matrix" / "linear" / "both" (docs/cmd.md) - the renderings written are the requested ones,
            # for every grouped table (the TPM table is derived from the matrix: "linear ... (no TPM output)")
            # (the counters create all three files; a rendering that was not requested stays an empty file)
            has_table = lambda p_: p_ is not None and os.path.getsize(p_) > 0
            written = {"matrix": has_table(mpath), "linear": has_table(lpath),
                       "tpm": has_table(files.get("S.%s_grouped_tpm.tsv" % level))}
            wanted = {"matrix": fmt in ("matrix", "both"), "linear": fmt in ("linear", "both"), "tpm": fmt in ("matrix", "both")}
            if written != wanted and (written["matrix"] or written["linear"]):
                res.append(("counts_format_ignored", "%s: --counts_format %s, grouped files written: %s" %
                            (level, fmt, sorted(k for k, v in written.items() if v))))
            if fmt in ("matrix", "both"):
                mt, groups = triples_of_matrix(mpath)
                if mt is None:
                    res.append(("matrix_missing", "%s: no matrix table" % level))
                    continue
                if sorted(groups) != universe:
                    res.append(("matrix_header", "%s: columns %s, documented groups %s" % (level, groups, universe)))
                tpath = files.get("S.%s_grouped_tpm.tsv" % level)
                if tpath:
                    _, th, _ = _read_table(tpath)
                    if th is not None and th[1:] != groups:
                        res.append(("tpm_header_mislabelled", "%s: grouped TPM columns %s, count columns %s" % (level, th[1:], groups)))
                    if th is not None:
                        crows, _, _ = _read_table(mpath)
                        trows, _, _ = _read_table(tpath)
                        for kind, det in GR.check_tpm_tables(crows, trows, len(groups)):
                            res.append((kind, "%s: %s" % (level, det)))
                if "NA" not in groups and ungroupable:
                    res.append(("ungroupable_not_NA", "%s: %d reads without a group but no NA column" % (level, len(ungroupable))))
                # partition against the ungrouped table
                urows, _, _ = _read_table(upath)
                grows, _, _ = _read_table(mpath)
                for f, vals in grows.items():
                    if f in urows and abs(sum(map(float, vals)) - float(urows[f][0])) > 0.005 * (len(vals) + 1) + EPS:
                        res.append(("partition", "%s %s: groups sum to %s, ungrouped %s" % (level, f, sum(map(float, vals)), urows[f][0])))
                        break
                for f, v in urows.items():
                    if float(v[0]) != 0 and f not in grows:
                        res.append(("partition", "%s %s: ungrouped %s but no grouped row" % (level, f, v[0])))
                        break
            if fmt in ("linear", "both"):
                lt, dup = triples_of_linear(lpath)
                if lt is None:
                    res.append(("linear_missing", "%s: no linear table" % level))
                    continue
                if dup:
                    res.append(("linear_duplicate", "%s: two linear lines for %s" % (level, dup)))
            if mt is not None and lt is not None and mt != lt:
                k = sorted(set(mt.items()) ^ set(lt.items()), key=str)[0]
                res.append(("matrix_linear_disagree", "%s: triple %s is in only one of the two renderings" % (level, k)))
            summary[level] = {"matrix": mt, "linear": lt}
        # group_of_read from the per-read outputs (only where the recomputation reproduces the ungrouped table)
        res += _check_group_of_read(files, doc, summary)
        if cfg.get("exons"):
            res += _check_exon_partition(files, universe)
        return res, summary
    finally:
        shutil.rmtree(d, ignore_errors=True)


def _read_assignments(path):
    """read_assignments.tsv -> list of dicts; the header is the last '#' line before the first record (a read id may itself
    start with '#', so '#' lines after the header are records)"""
    res, hdr, in_body = [], None, False
    with open(path) as f:
        for l in f:
            if l.startswith("#") and not in_body:
                hdr = l[1:].rstrip("\n").split("\t")
                continue
            p = l.rstrip("\n").split("\t")
            if hdr and len(p) != len(hdr) and not in_body:
                continue
            in_body = True
            res.append(dict(zip(hdr, p)) if hdr else p)
    return res


def _check_group_of_read(files, doc, summary):
    import pipeline as P
    res = []
    # reference transcripts, default strategy unique_only: unique / unique_minor_difference reads count 1
    ra = _read_assignments(files["S.read_assignments.tsv"])
    per = {}
    tot = {}
    for r in ra:
        if r["assignment_type"] in ("unique", "unique_minor_difference"):
            g = doc.get(r["read_id"])
            per[(r["isoform_id"], g)] = per.get((r["isoform_id"], g), 0) + 1
            tot[r["isoform_id"]] = tot.get(r["isoform_id"], 0) + 1
    urows, _, _ = _read_table(files["S.transcript_counts.tsv"])
    ok_feats = {f for f, v in urows.items() if abs(float(v[0]) - tot.get(f, 0)) < EPS and float(v[0]) > 0}
    for which in ("matrix", "linear"):
        t = (summary.get("transcript") or {}).get(which)
        if t is None:
            continue
        for f in sorted(ok_feats):
            want = {g: n for (ff, g), n in per.items() if ff == f}
            got = {g: v for (ff, g), v in t.items() if ff == f}
            if any(abs(got.get(g, 0) - want.get(g, 0)) > PRINT_TOL for g in set(want) | set(got)):
                res.append(("group_of_read", "transcript %s (%s): table %s, reads by documented group %s" % (f, which, got, want)))
                break
    # transcript models: every read of transcript_model_reads.tsv counts for its model (1/k when listed for k models)
    # only the first line is a header: a read id may itself start with '#'
    tmr = [l for l in P.read_lines(files["S.transcript_model_reads.tsv"], skip_header=False)
           if l and l != "#read_id\ttranscript_id"]
    by_read = {}
    for l in tmr:
        rid, tid = l.split("\t")[:2]
        if tid != "*":
            by_read.setdefault(rid, []).append(tid)
    per, tot = {}, {}
    for rid, tids in by_read.items():
        for tid in tids:
            per[(tid, doc.get(rid))] = per.get((tid, doc.get(rid)), 0) + 1.0 / len(tids)
            tot[tid] = tot.get(tid, 0) + 1.0 / len(tids)
    urows, _, _ = _read_table(files["S.transcript_model_counts.tsv"])
    ok_feats = {f for f, v in urows.items() if abs(float(v[0]) - tot.get(f, 0)) < PRINT_TOL and float(v[0]) > 0}
    for which in ("matrix", "linear"):
        t = (summary.get("transcript_model") or {}).get(which)
        if t is None:
            continue
        for f in sorted(ok_feats):
            want = {g: n for (ff, g), n in per.items() if ff == f}
            got = {g: v for (ff, g), v in t.items() if ff == f}
            if any(abs(got.get(g, 0) - want.get(g, 0)) > PRINT_TOL + 0.005 for g in set(want) | set(got)):
                res.append(("group_of_read", "transcript model %s (%s): table %s, reads by documented group %s" % (f, which, got, want)))
                break
    summary["group_of_read_features_checked"] = len(ok_feats)
    return res


def _check_exon_partition(files, universe):
    res = []
    for level in ("exon", "intron"):
        g, u = {}, {}
        for path, dst in ((files.get("S.%s_grouped_counts.tsv" % level), g), (files.get("S.%s_counts.tsv" % level), u)):
            if not path:
                continue
            with open(path) as f:
                for l in f:
                    if l.startswith("#"):
                        continue
                    p = l.rstrip("\n").split("\t")
                    key = tuple(p[:4])
                    inc, exc = int(p[-2]), int(p[-1])
                    a = dst.get(key, (0, 0))
                    dst[key] = (a[0] + inc, a[1] + exc)
                    if dst is g and p[-3] not in universe:
                        res.append(("wrong_group", "%s table has group %r outside the documented groups" % (level, p[-3])))
        for key in set(g) | set(u):
            if g.get(key, (0, 0)) != u.get(key, (0, 0)):
                res.append(("partition", "%s %s: groups sum to %s, ungrouped %s" % (level, key, g.get(key), u.get(key))))
                break
    return res


def check_resume_run(cfg):
    """`--read_group tag:CB` with tag values that begin / end with a blank, two chromosomes; the run is killed right after
    the `_collected` lock of a chromosome was written (cfg["locks"]: indices into the list of such mutations) and restarted
    with --resume.  The resumed run re-reads the `_groups` file of the finished chromosome: it must finish and print the
    grouped tables of the uninterrupted run.  Returns list of (kind, detail, lock index)."""
    import pipeline as P
    from gen import c07_runs as R, synth
    base = P.scratch("isoverif_c09k_")
    res = []
    try:
        ds = synth.simple_dataset(seed=cfg["ds_seed"], n_chroms=2, genes_per_chrom=2, reads_per_tx=4)
        vals = ["cell A ", " cell B", "cellC"]
        for i, r in enumerate(ds.reads):
            r["tags"] = [("CB", vals[i % 3], "Z")]
        universe = sorted(vals)
        paths = ds.write(os.path.join(base, "data"))
        args = ["--threads", "1", "--bam", paths["bam"], "--reference", paths["ref"], "--data_type", "nanopore", "-p", "S",
                "--no_gzip", "--genedb", paths["gtf"], "--complete_genedb", "--read_group", "tag:CB"]
        data = {"paths": paths}

        def grouped(out):
            return {fn: P.strip_cmdline(open(p_, errors="replace").read()) for fn, p_ in P.out_files(out, "S").items() if "grouped" in fn}

        wd = os.path.join(base, "clean")
        os.makedirs(wd)
        rc, log, tr = R.run_wrapped(wd, {}, data, args=args)
        if rc != 0:
            return [("abort", "uninterrupted run exited with %s: %s" % (rc, log.strip().split("\n")[-1:]), None)]
        clean = grouped(os.path.join(wd, "out"))
        locks = [n for n, op, rel in tr if n is not None and rel.endswith("_collected") and op.startswith("open")]
        if not locks:
            return [("resume_not_exercised", "no _collected lock in the mutation trace", None)]
        for li in cfg["locks"]:
            k = locks[li]
            wd = os.path.join(base, "kill%d" % (li % len(locks)))
            os.makedirs(wd)
            rc1, _, _ = R.run_wrapped(wd, {}, data, crash=(k, "a"), args=args)
            if rc1 == 0:
                continue
            rc2, log2, _ = R.run_wrapped(wd, {}, data, resume=True)
            if rc2 != 0:
                tail = [l for l in log2.strip().split("\n") if "Error" in l][-1:]
                res.append(("abort", "run killed after mutation %d (a _collected lock), --resume exited with %s: %s" % (k, rc2, tail), li))
                continue
            got = grouped(os.path.join(wd, "out"))
            _, hdr, _ = _read_table(os.path.join(wd, "out", "S", "S.transcript_grouped_counts.tsv"))
            if hdr is not None and sorted(hdr[1:]) != universe:
                res.append(("matrix_header", "run killed after mutation %d (a _collected lock) and resumed: columns %s, documented "
                            "groups %s" % (k, hdr[1:], universe), li))
            elif got != clean:
                bad = sorted(f for f in set(got) | set(clean) if got.get(f) != clean.get(f))
                res.append(("resume_grouped_tables_differ", "run killed after mutation %d and resumed: %s differ from the "
                            "uninterrupted run" % (k, bad), li))
        return res
    finally:
        shutil.rmtree(base, ignore_errors=True)


def check_restart_run(cfg):
    """the group universe through the `<save>_info` file (the third anchor of the property: src/dataset_processor.py
    collect_reads writes it, load_read_info reads it back): a run with `--read_group tag:CB --keep_tmp`, then a second run
    restarted from its save files with `--read_assignments <save> --read_group tag:CB` (no BAM file: the universe of the
    second run comes from `<save>_info` alone).  The restarted run must finish, its columns must be the documented groups
    and every grouped table must equal the table of the first run.  Groups: one that occurs on chr2 only, reads without
    the tag (NA), a name containing `count`, names that differ in case.  Returns list of (kind, detail)."""
    import random
    import pipeline as P
    from gen import synth
    base = P.scratch("isoverif_c09s_")
    try:
        rng = random.Random(cfg["ds_seed"])
        ds = synth.simple_dataset(seed=cfg["ds_seed"], n_chroms=2, genes_per_chrom=2, reads_per_tx=rng.randint(3, 5))
        vals = ["cellA", "count_B", "b", "B"]
        doc = {}
        for i, r in enumerate(ds.reads):
            if i % 5 == 0:
                doc[r["name"]] = "NA"
                continue
            g = "zz_chr2_only" if (r["chr"] == "chr2" and i % 4 == 1) else vals[rng.randrange(len(vals))]
            r["tags"] = [("CB", g, "Z")]
            doc[r["name"]] = g
        universe = sorted(set(doc.values()))
        paths = ds.write(os.path.join(base, "data"))
        common = ["--reference", paths["ref"], "--data_type", "nanopore", "-p", "S", "--no_gzip", "--genedb", paths["gtf"],
                  "--complete_genedb", "--read_group", "tag:CB", "--counts_format", cfg["fmt"]]
        out1 = os.path.join(base, "out1")
        rc, log = P.run_isoquant(out1, ["--threads", str(cfg["threads"]), "--bam", paths["bam"], "--keep_tmp"] + common,
                                 env={"PYTHONHASHSEED": cfg["hashseed"]}, timeout=900)
        if rc != 0:
            return [("abort", "first run (--keep_tmp) exited with %s: %s" % (rc, log.strip().split("\n")[-1:]))]
        save = os.path.join(out1, "S", "aux", "S.save")
        out2 = os.path.join(base, "out2")
        rc, log = P.run_isoquant(out2, ["--threads", str(3 - cfg["threads"]), "--read_assignments", save] + common,
                                 env={"PYTHONHASHSEED": str(int(cfg["hashseed"]) + 5)}, timeout=900)
        if rc != 0:
            tail = [l for l in log.strip().split("\n") if "Error" in l][-1:]
            return [("abort", "run restarted with --read_assignments and --read_group tag:CB exited with %s: %s" % (rc, tail))]
        first = {fn.split(".", 1)[1]: p_ for fn, p_ in P.out_files(out1, "S").items() if "grouped" in fn}
        sub = [x for x in sorted(os.listdir(out2)) if os.path.isdir(os.path.join(out2, x))]
        second = {}
        for x in sub:
            for fn in os.listdir(os.path.join(out2, x)):
                if "grouped" in fn:
                    second[fn.split(".", 1)[1]] = os.path.join(out2, x, fn)
        res = []
        if sorted(first) != sorted(second):
            res.append(("restart_grouped_tables_differ", "grouped files of the first run %s, of the restarted run %s"
                        % (sorted(first), sorted(second))))
        for fn in sorted(set(first) & set(second)):
            if fn.endswith("_grouped_counts.tsv"):
                _, hdr, _ = _read_table(second[fn])
                if hdr is not None and sorted(hdr[1:]) != universe:
                    res.append(("matrix_header", "restarted run, %s: columns %s, documented groups %s" % (fn, hdr[1:], universe)))
            a, b = open(first[fn]).read(), open(second[fn]).read()
            if a != b:
                res.append(("restart_grouped_tables_differ", "%s of the restarted run differs from the table of the first run" % fn))
        return res
    finally:
        shutil.rmtree(base, ignore_errors=True)


def pipeline_configs(ctx):
    rng = ctx.rng
    modes = ["tag:CB", "read_id:=", "file", "file_name"]
    cfgs = []
    for m in modes:
        for fmt in G.FORMATS:
            cfgs.append({"mode": m, "fmt": fmt, "threads": rng.choice([1, 2]), "hashseed": str(rng.choice([0, 1, 7, 42])),
                         "ds_seed": rng.randrange(10 ** 6), "exons": rng.random() < 0.35})
    # file3: `file:T:2` (three fields); filesub: a reference sequence absent from the BAM header; read_id:: the colon delimiter
    extra_modes = ["tag:HP", "read_id:_", "filecsv", "implicit", "file_name", "yaml_int", "file3", "filesub", "read_id::", "read_id:--",
                   "tag:RG"]
    for m in (extra_modes[:9] if ctx.tier == "quick" else extra_modes * 4 + modes * 6):
        cfgs.append({"mode": m, "fmt": rng.choice(G.FORMATS), "threads": rng.choice([1, 2, 3]),
                     "hashseed": str(rng.randrange(1000)), "ds_seed": rng.randrange(10 ** 6), "exons": rng.random() < 0.35})
    for q in ([("with_ambiguous", "unique_only"), ("unique_only", "with_ambiguous")] if ctx.tier == "quick" else
              [("with_ambiguous", "unique_only"), ("unique_only", "with_ambiguous"), ("all", "unique_only"), ("unique_only", "all")] * 3):
        cfgs.append({"mode": rng.choice(["tag:CB", "file_name"]), "fmt": rng.choice(G.FORMATS), "threads": rng.choice([1, 2]),
                     "hashseed": str(rng.randrange(1000)), "ds_seed": rng.randrange(10 ** 6), "exons": False, "quant": list(q)})
    return cfgs


def oracle_pipeline(ctx, broken):
    cfgs = pipeline_configs(ctx)
    results = []
    rcfg = {"ds_seed": ctx.rng.randrange(10 ** 6), "locks": [0, -1]}
    scfg = {"ds_seed": ctx.rng.randrange(10 ** 6), "fmt": ctx.rng.choice(G.FORMATS), "threads": ctx.rng.choice([1, 2]),
            "hashseed": str(ctx.rng.randrange(1000))}
    with ThreadPoolExecutor(max_workers=6) as ex:
        rfut = ex.submit(check_resume_run, rcfg)
        sfut = ex.submit(check_restart_run, scfg)
        futs = [(c, ex.submit(check_pipeline_run, c)) for c in cfgs]
        for c, fu in futs:
            results.append((c, fu.result()))
        ctx.count("pipeline:kill_resume:tag")
        for kind, det, li in rfut.result():
            ctx.fail(kind, {"what": "pipeline_resume", "cfg": dict(rcfg, locks=[li] if li is not None else rcfg["locks"])}, det)
        ctx.count("pipeline:restart_read_assignments:tag")
        for kind, det in sfut.result():
            ctx.fail(kind, {"what": "pipeline_restart", "cfg": scfg}, det)
    checked = 0
    for c, (res, summary) in results:
        ctx.count("pipeline:%s:%s" % (c["mode"].split(":")[0], c["fmt"]))
        if summary:
            checked += summary.get("group_of_read_features_checked", 0)
        per_cfg = 0
        for kind, det in res:
            # the replay file holds the first ten failures of a run: one `counts_format_ignored` per run and at most two
            # failures per pipeline configuration are recorded, the others are counted
            ctx.count("pipeline_failure:%s:%s" % (c["mode"].split(":")[0], kind))
            if kind == "counts_format_ignored":
                if ctx.extra.get("_fmt_recorded"):
                    continue
                ctx.extra["_fmt_recorded"] = True
            elif per_cfg >= 2:
                continue
            else:
                per_cfg += 1
            ctx.fail(kind, {"what": "pipeline", "cfg": c}, det)
    ctx.extra.pop("_fmt_recorded", None)
    # the same data under a second hash seed / thread count must give the same grouped tables
    twins = cfgs[:4] if ctx.tier == "quick" else cfgs[:12]
    with ThreadPoolExecutor(max_workers=6) as ex:
        futs = []
        for c in twins:
            c2 = dict(c, hashseed=str(int(c["hashseed"]) + 13), threads=3 - c["threads"] if c["threads"] in (1, 2) else 1)
            futs.append((c, c2, ex.submit(check_pipeline_run, c2)))
        for c, c2, fu in futs:
            res2, s2 = fu.result()
            s1 = dict(results[cfgs.index(c)][1][1] or {})
            for kind, det in res2:
                ctx.fail(kind, {"what": "pipeline", "cfg": c2}, det)
            if s1 and s2:
                s1.pop("group_of_read_features_checked", None)
                s2 = dict(s2)
                s2.pop("group_of_read_features_checked", None)
                if s1 != s2:
                    ctx.fail("hashseed_dependent_output", {"what": "pipeline_pair", "cfgs": [c, c2]},
                             "grouped tables differ between hash seeds/thread counts %s/%s and %s/%s" %
                             (c["hashseed"], c["threads"], c2["hashseed"], c2["threads"]))
    ctx.extra["pipeline_runs"] = len(cfgs) + len(twins)
    ctx.extra["pipeline_group_of_read_features_checked"] = checked
    return len(cfgs) + len(twins)


# ----------------------------------------------------------------------------------------------------------------

def replay(ctx, failure):
    inp = failure["input"]
    kind = failure["kind"]
    what = inp.get("what")
    if what in ("labels_cmd", "labels_yaml", "grouped_tpm", "split_table", "groups_file"):
        return GR.replay(ctx, failure)
    if what in ("file_option", "read_id_option"):
        return OP.replay(ctx, failure)
    if what == "pipeline_restart":
        return any(k == kind for k, _ in check_restart_run(inp["cfg"]))
    if what == "grouper":
        tmp = tempfile.mkdtemp(prefix="isoverif_c09r_")
        try:
            return any(k == kind for k, _, _ in check_grouper_case(inp["grouper"], inp["alns"], tmp))
        finally:
            shutil.rmtree(tmp, ignore_errors=True)
    if what == "counter":
        o = run_helper([inp["case"]], inp["hashseed"])[0]
        return any(k == kind for k, _ in check_counter_obs(inp["case"], o))
    if what == "merger":
        tmp = tempfile.mkdtemp(prefix="isoverif_c09r_")
        try:
            return any(k == kind for k, _, _ in check_merger_case(inp["case"], tmp))
        finally:
            shutil.rmtree(tmp, ignore_errors=True)
    if what == "profile":
        tmp = tempfile.mkdtemp(prefix="isoverif_c09r_")
        try:
            return any(k == kind for k, _ in check_profile_case(inp["case"], tmp))
        finally:
            shutil.rmtree(tmp, ignore_errors=True)
    if what == "counter_seeds":
        a, b = [run_helper([inp["case"]], hs)[0] for hs in inp["hashseeds"]]
        lin = lambda x: sorted(map(tuple, x["rows"])) if x else None
        return a.get("matrix") != b.get("matrix") or lin(a.get("linear")) != lin(b.get("linear"))
    if what == "pipeline":
        res, _ = check_pipeline_run(inp["cfg"])
        return any(k == kind for k, _ in res)
    if what == "pipeline_resume":
        return any(k == kind for k, _, _ in check_resume_run(inp["cfg"]))
    if what == "pipeline_pair":
        (r1, s1), (r2, s2) = [check_pipeline_run(c) for c in inp["cfgs"]]
        return s1 != s2
    return False
