"""C05 (growth c05x) - runs with a short-read BAM (`--illumina_bam`) that has its OWN contig set, and reference sequence
names that cannot be part of a file name (audit2-A F2, F4).

F2: `IlluminaExonCorrector.get_introns` fetched every reference sequence from every short-read file; a sequence the header of
the short-read file does not list (short reads aligned to / subset to chr1 only) raised `ValueError: invalid contig`, exit code
255, no outputs - same family as fix 3cddb34 for the long-read files.  Repair fix_illumina_bam_missing_contig.patch: such a
file has no introns on the sequence.  F4: a sequence called `c/1` (legal RNAME) - the auxiliary file `<prefix>.save_c/1` cannot
be created: FileNotFoundError after the run has started; repair fix_chromosome_file_names.patch: refusal at start-up, exit
code 254, message naming the sequence.  Reading rule used (proposed for DESIGN §6 C05): a run that refuses its input AT START-UP
with a message naming the offending sequence is outside the quantifier; a traceback / an abort after the work has begun is a
failure.

Oracle only (real code): in-process the real IlluminaExonCorrector constructor on real BAM files, then the real pipeline.
Called from harness/props/C05.py; failure level `short`.
"""
import collections
import os
import random
import shutil

import vlib
import pipeline as P
from gen import synth


def build(spec):
    """long reads on chr1 and chr2 (+ optionally a gene each); short reads (junction reads) whose BAM header lists
    `spec['short_contigs']` only"""
    rng = random.Random(spec["seed"])
    ds = synth.Dataset(spec["seed"])
    names = spec.get("contigs", ["chr1", "chr2"])
    expected = collections.Counter()
    juncs = {}
    for ci, c in enumerate(names):
        ds.add_chrom(c, 14000 + 1000 * ci)
        ex = [(2001, 2300), (2701, 2850), (3301, 3700)]
        if spec.get("genes"):
            ds.add_gene(c, "G%d" % ci, "+", [("T%d" % ci, ex)])
            for k in range(4):
                nm = "g%d_%d" % (ci, k)
                ds.read_from_exons(nm, c, ex)
                expected[nm] += 1
        # an un-annotated spliced locus: these reads go through IlluminaExonCorrector
        lx = [(7001, 7250), (7601, 7700), (8201, 8500)]
        ds.plant_sites(c, [(lx[i][1] + 1, lx[i + 1][0] - 1) for i in range(2)], "+")
        juncs[c] = [(lx[i][1] + 1, lx[i + 1][0] - 1) for i in range(2)]
        for k in range(5):
            e = [list(x) for x in lx]
            if k % 2:
                e[0][1] += 4          # 4 bp off the short-read junction: corrected when short reads cover the sequence
            nm = "n%d_%d" % (ci, k)
            ds.read_from_exons(nm, c, [tuple(x) for x in e])
            expected[nm] += 1
    sh = synth.Dataset(spec["seed"] + 1)
    sh.chroms = {c: (ds.chroms[c] if c in ds.chroms else "".join(rng.choice("ACGT") for _ in range(9000)))
                 for c in spec["short_contigs"]}
    sid = 0
    for c in spec["short_contigs"]:
        for (a, b) in juncs.get(c, [(3001, 3400)]):
            for _ in range(3):
                sh.read_from_exons("s%d" % sid, c, [(a - 30, a - 1), (b + 1, b + 30)])
                sid += 1
    return ds, sh, expected


def corrector_failure(spec):
    """in-process: the real constructor for every reference sequence on the real short-read BAM"""
    vlib.repo_on_path()
    import warnings
    with warnings.catch_warnings():
        warnings.simplefilter("ignore")
        from src.illumina_exon_corrector import IlluminaExonCorrector
    ds, sh, _ = build(spec)
    d = P.scratch("isoverif_c05short_")
    try:
        sp = sh.write(os.path.join(d, "short"), bam_name="short.bam", write_ref=False)
        for c in ds.chroms:
            try:
                corr = IlluminaExonCorrector(c, 0, len(ds.chroms[c]), [sp["bam"]])
            except Exception as ex:     # noqa: the property: a legal input must not raise
                return ("short_read_bam_without_contig_raises", "IlluminaExonCorrector(%r, ...) on a short-read BAM with the header %s: %s: %s"
                        % (c, spec["short_contigs"], type(ex).__name__, ex))
            if c not in spec["short_contigs"] and corr.short_introns:
                return ("short_introns_invented", "sequence %s is not in the short-read file, introns %s" % (c, sorted(corr.short_introns)[:3]))
    finally:
        shutil.rmtree(d, ignore_errors=True)
    return None


def pipeline_failure(spec):
    ds, sh, expected = build(spec)
    d = P.scratch("isoverif_c05short_")
    try:
        paths = ds.write(os.path.join(d, "in"))
        sp = sh.write(os.path.join(d, "short"), bam_name="short.bam", write_ref=False)
        out = os.path.join(d, "out")
        extra = ["--illumina_bam", sp["bam"]] + (["--high_memory"] if spec.get("mode") == "high_memory" else [])
        rc, log = P.run_isoquant(out, P.std_args(paths, threads=spec.get("threads", 1), genedb=bool(spec.get("genes")), extra=extra))
        if rc != 0:
            err = [l for l in log.splitlines() if "Error" in l][-1:]
            return ("pipeline_aborts_on_short_read_bam_contigs", "rc %s %s (reference %s, short-read BAM header %s)"
                    % (rc, err or log[-300:], list(ds.chroms), spec["short_contigs"]))
        files = P.out_files(out)
        bedname = [f for f in files if f.endswith("corrected_reads.bed")]
        if not bedname:
            return ("no_outputs", "exit code 0, no corrected_reads.bed")
        bed = collections.Counter(r[3] for r in P.read_bed(files[bedname[0]]))
        missing = sorted((expected - bed).elements())
        if missing:
            return ("read_missing_in_bed:short", "%d of %d reads absent from corrected_reads.bed, e.g. %s" % (len(missing), sum(expected.values()), missing[:3]))
        extra_ = sorted((bed - expected).elements())
        if extra_:
            return ("read_repeated_or_unexpected_in_bed:short", str(extra_[:3]))
    finally:
        shutil.rmtree(d, ignore_errors=True)
    return None


def slash_failure(spec):
    """reference sequence named with a path separator: either the run works, or it refuses AT START-UP with a message that
    names the sequence (no traceback, nothing processed yet)"""
    ds = synth.Dataset(spec["seed"])
    for c in spec["contigs"]:
        ds.add_chrom(c, 9000)
        for k in range(3):
            ds.read_from_exons("r_%d_%d" % (len(ds.reads), k), c, [(1001, 1300), (1701, 1900)])
    d = P.scratch("isoverif_c05slash_")
    try:
        paths = ds.write(os.path.join(d, "in"))
        out = os.path.join(d, "out")
        rc, log = P.run_isoquant(out, P.std_args(paths, threads=spec.get("threads", 1), genedb=False))
        if rc == 0:
            files = P.out_files(out)
            bedname = [f for f in files if f.endswith("corrected_reads.bed")]
            n = len(P.read_bed(files[bedname[0]])) if bedname else -1
            if n != len(ds.reads):
                return ("read_missing_in_bed:contig_name", "%d of %d reads reported for the sequences %s" % (n, len(ds.reads), spec["contigs"]))
            return None
        bad = [c for c in spec["contigs"] if "/" in c]
        refused = "Traceback" not in log and any(("CRITICAL" in l or "ERROR" in l) and any(c in l for c in bad) for l in log.splitlines()) \
            and "Collecting read alignments" not in log
        if not refused:
            err = [l for l in log.splitlines() if "Error" in l][-1:]
            return ("pipeline_aborts_on_contig_name", "rc %s %s (sequences %s)" % (rc, err or log[-300:], spec["contigs"]))
    finally:
        shutil.rmtree(d, ignore_errors=True)
    return None


def specs(ctx):
    rng = ctx.rng
    s = lambda: rng.randrange(10 ** 6)
    out = [{"what": "short", "seed": s(), "short_contigs": ["chr1"], "genes": True, "mode": "default"},
           {"what": "short", "seed": s(), "short_contigs": ["chr2", "chrZ"], "genes": False, "mode": "high_memory", "threads": 2},
           {"what": "slash", "seed": s(), "contigs": ["c/1", "chr2"]}]
    if ctx.tier != "quick":
        for k in range(6):
            out.append({"what": "short", "seed": s(), "short_contigs": rng.choice([["chr1"], ["chr2"], ["chrZ"], ["chr1", "chr2"], ["chr2", "chr1", "chrQ"]]),
                        "genes": rng.random() < 0.5, "mode": rng.choice(["default", "high_memory"]), "threads": rng.choice([1, 2])})
        out.append({"what": "slash", "seed": s(), "contigs": ["HLA/A*01", "a/b/c"]})
    return out


def failure_of(spec, unit_only=False):
    if spec["what"] == "slash":
        return None if unit_only else slash_failure(spec)
    return corrector_failure(spec) or (None if unit_only else pipeline_failure(spec))


def oracle(ctx):
    for spec in specs(ctx):
        ctx.count("oracle_short:" + spec["what"])
        r = failure_of(spec)
        if r:
            ctx.fail(r[0], {"level": "short", "spec": spec}, r[1])


def replay(ctx, failure):
    return failure_of(failure["input"]["spec"]) is not None
