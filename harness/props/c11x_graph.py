"""C11 extension — intron collector / intron graph (Model/IntronGraph.lean, C04): translation of introns, reads and graph
vertices (terminal vertices `(negative code, position)` keep their code), reflection of the `add_edge` calls.
Theorems: lean/IsoVerif/Props/C11Graph.lean.  Real functions: src/intron_graph.py IntronCollector.collect_introns /
cluster_introns / process, IntronGraph.construct / add_edge / collapse_vertex / simplify / attach_terminal_positions (whole
`__init__`, traced), src/graph_based_model_construction.py IntronPathProcessor.thread_introns, IntronPathStorage.fill with
the real thread_ends / thread_starts (adapters of props/C04.py; model through the C04 driver ops)."""
import copy
import types
from collections import defaultdict

import vlib
from gen import c11gen as T
from gen import novel as GN
from props.c11ext import Rel

PROPS = ["IsoVerif/Props/C11Graph.lean"]
TARGETS = ["IsoVerif.Props.C11Graph"]

KS = [1, 255, 256, 1000, -7, -90]
TERMINAL_CODES = [-10, -11, -20, -21]


def _c04():
    from props import C04 as M
    return M


def _impl():
    return _c04()._impl()


# ------------------------------------------------------------------------------------------------
# transformations (Python twins of Model/C11SymGraph.lean)

def shift_iv(k, v):
    return [v[0] + k, v[1] + k]


def shift_v(k, v):
    """shiftV: intron vertices move as intervals, terminal vertices (negative code, position) keep the code"""
    return [v[0] + k, v[1] + k] if v[0] >= 0 else [v[0], v[1] + k]


def good_v(k, v):
    """GoodV: an intron vertex stays an intron vertex"""
    return v[0] < 0 or v[0] + k >= 0


def _map_read(f, k, r):
    e = dict(r)
    e["introns"] = [f(i) for i in r["introns"]]
    e["exons"] = [shift_iv(k, x) for x in r["exons"]]
    return e


def shift_read(k, r):
    return _map_read(lambda i: shift_iv(k, i), k, r)


def shift_read_v(k, r):
    return _map_read(lambda i: shift_v(k, i), k, r)


def map_collector(f, c):
    e = {"clustered": [[f(i), n] for i, n in c["clustered"]], "corr": [[f(a), f(b)] for a, b in c["corr"]],
         "discarded": [f(i) for i in c["discarded"]]}
    if "known" in c:
        e["known"] = [f(i) for i in c["known"]]
    return e


def map_graph(f, g):
    return {"col": map_collector(f, g["col"]), "out": [[f(a), f(b)] for a, b in g["out"]],
            "inc": [[f(a), f(b)] for a, b in g["inc"]]}


def map_ops(f, ops):
    return [[o[0]] + [f(x) for x in o[1:]] for o in ops]


def mirror_iv(L, v):
    return [L + 1 - v[1], L + 1 - v[0]]


def mirror_ops(L, ops):
    """mirrorOp: add_edge (a, b) -> add_edge (mirror b, mirror a); other operations vertex-wise"""
    return [[o[0], mirror_iv(L, o[2]), mirror_iv(L, o[1])] if o[0] == "add_edge" else [o[0]] + [mirror_iv(L, x) for x in o[1:]]
            for o in ops]


def flip_strand(s):
    return {"+": "-", "-": "+"}.get(s, s)


def mirror_read(L, r):
    e = dict(r)
    e["introns"] = [mirror_iv(L, i) for i in reversed(r["introns"])]
    e["exons"] = [mirror_iv(L, i) for i in reversed(r["exons"])]
    e["strand"] = flip_strand(r["strand"])
    e["polya"], e["polyt"] = r["polyt"], r["polya"]
    return e


def mirror_graph(L, g):
    f = lambda v: mirror_iv(L, v)
    return {"col": map_collector(f, g["col"]), "out": [[f(a), f(b)] for a, b in g["inc"]],
            "inc": [[f(a), f(b)] for a, b in g["out"]]}


def graph_verts_all(g):
    vs = []
    c = g["col"]
    vs += c.get("known", []) + [i for i, _ in c["clustered"]] + [x for p in c["corr"] for x in p] + c["discarded"]
    vs += [x for p in g["out"] + g["inc"] for x in p]
    return vs


def good_graph(k, g, obs, ops):
    return all(good_v(k, v) for v in graph_verts_all(g) + list(obs) + [x for o in ops for x in o[1:]])


# ------------------------------------------------------------------------------------------------
# canonical forms (sets come back in hash / insertion order)

def _srt(l):
    return sorted(vlib.canon(l))


def canon_collector(c):
    if vlib.is_err(c):
        return c
    return {"clustered": _srt(c["clustered"]), "corr": _srt(c["corr"]), "discarded": _srt(c["discarded"])}


def canon_graph(g):
    if vlib.is_err(g) or g is None:
        return g
    return {"col": canon_collector(g["col"]), "out": _srt(g["out"]), "inc": _srt(g["inc"])}


def canon_fill(v):
    if vlib.is_err(v):
        return v
    return {"paths": _srt(v["paths"]), "fl": _srt(v["fl"]), "to_reads": _srt(v["to_reads"])}


def _eq_by(canon):
    return lambda a, b: vlib.same(canon(a), canon(b))


# ------------------------------------------------------------------------------------------------
# adapters: the real code

def _fake_reads(reads):
    C = _c04()
    return [C.FakeRead(r) for r in reads]


def _real_collector(known, delta, state=None):
    """a real IntronCollector without a GeneInfo (only `gene_info.intron_profiles.features` is read by __init__)"""
    IG = _impl()[0]
    gi = types.SimpleNamespace(intron_profiles=types.SimpleNamespace(features=[tuple(i) for i in known]), start=0)
    col = IG.IntronCollector(gi, delta)
    if state is not None:
        col.clustered_introns = defaultdict(int, {tuple(i): n for i, n in state["clustered"]})
        col.intron_correction_map = {tuple(a): tuple(b) for a, b in state["corr"]}
        col.discarded_introns = set(tuple(i) for i in state["discarded"])
    return col, gi


def impl_collect_introns(kw):
    col, _ = _real_collector([], 0)
    res = col.collect_introns(_fake_reads(kw["reads"]))
    return sorted([list(k), v] for k, v in res.items())


def impl_cluster(kw):
    C = _c04()
    col, _ = _real_collector(kw["known"], kw["delta"])
    col.process(_fake_reads(kw["reads"]), kw["min_count"])
    return C.collector_snapshot(col)


def impl_cluster_counts(kw):
    C = _c04()
    col, _ = _real_collector(kw["col"]["known"], kw["delta"], kw["col"])
    col.cluster_introns({tuple(i): n for i, n in kw["all"]}, kw["min_count"])
    return C.collector_snapshot(col)


def _real_constructed(kw, log=None):
    """IntronGraph up to and including construct() (no simplify / attach), on a GeneInfo-free collector"""
    IG = _impl()[0]
    col, gi = _real_collector(kw["known"], kw["delta"])
    g = IG.IntronGraph.__new__(IG.IntronGraph)
    g.params = types.SimpleNamespace(debug=False, delta=kw["delta"], min_novel_intron_count=kw["min_count"])
    g.gene_info = gi
    g.read_assignments = _fake_reads(kw["reads"])
    g.incoming_edges = defaultdict(set)
    g.outgoing_edges = defaultdict(set)
    g.intron_collector = col
    g.max_coverage = 0
    g.edge_weights = defaultdict(int)
    if log is not None:
        orig = g.add_edge

        def add_edge(a, b):
            log.append(["add_edge", list(a), list(b)])
            return orig(a, b)
        g.add_edge = add_edge
    col.process(g.read_assignments, kw["min_count"])
    g.construct()
    return g


def impl_construct(kw):
    return _c04().snapshot(_real_constructed(kw))


def impl_read_edge_ops(kw):
    """the add_edge calls of IntronGraph.construct for one read, in call order"""
    log = []
    read = {"id": "r", "introns": kw["introns"], "exons": [], "mm": False, "strand": "+", "polya": False, "polyt": False,
            "group": ""}
    _real_constructed({"known": [list(i) for i in kw["introns"]], "delta": 0, "min_count": 1, "reads": [read]}, log)
    return log


def _state_of(g):
    col = g["col"]
    clustered = {tuple(i): n for i, n in col["clustered"]}
    corr = {tuple(a): tuple(b) for a, b in col["corr"]}
    discarded = set(tuple(i) for i in col["discarded"])
    out = set((tuple(a), tuple(b)) for a, b in g["out"])
    inc = set((tuple(a), tuple(b)) for a, b in g["inc"])
    return (None, clustered, corr, discarded, out, inc)


def impl_graph_ops(kw):
    C = _c04()
    return C.apply_real_ops(_impl()[0], _state_of(kw["graph"]), kw["ops"])


def impl_add_edge(kw):
    C = _c04()
    return C.apply_real_ops(_impl()[0], _state_of(kw["graph"]), [["add_edge", kw["a"], kw["b"]]])


def _real_graph(kw):
    """the whole real IntronGraph.__init__ (traced) for a C04 graph case; -> (graph, reads) or an error value"""
    C = _c04()
    try:
        g, gi, reads = C.real_graph_from_kw(kw)
    except C.Hang:
        return {"error": "error", "exc": "hang"}
    except (KeyError, AssertionError, IndexError, ValueError, ZeroDivisionError) as ex:
        return {"error": "error", "exc": type(ex).__name__}
    return g, reads


def impl_graph_run(kw):
    r = _real_graph(kw)
    if isinstance(r, dict):
        return r
    return _c04().snapshot(r[0])


def _path_processor(kw, g):
    C = _c04()
    GB = _impl()[1]
    params = C.graph_params(kw["_p"])
    params.requires_polya_for_construction = kw.get("requires_polya", False)
    return GB, params, GB.IntronPathProcessor(params, g)


def real_fill(kw, record=None):
    """IntronPathStorage.fill on the real graph with the real thread_ends / thread_starts"""
    r = _real_graph(kw)
    if isinstance(r, dict):
        return r
    g, reads = r
    GB, params, pp = _path_processor(kw, g)
    if record is not None:
        oe, os_ = pp.thread_ends, pp.thread_starts

        def te(intron, pos, trusted=False):
            v = oe(intron, pos, trusted)
            record["ends"].append([[list(intron), pos, bool(trusted)], None if v is None else list(v)])
            return v

        def ts(intron, pos, trusted=False):
            v = os_(intron, pos, trusted)
            record["starts"].append([[list(intron), pos, bool(trusted)], None if v is None else list(v)])
            return v
        pp.thread_ends, pp.thread_starts = te, ts
    st = GB.IntronPathStorage(params, pp)
    try:
        st.fill(reads)
    except IndexError:
        return {"error": "error", "exc": "IndexError"}
    return {"paths": [[[list(v) for v in k], c] for k, c in st.paths.items()],
            "fl": [[list(v) for v in k] for k in st.fl_paths],
            "to_reads": [[[list(v) for v in k], [a.read_id for a in rs]] for k, rs in st.paths_to_reads.items()]}


def impl_thread_introns(kw):
    IG, GB = _impl()[0], _impl()[1]
    col, _ = _real_collector(kw["col"].get("known", []), 0, kw["col"])
    pp = GB.IntronPathProcessor.__new__(GB.IntronPathProcessor)
    pp.intron_graph = types.SimpleNamespace(intron_collector=col)
    v = pp.thread_introns([tuple(i) for i in kw["introns"]])
    return None if v is None else [list(x) for x in v]


# ------------------------------------------------------------------------------------------------
# input transformations of the composite cases

def _shift_base(k, kw):
    """a C04 graph case (props/C04.graph_case_kw) shifted by k"""
    e = dict(kw)
    e["known"] = [shift_iv(k, i) for i in kw["known"]]
    e["reads"] = [shift_read(k, r) for r in kw["reads"]]
    e["_iso"] = [[tid, st, [shift_iv(k, x) for x in ex]] for tid, st, ex in kw["_iso"]]
    e["_known_only"] = [shift_iv(k, i) for i in kw["_known_only"]]
    e["_all_iso"] = [[shift_iv(k, x) for x in ex] for ex in kw["_all_iso"]]
    return e


def _shift_run(par, kw):
    k = par["k"]
    e = _shift_base(k, kw)
    e["ops"] = map_ops(lambda v: shift_v(k, v), kw["ops"])
    return e


def _shift_table(k, tbl):
    return [[[shift_v(k, key[0]), key[1] + k, key[2]], None if v is None else shift_v(k, v)] for key, v in tbl]


def _shift_fill(par, kw):
    k = par["k"]
    e = _shift_base(k, kw)
    e["graph"] = map_graph(lambda v: shift_v(k, v), kw["graph"])
    e["ends"] = _shift_table(k, kw["ends"])
    e["starts"] = _shift_table(k, kw["starts"])
    return e


def _shift_fill_out(par, kw, v):
    f = lambda x: shift_v(par["k"], x)
    return {"paths": [[[f(x) for x in p], c] for p, c in v["paths"]], "fl": [[f(x) for x in p] for p in v["fl"]],
            "to_reads": [[[f(x) for x in p], rs] for p, rs in v["to_reads"]]}


def _fill_req(kw):
    return vlib.req("C04.fill", graph=kw["graph"], reads=kw["reads"], requires_polya=kw["requires_polya"],
                    ends=kw["ends"], starts=kw["starts"])


def _run_req(kw):
    return vlib.req("C04.graph_run", known=kw["known"], delta=kw["delta"], reads=kw["reads"], min_count=kw["min_count"],
                    ops=kw["ops"])


def _base_req(op):
    return lambda kw: vlib.req(op, known=kw["known"], delta=kw["delta"], reads=kw["reads"], min_count=kw["min_count"])


def _valid_coords(k, kw):
    """genomic coordinates stay positive (the FakeRead adapter stores read start / end as polyT / polyA positions, whose
    absent value is -1; a real chromosome has no position below 1)"""
    return all(x[0] >= 1 and x[0] + k >= 1 for r in kw["reads"] for x in r["exons"])


def _dom_run(par, kw):
    k = par["k"]
    if not _valid_coords(k, kw):
        return False
    vs = [i for r in kw["reads"] for i in r["introns"]] + kw["known"] + [x for o in kw["ops"] for x in o[1:]]
    return all(good_v(k, v) for v in vs)


def _dom_fill(par, kw):
    k = par["k"]
    if not _valid_coords(k, kw):
        return False
    vs = [i for r in kw["reads"] for i in r["introns"]] + graph_verts_all(kw["graph"])
    vs += [key[0] for key, _ in kw["ends"] + kw["starts"]] + [v for _, v in kw["ends"] + kw["starts"] if v is not None]
    return all(good_v(k, v) for v in vs)


# `applyOp_kind_collision_witness`: the intron (0, 5) shifted by -1 collides with the terminal vertex (-1, 5)
OPS_WITNESS = {"graph": {"col": {"known": [], "clustered": [], "corr": [], "discarded": []},
                         "out": [[[0, 5], [3, 9]], [[-1, 5], [7, 7]]], "inc": []}, "obs": [], "ops": [["del_out", [0, 5]]]}
# `collector_mirror_tie_witness`
_WR = lambda rid, i: {"id": rid, "introns": [i], "exons": [], "mm": False, "strand": "+", "polya": False, "polyt": False, "group": ""}
MIRROR_WITNESS = {"known": [[10, 28], [12, 30]], "delta": 2, "min_count": 2,
                  "reads": [_WR("r1", [10, 28]), _WR("r2", [12, 30]), _WR("r3", [11, 29])]}


def _dom_ops(par, kw):
    k = par["k"]
    if good_graph(k, kw["graph"], kw["obs"], kw["ops"]):
        return True
    return "witness" if (k == -1 and vlib.canon(kw) == vlib.canon(OPS_WITNESS)) else False


def _shift_key_counts(k, v):
    return [[shift_iv(k, i), n] for i, n in v]


RELS = [
    Rel("S.graph_collect_introns", "shift_equivariant_collectIntrons",
        model=lambda kw: vlib.req("C04.collect_introns", reads=kw["reads"]), impl=impl_collect_introns,
        tin=lambda par, kw: {"reads": [shift_read(par["k"], r) for r in kw["reads"]]},
        tout=lambda par, kw, v: _shift_key_counts(par["k"], v), eq=_eq_by(lambda v: v if vlib.is_err(v) else _srt(v)),
        nontrivial=lambda kw, v: not vlib.is_err(v) and len(v) > 1),
    Rel("S.graph_cluster", "shift_equivariant_collectorProcess",
        model=_base_req("C04.cluster"), impl=impl_cluster,
        tin=lambda par, kw: dict(kw, known=[shift_iv(par["k"], i) for i in kw["known"]],
                                 reads=[shift_read(par["k"], r) for r in kw["reads"]]),
        tout=lambda par, kw, v: map_collector(lambda i: shift_iv(par["k"], i), v), eq=_eq_by(canon_collector),
        nontrivial=lambda kw, v: not vlib.is_err(v) and bool(v["clustered"]) and bool(v["corr"] or v["discarded"])),
    Rel("S.graph_cluster_counts", "shift_equivariant_clusterIntrons",
        model=lambda kw: vlib.req("C04.cluster_counts", col=kw["col"], all=kw["all"], delta=kw["delta"], min_count=kw["min_count"]),
        impl=impl_cluster_counts,
        tin=lambda par, kw: dict(kw, col=map_collector(lambda i: shift_iv(par["k"], i), kw["col"]),
                                 all=_shift_key_counts(par["k"], kw["all"])),
        tout=lambda par, kw, v: map_collector(lambda i: shift_iv(par["k"], i), v), eq=_eq_by(canon_collector),
        nontrivial=lambda kw, v: not vlib.is_err(v) and bool(v["corr"])),
    Rel("S.graph_construct", "shift_equivariant_constructed",
        model=_base_req("C04.construct"), impl=impl_construct,
        tin=lambda par, kw: dict(kw, known=[shift_iv(par["k"], i) for i in kw["known"]],
                                 reads=[shift_read(par["k"], r) for r in kw["reads"]]),
        tout=lambda par, kw, v: map_graph(lambda i: shift_iv(par["k"], i), v), eq=_eq_by(canon_graph),
        nontrivial=lambda kw, v: not vlib.is_err(v) and bool(v["out"])),
    Rel("S.graph_ops", "shift_equivariant_runOps / shift_equivariant_applyOp / applyOp_kind_collision_witness",
        model=lambda kw: vlib.req("C04.graph_ops", **kw), impl=impl_graph_ops,
        tin=lambda par, kw: {"graph": map_graph(lambda v: shift_v(par["k"], v), kw["graph"]),
                             "obs": [shift_v(par["k"], v) for v in kw["obs"]],
                             "ops": map_ops(lambda v: shift_v(par["k"], v), kw["ops"])},
        tout=lambda par, kw, v: map_graph(lambda x: shift_v(par["k"], x), v), domain=_dom_ops, eq=_eq_by(canon_graph)),
    Rel("S.graph_run", "shift_equivariant_constructed + shift_equivariant_runOps",
        model=_run_req, impl=impl_graph_run, tin=_shift_run,
        tout=lambda par, kw, v: map_graph(lambda x: shift_v(par["k"], x), v), domain=_dom_run, eq=_eq_by(canon_graph),
        nontrivial=lambda kw, v: not vlib.is_err(v) and len(kw["ops"]) > 0),
    Rel("S.graph_thread_introns", "shift_equivariant_threadIntrons",
        model=lambda kw: vlib.req("C04.thread_introns", **kw), impl=impl_thread_introns,
        tin=lambda par, kw: {"col": map_collector(lambda i: shift_iv(par["k"], i), kw["col"]),
                             "introns": [shift_iv(par["k"], i) for i in kw["introns"]]},
        tout=lambda par, kw, v: None if v is None else [shift_iv(par["k"], i) for i in v],
        nontrivial=lambda kw, v: bool(v)),
    Rel("S.graph_fill", "shift_equivariant_fillPaths",
        model=_fill_req, impl=real_fill, tin=_shift_fill, tout=_shift_fill_out, domain=_dom_fill, eq=_eq_by(canon_fill),
        nontrivial=lambda kw, v: not vlib.is_err(v) and bool(v["fl"])),
    Rel("M.graph_read_edge_ops", "mirror_dual_readEdgeOps",
        model=lambda kw: vlib.req("C11.X.read_edge_ops", introns=kw["introns"]), impl=impl_read_edge_ops,
        tin=lambda par, kw: {"introns": [mirror_iv(par["L"], i) for i in reversed(kw["introns"])]},
        tout=lambda par, kw, v: list(reversed(mirror_ops(par["L"], v))),
        nontrivial=lambda kw, v: not vlib.is_err(v) and len(v) > 1),
    Rel("M.graph_collect_introns", "mirror_dual_collectIntrons_counts",
        model=lambda kw: vlib.req("C04.collect_introns", reads=kw["reads"]), impl=impl_collect_introns,
        tin=lambda par, kw: {"reads": [mirror_read(par["L"], r) for r in kw["reads"]]},
        tout=lambda par, kw, v: [[mirror_iv(par["L"], i), n] for i, n in v],
        eq=_eq_by(lambda v: v if vlib.is_err(v) else _srt(v)),
        nontrivial=lambda kw, v: not vlib.is_err(v) and len(v) > 1),
    Rel("M.graph_thread_introns", "mirror_dual_threadIntrons",
        model=lambda kw: vlib.req("C04.thread_introns", **kw), impl=impl_thread_introns,
        tin=lambda par, kw: {"col": map_collector(lambda i: mirror_iv(par["L"], i), kw["col"]),
                             "introns": [mirror_iv(par["L"], i) for i in reversed(kw["introns"])]},
        tout=lambda par, kw, v: None if v is None else [mirror_iv(par["L"], i) for i in reversed(v)],
        nontrivial=lambda kw, v: bool(v) and len(v) > 1),
    Rel("M.graph_add_edge", "mirror_dual_addEdge",
        model=lambda kw: vlib.req("C11.X.add_edge", **kw), impl=impl_add_edge,
        tin=lambda par, kw: {"graph": mirror_graph(par["L"], kw["graph"]), "a": mirror_iv(par["L"], kw["b"]),
                             "b": mirror_iv(par["L"], kw["a"])},
        tout=lambda par, kw, v: mirror_graph(par["L"], v), eq=_eq_by(canon_graph)),
    # NOT a theorem: the collector is not mirror-dual on ties (`collector_mirror_tie_witness`); evaluated on the witness only
    Rel("M.graph_cluster", "collector_mirror_tie_witness",
        model=_base_req("C04.cluster"), impl=impl_cluster,
        tin=lambda par, kw: dict(kw, known=[mirror_iv(par["L"], i) for i in reversed(kw["known"])],
                                 reads=[mirror_read(par["L"], r) for r in kw["reads"]]),
        tout=lambda par, kw, v: map_collector(lambda i: mirror_iv(par["L"], i), v), eq=_eq_by(canon_collector),
        domain=lambda par, kw: "witness" if (par["L"] == 100 and vlib.canon(kw) == vlib.canon(MIRROR_WITNESS)) else False),
]


# ------------------------------------------------------------------------------------------------
# generators

POOL_SMALL = [(10, 20), (10, 22), (12, 20), (30, 40), (30, 42), (33, 40), (50, 60), (52, 61), (70, 80)]


def _pool(rng):
    if rng.random() < 0.5:
        return list(POOL_SMALL)
    base = rng.choice([100, 1000, 24000])
    return [(a + base, b + base) for a, b in POOL_SMALL]


def rand_state_and_ops(rng):
    """an arbitrary collector / graph state (with terminal vertices) and a scoped history, as C04.corr_graph_histories"""
    pool = _pool(rng)
    vs = rng.sample(pool, rng.randint(2, len(pool)))
    clustered = {v: rng.randint(0, 9) for v in vs}
    corr = {}
    for v in vs:
        if rng.random() < 0.25:
            w = rng.choice(vs)
            if w != v:
                corr[v] = w
    discarded = {v for v in vs if rng.random() < 0.15}
    out, inc = set(), set()
    for _ in range(rng.randint(0, 8)):
        a, b = rng.sample(vs, 2)
        if a > b:
            a, b = b, a
        out.add((a, b))
        if rng.random() < 0.9:
            inc.add((b, a))
    lo, hi = min(v[0] for v in pool), max(v[1] for v in pool)
    for _ in range(rng.randint(0, 3)):
        t = (rng.choice(TERMINAL_CODES), rng.randint(lo, hi + 60))
        (out if t[0] in (-10, -11) else inc).add((rng.choice(vs), t))
    obs = sorted(set(vs) | set(rng.sample(pool, 2)))
    ops = []
    for _k in range(rng.randint(1, 7)):
        r = rng.random()
        v, w = rng.choice(vs), rng.choice(vs)
        if r < 0.2:
            ops.append(["add_edge", list(rng.choice(obs)), list(rng.choice(obs))])
        elif r < 0.45:
            if v != w:
                ops.append(["collapse", list(v), list(w)])
        elif r < 0.55:
            ops.append([rng.choice(["del_vertex", "del_out", "del_inc"]), list(v)])
        elif r < 0.65:
            ops.append(["discard", list(v)])
        elif r < 0.72:
            ops.append(["touch", list(v)])
        elif r < 0.85:
            ops.append(["simplify_map"])
        else:
            ops.append([rng.choice(["attach_out", "attach_inc"]), list(v), [rng.choice(TERMINAL_CODES), rng.randint(lo, hi + 60)]])
    gj = {"col": {"known": [], "clustered": sorted([list(k), c] for k, c in clustered.items()),
                  "corr": sorted([list(k), list(x)] for k, x in corr.items()),
                  "discarded": sorted(list(k) for k in discarded)},
          "out": sorted([list(a), list(b)] for a, b in out), "inc": sorted([list(a), list(b)] for a, b in inc)}
    return {"graph": gj, "obs": [list(o) for o in obs], "ops": ops}


def small_cluster_universe(rng, n):
    """collector inputs over a small lattice of near-identical introns: ties in counts and in similarity everywhere"""
    out = []
    sites = [(10, 28), (12, 30), (11, 29), (10, 30), (12, 28), (40, 60), (41, 61), (43, 58)]
    for _ in range(n):
        delta = rng.choice([0, 1, 2, 3])
        chosen = rng.sample(sites, rng.randint(2, 6))
        reads = []
        for j, i in enumerate(chosen):
            for c in range(rng.choice([1, 1, 2, 3])):
                intr = [list(i)]
                if i[1] < 35 and rng.random() < 0.5:
                    intr.append(list(rng.choice(sites[5:])))
                reads.append({"id": "u%d_%d" % (j, c), "introns": intr, "exons": [], "mm": rng.random() < 0.1, "strand": "+",
                              "polya": False, "polyt": False, "group": ""})
        known = [list(i) for i in chosen if rng.random() < 0.3]
        out.append({"known": sorted(known), "delta": delta, "reads": reads, "min_count": rng.choice([1, 2, 3])})
    return out


def graph_run_cases(ctx, n):
    """C04's graph cases, run on the real code once to obtain the traced history, the final state and the answers of the
    real thread functions; -> (run cases, fill cases, thread cases)"""
    C = _c04()
    rng = ctx.rng
    runs, fills, threads = [], [], []
    for locus in C.gen_loci(ctx, n):
        base = C.graph_case_kw(rng, locus)
        r = _real_graph(base)
        if isinstance(r, dict):
            ctx.count("c11x_graph:real_graph_error")
            continue
        g, reads = r
        snap = C.snapshot(g)
        runs.append(dict(base, ops=copy.deepcopy(g._log)))
        colj = dict(snap["col"], known=base["known"])
        req = rng.random() < 0.5
        rec = {"ends": [], "starts": []}
        kwf = dict(base, requires_polya=req)
        fv = real_fill(kwf, rec)
        if not vlib.is_err(fv):
            fills.append(dict(kwf, graph=dict(snap, col=colj), ends=rec["ends"], starts=rec["starts"]))
        for rd in base["reads"][:4]:
            if not rd["mm"]:
                threads.append({"col": colj, "introns": rd["introns"]})
        for ex in base["_all_iso"][:2]:
            threads.append({"col": colj, "introns": [list(i) for i in GN.introns_of([tuple(e) for e in ex])]})
    return runs, fills, threads


def cases(ctx):
    rng = ctx.rng
    quick = ctx.tier == "quick"
    C = _c04()
    out = []
    # 1. collector / construction over introns only (every k, negative coordinates included)
    bases = small_cluster_universe(rng, 400 if quick else 4000)
    for locus in C.gen_loci(ctx, 80 if quick else 800):
        b = C.graph_case_kw(rng, locus)
        bases.append({"known": b["known"], "delta": b["delta"], "reads": b["reads"], "min_count": b["min_count"]})
    for b in bases:
        k = rng.choice(KS + [-1000, 4099])
        out.append(("S.graph_collect_introns", {"k": k}, {"reads": b["reads"]}))
        out.append(("M.graph_collect_introns", {"L": rng.choice([100, 70000])}, {"reads": b["reads"]}))
        out.append(("S.graph_cluster", {"k": k}, b))
        out.append(("S.graph_construct", {"k": k}, b))
        # cluster_introns from an arbitrary earlier state of the same collector
        allc = {}
        for r in b["reads"]:
            if not r["mm"]:
                for i in r["introns"]:
                    allc[tuple(i)] = allc.get(tuple(i), 0) + rng.choice([1, 1, 2])
        pre = [list(i) for i in allc if rng.random() < 0.2]
        col = {"known": b["known"], "clustered": [[i, rng.randint(1, 4)] for i in pre], "corr": [], "discarded": []}
        out.append(("S.graph_cluster_counts", {"k": k},
                    {"col": col, "all": sorted([list(i), n] for i, n in allc.items()), "delta": b["delta"], "min_count": b["min_count"]}))
    # 2. arbitrary histories on arbitrary states with terminal vertices
    for _ in range(900 if quick else 9000):
        kw = rand_state_and_ops(rng)
        out.append(("S.graph_ops", {"k": rng.choice(KS + [-9, -10, -11, 4099])}, kw))
    out.append(("S.graph_ops", {"k": -1}, copy.deepcopy(OPS_WITNESS)))
    # 3. the whole real IntronGraph constructor with its traced history; fill with the real thread functions
    runs, fills, threads = graph_run_cases(ctx, 40 if quick else 400)
    for kw in runs:
        out.append(("S.graph_run", {"k": rng.choice(KS[:5] + [-3, 2048, 4099])}, kw))
    for kw in fills:
        out.append(("S.graph_fill", {"k": rng.choice(KS[:5] + [-3, 13, 100, 2048])}, kw))
    for kw in threads:
        out.append(("S.graph_thread_introns", {"k": rng.choice(KS)}, kw))
        out.append(("M.graph_thread_introns", {"L": rng.choice([60000, 100000])}, kw))
    # 4. reflection
    for _ in range(150 if quick else 1500):
        n = rng.randint(0, 6)
        pts = sorted(rng.sample(range(10, 400), 2 * n))
        introns = [[pts[2 * i], pts[2 * i + 1]] for i in range(n)]
        out.append(("M.graph_read_edge_ops", {"L": rng.choice([400, 1000])}, {"introns": introns}))
    for _ in range(200 if quick else 2000):
        st = rand_state_and_ops(rng)
        a, b = rng.choice(st["obs"]), rng.choice(st["obs"])
        out.append(("M.graph_add_edge", {"L": 30000}, {"graph": st["graph"], "a": a, "b": b}))
    out.append(("M.graph_cluster", {"L": 100}, copy.deepcopy(MIRROR_WITNESS)))
    ctx.extra["c11x_graph"] = {"cluster_inputs": len(bases), "graph_runs": len(runs), "fills": len(fills),
                               "thread_cases": len(threads), "shifts": KS}
    return out


# ------------------------------------------------------------------------------------------------
# the model's transformations are the harness's

def transformation_checks(ctx):
    rng = ctx.rng
    lines, exp = [], []
    for _ in range(30):
        k = rng.choice(KS + [-9, -11, -30])
        L = rng.choice([100, 1000, 30000])
        st = rand_state_and_ops(rng)
        g, obs, ops = st["graph"], st["obs"], st["ops"]
        vs = graph_verts_all(g) + [[-10, 5], [0, 3], [-1, 7]]
        reads = [{"id": "r%d" % j, "introns": [list(v) for v in rng.sample(obs, min(len(obs), 2))], "exons": [[5, 9], [30, 44]],
                  "mm": rng.random() < 0.3, "strand": rng.choice("+-."), "polya": rng.random() < 0.5, "polyt": rng.random() < 0.5,
                  "group": "g"} for j in range(2)]
        lines += [vlib.req("C11.T.shift_v", k=k, l=vs), vlib.req("C11.T.good_v", k=k, l=vs),
                  vlib.req("C11.T.shift_reads", k=k, reads=reads), vlib.req("C11.T.shift_reads_v", k=k, reads=reads),
                  vlib.req("C11.T.shift_collector", k=k, col=g["col"]), vlib.req("C11.T.shift_graph", k=k, graph=g),
                  vlib.req("C11.T.shift_graph_v", k=k, graph=g), vlib.req("C11.T.shift_ops_v", k=k, ops=ops),
                  vlib.req("C11.T.good_graph", k=k, graph=g, obs=obs, ops=ops),
                  vlib.req("C11.T.mirror_ops", L=L, ops=ops), vlib.req("C11.T.mirror_reads", L=L, reads=reads),
                  vlib.req("C11.T.mirror_graph", L=L, graph=g), vlib.req("C11.T.mirror_collector", L=L, col=g["col"])]
        exp += [[shift_v(k, v) for v in vs], [good_v(k, v) for v in vs], [shift_read(k, r) for r in reads],
                [shift_read_v(k, r) for r in reads], map_collector(lambda i: shift_iv(k, i), g["col"]),
                map_graph(lambda i: shift_iv(k, i), g), map_graph(lambda v: shift_v(k, v), g),
                map_ops(lambda v: shift_v(k, v), ops), good_graph(k, g, obs, ops), mirror_ops(L, ops),
                [mirror_read(L, r) for r in reads], mirror_graph(L, g), map_collector(lambda i: mirror_iv(L, i), g["col"])]
    outs = ctx.driver.run(lines)
    for ln, mo, io in zip(lines, outs, exp):
        ctx.evaluations += 1
        op = ln.split(" ", 1)[0]
        ctx.count("op:" + op[4:])
        ctx.traces_validated += 1
        if mo != vlib.canon(io):
            ctx.disagree(op[4:], ln.split(" ", 1)[1][:400], mo, vlib.canon(io))
        else:
            ctx.mark_nontrivial([op, ln])
