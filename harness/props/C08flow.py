"""C08 — the flow around the resolver, on the real code.

In-process (real functions, fake inputs):
  * `DatasetProcessor.collect_reads` with `collect_reads_in_parallel` / `BasicReadAssignmentLoader` replaced by stubs
    that replay a generated record stream: exercises the in-memory list building of `--high_memory`, the
    `prepare_multimapper_dict` path, `resolve_multimappers` and the verdict files, which are read back the way
    `construct_models_in_parallel` reads them;
  * `ReadAssignmentLoader.get_next` on a stub unpickler;
  * `IntronCollector.collect_introns` / `IntronGraph.construct`.
Through the real pipeline (harness/pipeline.py, synthetic multi-chromosome BAMs of harness/gen/multimap_synth.py):
  * the verdict files of both memory modes against the model's prediction from the dump files;
  * the property itself on the outputs: retained alignments = what the statement demands given the assigner's own
    classification of every alignment (taken from a run where every alignment record is a read of its own), losers
    absent from read_assignments.tsv / BED / transcript_model_reads / counts, both modes byte-identical, other
    chromosome / file orders retain the same alignments, contribution to the count tables.
"""
import collections
import os
import shutil
import types as _types

import vlib
from gen import resolver as G

PIPE_KINDS = ("pipeline:priority", "pipeline:loser_visible", "pipeline:memory_modes_differ", "pipeline:order_dependent",
              "pipeline:read_total_gt_one", "pipeline:run_failed", "pipeline:ties_not_flagged")


def _mods():
    vlib.repo_on_path()
    import logging
    logging.getLogger("IsoQuant").setLevel(logging.CRITICAL)
    import src.dataset_processor as DP
    import src.isoform_assignment as IA
    import src.multimap_resolver as MR
    import src.serialization as SER
    import src.intron_graph as IG
    import src.stats as ST
    return DP, IA, MR, SER, IG, ST


# ------------------------------------------------------------------------------------------------
# in-process: collect_reads with stubs

def read_verdict_file(path, chr_name):
    """the loop at the top of construct_models_in_parallel"""
    DP, IA, MR, SER, IG, ST = _mods()
    res = collections.OrderedDict()
    with open(path, "rb") as f:
        n = SER.read_int(f)
        while n != SER.TERMINATION_INT:
            for _ in range(n):
                a = IA.BasicReadAssignment.deserialize(f)
                if a.chr_id == chr_name:
                    res.setdefault(a.read_id, []).append(a)
            n = SER.read_int(f)
    return res


def real_collect(records, chr_lengths, high_memory, strategy="take_best", pickled=False, stale=None):
    """run the real DatasetProcessor.collect_reads on a record stream; records: numeric dicts grouped per chromosome in
    the order given (stream order within a chromosome).  Returns {chr number: [(read, [rec dicts])]} or an error.
    stale: the output folder was USED by an earlier run whose verdict files `<save>_multimappers_<chr>` survived (it ran
    with --keep_tmp or was killed; the new run is a fresh run into the same folder, e.g. with --force): 'empty' = that run
    resolved no multimapper (its files hold the terminator only), 'records' = its files hold a list with the first record
    of the chromosome marked suspended and the terminator.  A fresh run must write the same verdicts (seed C08_a4)."""
    DP, IA, MR, SER, IG, ST = _mods()
    d = vlib.scratch_dir("isoverif_c08flow_")
    try:
        by_chr = collections.OrderedDict()
        for c in chr_lengths:
            by_chr[G.name_chr(c)] = []
        for r in records:
            by_chr[G.name_chr(r["chr"])].append(r)
        out_raw = os.path.join(d, "s.save")
        sample = _types.SimpleNamespace(out_raw_file=out_raw, file_list=[], prefix="s")
        dp = DP.DatasetProcessor.__new__(DP.DatasetProcessor)
        dp.args = _types.SimpleNamespace(resume=False, threads=1, high_memory=high_memory, keep_tmp=True, read_group=None,
                                         gunzipped_reference=None,
                                         multimap_strategy=MR.MultimapResolvingStrategy[strategy])
        dp.reference_record_dict = {G.name_chr(c): "A" * ln for c, ln in chr_lengths.items()}
        dp.alignment_stat_counter = ST.EnumStats()
        dp.gffutils_db = None           # read by warn_about_skipped_sequences (fix b09aace)

        def fake_collect(sample_, chr_id, args_):
            objs = [G.to_basic(r) for r in by_chr[chr_id]]
            pr = objs if args_.high_memory else [o.read_id for o in objs]
            res = (set(), ST.EnumStats(), pr)
            if pickled:       # what ProcessPoolExecutor does to a worker's result when threads > 1
                import pickle
                res = pickle.loads(pickle.dumps(res))
            return res

        class FakeLoader:
            def __init__(self, fname):
                chr_id = fname[len(out_raw) + 1:]
                self.objs = [G.to_basic(r) for r in by_chr[chr_id]]
                self.done = False

            def has_next(self):
                return not self.done

            def get_next(self):
                self.done = True
                for o in self.objs:
                    yield o

        if stale:
            for c in chr_lengths:
                with open(out_raw + "_multimappers_" + G.name_chr(c), "wb") as f:
                    if stale == "records" and by_chr[G.name_chr(c)]:
                        old = G.to_basic(by_chr[G.name_chr(c)][0])
                        old.assignment_type = IA.ReadAssignmentType.suspended
                        SER.write_list([old], f, IA.BasicReadAssignment.serialize)
                    SER.write_int(SER.TERMINATION_INT, f)
        saved = (DP.collect_reads_in_parallel, DP.BasicReadAssignmentLoader)
        DP.collect_reads_in_parallel = fake_collect
        DP.BasicReadAssignmentLoader = FakeLoader
        try:
            dp.collect_reads(sample)
        except (TypeError, AssertionError, IndexError, KeyError) as ex:
            return {"error": "error", "exc": type(ex).__name__}
        finally:
            DP.collect_reads_in_parallel, DP.BasicReadAssignmentLoader = saved
        res = {}
        for c in chr_lengths:
            vf = read_verdict_file(out_raw + "_multimappers_" + G.name_chr(c), G.name_chr(c))
            res[str(c)] = [[G.num(rid), [G.from_basic(a) for a in lst]] for rid, lst in vf.items()]
        return res
    finally:
        shutil.rmtree(d, ignore_errors=True)


def chr_order(chr_lengths):
    """DatasetProcessor.get_chr_list: decreasing length, ties in dict order"""
    return sorted(chr_lengths.keys(), key=lambda c: chr_lengths[c], reverse=True)


def stream_in_processing_order(records, chr_lengths):
    res = []
    for c in chr_order(chr_lengths):
        res += [r for r in records if r["chr"] == c]
    return res


def model_verdicts(ctx, records, chr_lengths, high_memory, strategy="take_best", pickled=False):
    """the model's prediction of the verdict files for a record stream"""
    stream = stream_in_processing_order(records, chr_lengths)
    out = ctx.driver.run([vlib.req("C08.group", records=stream, strategy=strategy, high_memory=high_memory,
                                   pickled=pickled)])[0]
    if isinstance(out, dict):
        return out
    if any(vlib.is_err(kv[1]) for kv in out):
        return {"error": "error"}
    reqs = [vlib.req("C08.verdicts_for", chr=c, resolved=out) for c in chr_lengths]
    vs = ctx.driver.run(reqs)
    return {str(c): v for c, v in zip(chr_lengths, vs)}


def gen_stream(rng, n_reads, n_chroms=3):
    """records of several reads spread over chromosomes (ids unique per stream)"""
    recs = []
    aid = 0
    for read in range(n_reads):
        n = rng.choice([1, 1, 2, 2, 3, 4])
        lst = G.rand_list(rng, n, G.TYPES, dup_rate=0.25)
        for r in lst:
            aid += 1
            r["aid"] = aid
            r["read"] = read
            r["chr"] = r["chr"] % n_chroms
            r["pen"] = abs(r["pen"])        # the verdict files hold unsigned penalties (serialisation is C15's subject)
        recs += lst
    rng.shuffle(recs)
    return recs


# ------------------------------------------------------------------------------------------------
# in-process: loader and graph input

class FakeUnpickler:
    # /repo fix f48e223: ReadAssignmentLoader.get_next reads `unpickler.chr_record` (reference window widening); the stub
    # has no reference, which makes that step a no-op
    chr_record = None

    def __init__(self, items):
        self.items = list(items)      # ("gene", obj) / ("read", obj)
        self.i = 0
        # as NormalTmpFileAssignmentLoader without a reference: ReadAssignmentLoader.get_next reads it (fix f48e223)
        self.chr_record = None

    def has_next(self):
        return self.i < len(self.items)

    def is_gene_info(self):
        return self.has_next() and self.items[self.i][0] == "gene"

    def is_read_assignment(self):
        return self.has_next() and self.items[self.i][0] == "read"

    def get_object(self):
        o = self.items[self.i][1]
        self.i += 1
        return o


def full_to_obj(f):
    DP, IA, MR, SER, IG, ST = _mods()
    introns = [tuple(i) for i in f["introns"]]
    return _types.SimpleNamespace(assignment_id=f["aid"], read_id=G.name_read(f["read"]), chr_id=G.name_chr(f["chr"]),
                                  assignment_type=IA.ReadAssignmentType[f["atype"]],
                                  gene_assignment_type=IA.ReadAssignmentType[f["gtype"]],
                                  multimapper=f["mm"], corrected_introns=introns,
                                  isoforms=[G.name_iso(i) for i in f["iso"]])


def obj_to_full(o):
    return {"aid": o.assignment_id, "read": G.num(o.read_id), "chr": G.num(o.chr_id), "atype": o.assignment_type.name,
            "gtype": o.gene_assignment_type.name, "mm": bool(o.multimapper), "introns": [list(i) for i in o.corrected_introns],
            "iso": [G.num(i) for i in o.isoforms]}


def real_load(dict_, ras):
    DP, IA, MR, SER, IG, ST = _mods()
    loader = DP.ReadAssignmentLoader.__new__(DP.ReadAssignmentLoader)
    loader.save_file_name = "stub"
    loader.unpickler = FakeUnpickler([("gene", "GENE")] + [("read", full_to_obj(f)) for f in ras])
    loader.multimapped_chr_dict = {G.name_read(k): [G.to_basic(r) for r in v] for k, v in dict_}
    try:
        gene, storage = loader.get_next()
    except AttributeError as ex:      # the "Duplicate read" log line reads a.gene_id, which BasicReadAssignment lacks
        return {"error": "error", "exc": "AttributeError"}
    assert gene == "GENE"
    return [obj_to_full(o) for o in storage]


def real_collect_introns(storage):
    DP, IA, MR, SER, IG, ST = _mods()
    res = IG.IntronCollector.collect_introns(None, [full_to_obj(f) for f in storage])
    out = []
    for k in sorted(res):
        out += [list(k)] * res[k]
    return out


def real_graph_edges(discarded, storage):
    DP, IA, MR, SER, IG, ST = _mods()
    edges = []
    fake = _types.SimpleNamespace(
        gene_info=_types.SimpleNamespace(start=0),
        read_assignments=[full_to_obj(f) for f in storage],
        intron_collector=_types.SimpleNamespace(discarded_introns=set(tuple(i) for i in discarded), clustered_introns={}),
        add_edge=lambda a, b: edges.append([list(a), list(b)]))
    IG.IntronGraph.construct(fake)
    return sorted(edges)


def gen_loader_case(rng):
    """a verdict dict for one chromosome and the full records of one gene region"""
    n_reads = rng.randint(1, 5)
    dict_ = []
    ras = []
    aid = 0
    for read in range(n_reads):
        n = rng.choice([1, 2, 2, 3])
        recs = []
        for k in range(n):
            aid += 1
            t = rng.choice(G.ALL_TYPES + ["suspended", "suspended"])
            r = G.rec(aid, G.LOCI[rng.randrange(4)], t, rng.random() < 0.5, G.iso_choices(t)[0], read=read,
                      gtype=t if rng.random() < 0.8 else rng.choice(G.ALL_TYPES))
            r["chr"] = rng.choice([0, 0, 1])
            recs.append(r)
            if rng.random() < 0.85:
                ex = sorted(rng.sample(range(10, 400), rng.choice([2, 4, 6, 6, 8])))
                introns = [[ex[i] + 1, ex[i + 1] - 1] for i in range(1, len(ex) - 2, 2)] if len(ex) > 2 else []
                ras.append({"aid": aid if rng.random() < 0.92 else aid + 100, "read": read, "chr": r["chr"] if rng.random() < 0.9 else 1 - r["chr"],
                            "atype": rng.choice(G.TYPES), "gtype": rng.choice(G.TYPES), "mm": rng.random() < 0.3,
                            "introns": introns, "iso": r["iso"]})
        if n > 1 and rng.random() < 0.9:
            if rng.random() < 0.1 and recs:
                recs.append(dict(recs[0]))     # the same (assignment id, chromosome) twice: last one wins
            dict_.append([read, recs])
    rng.shuffle(ras)
    return dict_, ras


def correspondence(ctx):
    rng = ctx.rng
    quick = ctx.tier == "quick"
    # 1. collect_reads in both memory modes vs the model's verdict files
    n_streams = 60 if quick else 600
    for i in range(n_streams):
        n_chroms = rng.choice([1, 2, 3])
        lengths = collections.OrderedDict((c, rng.choice([1000, 2000, 2000, 3000])) for c in range(n_chroms))
        recs = gen_stream(rng, rng.randint(1, 8), n_chroms)
        strategy = "take_best" if rng.random() < 0.9 else "ignore_multimapper"
        for hm, pk in ((False, False), (True, False), (True, True), (False, True)):
            ctx.evaluations += 1
            ctx.count("op:collect_reads:" + ("high_memory" if hm else "default") + ("+worker_processes" if pk else ""))
            mo = model_verdicts(ctx, recs, lengths, hm, strategy, pickled=pk)
            io = vlib.canon(real_collect(recs, lengths, hm, strategy, pickled=pk))
            ctx.traces_validated += 1
            if isinstance(mo, dict) and "driver_error" in mo:
                ctx.disagree("collect_reads", {"records": recs, "lengths": lengths, "high_memory": hm, "pickled": pk}, mo, io)
            elif not vlib.same(mo, io):
                ctx.disagree("collect_reads", {"records": recs, "lengths": dict(lengths), "high_memory": hm, "pickled": pk,
                                               "strategy": strategy}, mo, io)
            elif not vlib.is_err(mo) and any(v for v in mo.values()):
                ctx.mark_nontrivial(["collect_reads", recs, hm, pk])
        if i % 3 == 0:
            # a fresh run into a folder an earlier run left its verdict files in: the model knows no earlier state, so the
            # files written must be the same
            st = "empty" if i % 2 == 0 else "records"
            hm = bool(i % 4 == 0)
            ctx.evaluations += 1
            ctx.count("op:collect_reads:used_folder_" + st)
            mo = model_verdicts(ctx, recs, lengths, hm, strategy)
            io = vlib.canon(real_collect(recs, lengths, hm, strategy, stale=st))
            ctx.traces_validated += 1
            if not vlib.same(mo, io):
                ctx.disagree("collect_reads", {"records": recs, "lengths": dict(lengths), "high_memory": hm, "pickled": False,
                                               "strategy": strategy, "stale": st}, mo, io)
            elif not vlib.is_err(mo) and any(v for v in mo.values()):
                ctx.mark_nontrivial(["collect_reads", recs, hm, "stale", st])
    # 2. loader, introns, edges
    cases = []
    for _ in range(400 if quick else 4000):
        dict_, ras = gen_loader_case(rng)
        cases.append(("load", {"dict": dict_, "ras": ras}))
    outs = ctx.driver.run([vlib.req("C08." + op, **kw) for op, kw in cases])
    follow = []
    for (op, kw), mo in zip(cases, outs):
        ctx.evaluations += 1
        ctx.count("op:load")
        io = vlib.canon(real_load(kw["dict"], kw["ras"]))
        ctx.traces_validated += 1
        if not vlib.same(mo, io):
            ctx.disagree("load", kw, mo, io)
            continue
        if vlib.is_err(mo):
            ctx.count("model_error:load")
            continue
        if len(mo) < len(kw["ras"]) and mo:
            ctx.mark_nontrivial(["load", kw])
        all_introns = sorted(set(tuple(i) for f in mo for i in f["introns"]))
        disc = [list(i) for i in all_introns if rng.random() < 0.15]
        follow.append(("collect_introns", {"storage": mo}))
        follow.append(("graph_edges", {"storage": mo, "discarded": disc}))
    outs = ctx.driver.run([vlib.req("C08." + op, **kw) for op, kw in follow])
    for (op, kw), mo in zip(follow, outs):
        ctx.evaluations += 1
        ctx.count("op:" + op)
        if op == "collect_introns":
            io = real_collect_introns(kw["storage"])
            mo_c = sorted(mo)
        else:
            io = real_graph_edges(kw["discarded"], kw["storage"])
            mo_c = sorted(mo)
        ctx.traces_validated += 1
        if mo_c != vlib.canon(io):
            ctx.disagree(op, kw, mo_c, io)
        elif mo_c:
            ctx.mark_nontrivial([op, kw])
    # 3. the real pipeline, both memory modes: verdict files vs the model's prediction from the dump files
    from props import C08pipe
    C08pipe.correspondence(ctx)


# ------------------------------------------------------------------------------------------------
# oracle

def check_stream(recs, lengths):
    """property clauses at the level of collect_reads: both modes write the same verdicts; every chromosome file
    holds exactly the records of that chromosome; a permuted chromosome processing order retains the same alignments"""
    fails = []
    a = real_collect(recs, lengths, False)
    b = real_collect(recs, lengths, True)
    if a != b:
        fails.append(("flow:memory_modes_differ", "verdict files differ between the default and the --high_memory path"))
    bp = real_collect(recs, lengths, True, pickled=True)
    if a != bp:
        fails.append(("flow:memory_modes_differ", "verdict files differ between the default path and the --high_memory "
                      "path when the worker results are pickled (threads > 1)"))
    if vlib.is_err(a):
        fails.append(("flow:collect_raises", str(a)))
        return fails
    # a used output folder (verdict files of an earlier run present) must not change what a fresh run writes
    for st in ("empty", "records"):
        u = real_collect(recs, lengths, False, stale=st)
        if u != a:
            fails.append(("flow:stale_verdict_files_change_result", "verdict files differ when the folder holds "
                          "<save>_multimappers_<chr> files of an earlier run (%s)" % st))
            break
    # the clauses of the statement on what was written: every read with several records has a verdict for every one
    # of them, and the verdicts satisfy priority / suppression / flags (same checks as for the resolver alone)
    from props import C08 as MAIN
    stream = stream_in_processing_order(recs, lengths)
    per_read = collections.OrderedDict()
    for r in stream:
        per_read.setdefault(r["read"], []).append(r)
    verdict = {}
    for c, lst in a.items():
        for rid, rs in lst:
            for r in rs:
                verdict[(r["aid"], r["chr"])] = r
    for rid, l in per_read.items():
        if len(l) < 2:
            if any((r["aid"], r["chr"]) in verdict for r in l):
                fails.append(("flow:verdict_for_unique_read", "read %d has one record and a verdict" % rid))
            continue
        out = [verdict.get((r["aid"], r["chr"])) for r in l]
        if any(o is None for o in out):
            fails.append(("flow:verdict_missing", "read %d: %d of its %d records have no verdict"
                          % (rid, sum(1 for o in out if o is None), len(l))))
            continue
        for kind, detail in MAIN.check_list(l, out):
            fails.append(("flow:" + kind, "read %d: %s" % (rid, detail)))

    def retained_keys(v):
        res = {}
        for c, lst in v.items():
            for rid, rs in lst:
                for r in rs:
                    if r["atype"] != "suspended":
                        res.setdefault(rid, set()).add(G.key_of(r))
        return res
    base = retained_keys(a)
    # another processing order of the chromosomes (lengths permuted)
    ks = list(lengths.keys())
    if len(ks) > 1:
        rev = collections.OrderedDict((k, 5000 - lengths[k] + i) for i, k in enumerate(reversed(ks)))
        c = real_collect(recs, rev, False)
        if not vlib.is_err(c) and retained_keys(c) != base:
            fails.append(("flow:order_dependent", "retained alignments change with the processing order of the chromosomes"))
    return fails


def oracle(ctx, disagreements, broken):
    rng = ctx.rng
    quick = ctx.tier == "quick"
    n = 0
    per_kind = collections.Counter()
    real_fail = ctx.fail

    def capped(kind, inp, detail):          # a handful of examples per failure class is enough for the replay file
        per_kind[kind] += 1
        if per_kind[kind] <= 6:
            real_fail(kind, inp, detail)
    ctx_fail = capped
    for d in disagreements:
        if d["op"] == "collect_reads":
            inp = d["input"]
            lengths = collections.OrderedDict((int(k), v) for k, v in inp["lengths"].items())
            recs = inp["records"]
            if all(r["atype"] in G.TYPES for r in recs) and inp.get("strategy", "take_best") == "take_best":
                for kind, detail in check_stream(recs, lengths):
                    ctx_fail(kind, {"records": recs, "lengths": dict(lengths)}, detail)
                n += 1
    for i in range(40 if quick else 400):
        n_chroms = rng.choice([2, 3])
        lengths = collections.OrderedDict((c, rng.choice([1000, 2000, 3000])) for c in range(n_chroms))
        recs = gen_stream(rng, rng.randint(2, 8), n_chroms)
        for kind, detail in check_stream(recs, lengths):
            ctx_fail(kind, {"records": recs, "lengths": dict(lengths)}, detail)
        n += 1
    # loader: nothing suspended gets through, nothing retained is lost
    for _ in range(300 if quick else 3000):
        dict_, ras = gen_loader_case(rng)
        r = check_loader(dict_, ras)
        if r:
            ctx_fail(r[0], {"dict": dict_, "ras": ras}, r[1])
    ctx.extra["oracle_streams"] = n
    from props import C08pipe
    C08pipe.oracle(ctx, disagreements, broken)


def check_loader(dict_, ras):
    storage = real_load(dict_, ras)
    if vlib.is_err(storage):
        # only a verdict list holding one (assignment id, chromosome) twice gets here; the resolver never writes that
        return None
    d = dict((k, v) for k, v in dict_)
    got = collections.Counter((f["aid"], f["chr"]) for f in storage)
    for f in ras:
        if f["read"] not in d:
            exp = 1
        else:
            vs = [a for a in d[f["read"]] if a["aid"] == f["aid"] and a["chr"] == f["chr"]]
            if not vs:
                continue                      # "incomplete information": the code drops it, the statement is silent
            exp = 0 if vs[-1]["atype"] == "suspended" else 1
            if len(set(a["atype"] == "suspended" for a in vs)) > 1:
                continue                      # contradictory duplicate verdicts are not produced by the resolver
        n_in = sum(1 for g in ras if (g["aid"], g["chr"]) == (f["aid"], f["chr"]))
        if n_in != 1:
            continue
        if got[(f["aid"], f["chr"])] != exp:
            return ("flow:suspended_visible" if exp == 0 else "flow:retained_lost",
                    "record (%d, chr %d) reached the consumers %d times, expected %d" % (f["aid"], f["chr"], got[(f["aid"], f["chr"])], exp))
    # graph input ignores multimappers
    introns = real_collect_introns(storage)
    exp = sorted(i for f in storage if not f["mm"] for i in f["introns"])
    if sorted(introns) != exp:
        return ("flow:multimapper_in_graph", "collect_introns counted %s, expected %s" % (introns, exp))
    edges = real_graph_edges([], storage)
    exp_e = sorted([list(a), list(b)] for f in storage if not f["mm"] for a, b in zip(f["introns"], f["introns"][1:]))
    if edges != exp_e:
        return ("flow:multimapper_in_graph", "construct added edges %s, expected %s" % (edges, exp_e))
    return None


def replay(ctx, failure):
    kind = failure["kind"]
    inp = failure["input"]
    if kind.startswith("pipeline:") or "dataset_seed" in inp:
        from props import C08pipe
        return C08pipe.replay(ctx, failure)
    if "records" in inp:
        lengths = collections.OrderedDict((int(k), v) for k, v in inp["lengths"].items())
        return any(k == kind for k, _ in check_stream(inp["records"], lengths))
    if "dict" in inp:
        r = check_loader(inp["dict"], inp["ras"])
        return bool(r and r[0] == kind)
    return False
