"""C11 extension, part `assignm` — reflection duals inside the assigner model (lean/IsoVerif/Props/C11AssignMirror.lean).

Relations `M.am.<fn>`: the model function on RAW inputs (driver ops `C11.X.am_*`, Driver/C11AssignMirror.lean) and the
REAL function (LongReadAssigner.categorize_exon_elongation_subtype / check_read_ends / classify_assignment / ...,
PolyAVerifier.verify_polya / verify_polyt / verify_read_ends / check_if_close / detect_reference_exons_* /
check_internal_*, shift_polya / shift_polyt, MatchClassification.get_*_classification) are evaluated on an input and
on its mirror image; the hypotheses of the theorems (`ElongWF ∧ HasCommon`, `PolyaMirrorOK`, ...) are evaluated by
Python twins that are compared with the Lean definitions through `C11.X.am_*_ok` on every run, as are the
transformations (`C11.T.mirror_event`, `T.mirror_polya`, `T.mirror_elong`).
"""
import types

import vlib
from gen import c11gen as T
from props import c11ext as X

PROPS = ["IsoVerif/Props/C11AssignMirror.lean"]
TARGETS = ["IsoVerif.Props.C11AssignMirror"]

NS = types.SimpleNamespace

NANOPORE = {"delta": 6, "minor_exon_extension": 50, "major_exon_extension": 300, "min_abs_exon_overlap": 10,
            "apa_delta": 50, "minimal_exon_overlap": 5, "minimal_intron_absence_overlap": 20,
            "max_fake_terminal_exon_len": 40, "max_missed_exon_len": 100, "resolve_ambiguous": "monoexon_and_fsm"}
TINY = {"delta": 1, "minor_exon_extension": 3, "major_exon_extension": 8, "min_abs_exon_overlap": 1, "apa_delta": 3,
        "minimal_exon_overlap": 1, "minimal_intron_absence_overlap": 2, "max_fake_terminal_exon_len": 4,
        "max_missed_exon_len": 6, "resolve_ambiguous": "monoexon_and_fsm"}
UNDEF = [2147483648, 2147483648]


def _c01():
    from props import C01 as M
    return M


_MODS = None


def _impl():
    global _MODS
    if _MODS is None:
        vlib.repo_on_path()
        import logging
        logging.getLogger("IsoQuant").setLevel(logging.CRITICAL)
        import src.long_read_assigner as LA
        import src.isoform_assignment as IA
        import src.polya_verification as PV
        import src.polya_finder as PF
        import src.common as C
        _MODS = (LA, IA, PV, PF, C)
    return _MODS


def _P(pj):
    LA = _impl()[0]
    d = dict(pj)
    d["resolve_ambiguous"] = LA.AmbiguityResolvingMethod[pj["resolve_ambiguous"]]
    return NS(**d)


def _tl(l):
    return [tuple(x) for x in l]


# ------------------------------------------------------------------------------------------------------------------
# transformations (Python twins of Model/C11SymAssignMirror.lean)

POLYA_SITE = {"correct_polya_site_left", "correct_polya_site_right", "alternative_polya_site_left",
              "alternative_polya_site_right", "internal_polya_left", "internal_polya_right"}
TERM_MIS = {"terminal_exon_misalignment_left", "terminal_exon_misalignment_right"}


def ev(name, iso=None, read=None, info=0):
    return [name, list(iso or UNDEF), list(read or UNDEF), info]


def mirror_event(L, n, e):
    name, iso, read, info = e
    return [T.swap_lr(name), [n - 2 - iso[1], n - 2 - iso[0]] if name in TERM_MIS else list(iso), list(read),
            L + 1 - info if name in POLYA_SITE else info]


def mirror_events(L, n, evs):
    return [mirror_event(L, n, e) for e in evs]


def mirror_polya(L, pa):
    return list(T.mirror_polya(L, tuple(pa)))


def mirror_range(n, r):
    return [n - r[1], n - r[0]]


def mirror_elong(L, kw):
    n = len(kw["split"])
    out = dict(kw)
    out.update(split=vlib.canon(T.mirror_l(L, _tl(kw["split"]))), iso_profile=kw["iso_profile"][::-1],
               iso_range=mirror_range(n, kw["iso_range"]), read_profile=kw["read_profile"][::-1],
               read_range=mirror_range(n, kw["read_range"]), blocks=vlib.canon(T.mirror_l(L, _tl(kw["blocks"]))))
    return out


def add_sub(evs, e):
    if len(evs) == 1 and evs[0][0] in ("undefined", "none"):
        return [e]
    return evs + [e]


# ------------------------------------------------------------------------------------------------------------------
# hypotheses (Python twins; compared with the Lean definitions through the driver)

def _pyget(l, i):
    if 0 <= i:
        return l[i] if i < len(l) else None
    return l[len(l) + i] if -len(l) <= i else None


def common_ends(kw):
    """Model/C11SymAssignMirror.lean `commonEnds` (None = the second loop raises)"""
    a, b = kw["iso_range"]
    c, d = kw["read_range"]
    ip, rp = kw["iso_profile"], kw["read_profile"]
    f1, f2 = max(a, c), min(b - 1, d - 1)
    cf = -1
    k0 = max(f1, 0)
    for off, (x, y) in enumerate(zip(ip[k0:], rp[k0:])):
        if x == 1 and y == 1:
            cf = f1 + off
            break
    cl = -1
    i = f2
    for _ in range(max(f2 + 1, 0)):
        x, y = _pyget(ip, i), _pyget(rp, i)
        if x is None or y is None:
            return None
        if x == 1 and y == 1:
            cl = i
            break
        i -= 1
    return cf, cl


def elong_ok(kw):
    n = len(kw["split"])
    a, b = kw["iso_range"]
    c, d = kw["read_range"]
    wf = len(kw["iso_profile"]) == n and len(kw["read_profile"]) == n and 0 <= a and b <= n and 0 <= c and d <= n
    ce = common_ends(kw)
    common = ce is not None and ce[0] != -1 and ce[1] != -1
    return {"wf": wf, "common": common}


def no_sent(L, x):
    return x != -1 and L + 1 - x != -1


def pos_ok(L, x):
    return x == -1 or L + 1 - x != -1


def m_shift_polya(exons, cnt, pos):
    """Model/Assign.lean `shiftPolya` (None = error)"""
    n = len(exons)
    if cnt == 0 or cnt == n or pos == -1:
        return pos
    if cnt > n:
        return None
    d = 0
    for e in exons[::-1][:cnt]:
        if e[0] > pos:
            continue
        d += (pos - e[0]) if d == 0 else (e[1] - e[0] + 1)
    return exons[n - cnt - 1][1] + d


def m_shift_polyt(exons, cnt, pos):
    n = len(exons)
    if cnt == 0 or cnt == n or pos == -1:
        return pos
    if cnt > n:
        return None
    d = 0
    for e in exons[:cnt]:
        if e[1] < pos:
            continue
        d += (e[1] - pos) if d == 0 else (e[1] - e[0] + 1)
    return exons[cnt][0] - d


def count_ty(evs, name):
    return sum(1 for e in evs if e[0] == name)


def polya_ok(L, iso, read, polya, evs):
    """-> {"a": PolyaMirrorOK, "t": PolytMirrorOK}"""
    out = {}
    for which in "at":
        ext, int_ = (polya[0], polya[2]) if which == "a" else (polya[1], polya[3])
        fake = count_ty(evs, "fake_terminal_exon_right" if which == "a" else "fake_terminal_exon_left")
        ok = (ext != -1 or int_ != -1) and pos_ok(L, ext) and pos_ok(L, int_)
        if iso:
            ok = ok and no_sent(L, iso[-1][1] if which == "a" else iso[0][0])
        sh = m_shift_polya if which == "a" else m_shift_polyt
        e1, i1 = sh(read, fake, ext), sh(read, fake, int_)
        if e1 is not None and i1 is not None:
            ok = ok and (ext == -1 or no_sent(L, e1)) and (int_ == -1 or no_sent(L, i1))
        out[which] = bool(ok)
    return out


def read_ends_ok(L, strand, iso, read, polya, evs):
    if strand == "+":
        return (polya[0] == -1 and polya[2] == -1) or polya_ok(L, iso, read, polya, evs)["a"]
    if strand == "-":
        return (polya[1] == -1 and polya[3] == -1) or polya_ok(L, iso, read, polya, evs)["t"]
    return True


# ------------------------------------------------------------------------------------------------------------------
# adapters: the real functions

def to_events(evs):
    IA = _impl()[1]
    return [IA.MatchEvent(IA.MatchEventSubtype[e[0]], tuple(e[1]), tuple(e[2]), e[3]) for e in evs]


def ev_json(events):
    return [_c01().event_json(e) for e in events]


def _assigner(params, gene_info=None):
    LA = _impl()[0]
    asg = LA.LongReadAssigner.__new__(LA.LongReadAssigner)
    asg.params = _P(params)
    asg.gene_info = gene_info
    return asg


def _sides(events):
    ej = ev_json(events)
    return {"left": [e for e in ej if "_left" in e[0]], "right": [e for e in ej if "_right" in e[0]]}


def _split_info(kw, profiles):
    return NS(split_exon_profiles=NS(features=_tl(kw["split"]), profiles={k: v[0] for k, v in profiles.items()},
                                     profile_ranges={k: tuple(v[1]) for k, v in profiles.items()}))


def _read_split(kw):
    return NS(gene_profile=list(kw["read_profile"]), gene_profile_range=tuple(kw["read_range"]),
              read_features=_tl(kw["blocks"]))


def impl_elongation(kw):
    asg = _assigner(kw["params"], _split_info(kw, {"t": (kw["iso_profile"], kw["iso_range"])}))
    return _sides(asg.categorize_exon_elongation_subtype(_read_split(kw), "t"))


def impl_check_read_ends(kw):
    IA = _impl()[1]
    profs = {"t%d" % i: (m["iso_profile"], m["iso_range"]) for i, m in enumerate(kw["matches"])}
    asg = _assigner(kw["params"], _split_info(kw, profs))
    rsp = _read_split(kw)
    matches = []
    for i, m in enumerate(kw["matches"]):
        im = IA.IsoformMatch(IA.MatchClassification.undefined, "g", "t%d" % i)
        im.match_subclassifications = to_events(m["events"])
        matches.append(im)
    a = IA.ReadAssignment("r", IA.ReadAssignmentType[kw["type"]], matches)
    asg.check_read_ends(rsp, a)
    out = []
    for i, (im, m) in enumerate(zip(a.isoform_matches, kw["matches"])):
        out.append({"events": ev_json(im.match_subclassifications), "base": vlib.canon(m["events"]),
                    "sides": _sides(asg.categorize_exon_elongation_subtype(rsp, "t%d" % i))})
    return {"type": a.assignment_type.name, "matches": out}


def _verifier(params, gene_info=None):
    PV = _impl()[2]
    return PV.PolyAVerifier(gene_info, _P(params))


def _pinfo(polya):
    return _impl()[3].PolyAInfo(*polya)


def impl_verify_polya(kw):
    return ev_json(_verifier(kw["params"]).verify_polya(_tl(kw["iso"]), _tl(kw["read"]), _pinfo(kw["polya"]),
                                                        to_events(kw["events"])))


def impl_verify_polyt(kw):
    return ev_json(_verifier(kw["params"]).verify_polyt(_tl(kw["iso"]), _tl(kw["read"]), _pinfo(kw["polya"]),
                                                        to_events(kw["events"])))


def impl_verify_read_ends(kw):
    gi = NS(all_isoforms_exons={"t": _tl(kw["iso"])}, isoform_strands={"t": kw["strand"]})
    crp = NS(read_split_exon_profile=NS(read_features=_tl(kw["read"])), polya_info=_pinfo(kw["polya"]))
    return ev_json(_verifier(kw["params"], gi).verify_read_ends(crp, "t", to_events(kw["events"])))


def impl_shift_polya(kw):
    return _impl()[2].shift_polya(_tl(kw["exons"]), kw["count"], kw["pos"])


def impl_shift_polyt(kw):
    return _impl()[2].shift_polyt(_tl(kw["exons"]), kw["count"], kw["pos"])


def impl_check_if_close(kw):
    IA = _impl()[1]
    r = _verifier(kw["params"]).check_if_close(kw["stop"], kw["ext"], kw["int"], to_events(kw["events"]),
                                               IA.MatchEventSubtype[kw["ty"]])
    return None if r is None else ev_json(r)


def impl_detect_beyond(kw):
    e, x, i = _verifier(kw["params"]).detect_reference_exons_beyond_polya(_tl(kw["iso"]), kw["ext"], kw["int"],
                                                                         to_events(kw["events"]))
    return [ev_json(e), x, i]


def impl_detect_before(kw):
    e, x, i = _verifier(kw["params"]).detect_reference_exons_before_polyt(_tl(kw["iso"]), kw["ext"], kw["int"],
                                                                         to_events(kw["events"]))
    return [ev_json(e), x, i]


def impl_check_internal(kw):
    v = _verifier(NANOPORE)
    f = v.check_internal_polya if kw["which"] == "a" else v.check_internal_polyt
    e, b = f(kw["pos"], to_events(kw["events"]))
    return [ev_json(e), bool(b)]


def impl_classify_events(kw):
    return _c01().impl_classify(kw)


def impl_classify_assignment(kw):
    ids = ["t%d" % i for i in range(len(kw["ms"]))]
    rm = {t: to_events(m) for t, m in zip(ids, kw["ms"])}
    return _assigner(NANOPORE).classify_assignment(ids, rm).name


def impl_inconsistency_cls(kw):
    return _impl()[1].MatchClassification.get_inconsistency_classification(to_events(kw["events"])).name


def impl_mono_exon_cls(kw):
    return _impl()[1].MatchClassification.get_mono_exon_classification(to_events(kw["events"])).name


def impl_penalty(kw):
    return float(_assigner(kw["params"]).select_best_among_inconsistent(None, {"a": to_events(kw["events"])})[1])


def impl_candidates(kw):
    C = _impl()[4]
    isos = {"t%d" % i: _tl(ex) for i, ex in enumerate(kw["isos"])}
    blocks = _tl(kw["blocks"])
    region = (blocks[0][0], blocks[-1][1])
    out = []
    for tid in sorted(isos):
        ex = isos[tid]
        if not ex:
            out.append({"error": "error"})
            continue
        gi = NS(all_isoforms_introns={tid: C.junctions_from_blocks(ex)}, all_isoforms_exons={tid: ex},
                transcript_region=lambda t, ex=ex: (ex[0][0], ex[-1][1]), gene_id_map={tid: "g"}, isoform_strands={tid: "+"})
        asg = _assigner(kw["params"], gi)
        rsp = NS(read_features=blocks)
        crp = NS(read_split_exon_profile=rsp, read_intron_profile=NS(read_profile=[1] * len(C.junctions_from_blocks(blocks))))

        def g(f):
            try:
                return vlib.canon(f())
            except X_ERRS as exn:
                return {"error": "error", "exc": type(exn).__name__}

        def splice():
            m = asg.categorize_correct_splice_match(crp, tid)
            return [m.match_classification.name, m.match_subclassifications[0].event_type.name]

        out.append({"contains": g(lambda: bool(asg.find_containing_isoforms(rsp, {tid: None}))),
                    "fsm": g(lambda: bool(asg.is_fsm(region, tid))),
                    "ism": g(lambda: asg.detect_ism_subtype(region, tid).event_type.name),
                    "splice": g(splice),
                    "jaccard": g(lambda: float(asg.jaccard_based_nucleotide_score(blocks, ex))),
                    "coverage": g(lambda: float(asg.coverage_based_nucleotide_score(blocks, ex)))})
    return out


def impl_has_overlapping(kw):
    return bool(_impl()[4].has_overlapping_features(list(kw["p1"]), list(kw["p2"]), profile_range=tuple(kw["range"])))


def impl_difference(kw):
    return int(_impl()[4].difference_in_present_features(list(kw["p1"]), list(kw["p2"]), -1, tuple(kw["range"])))


def impl_select_similar(kw):
    ids = ["t%04d" % i for i in range(len(kw["isos"]))]
    ex = {t: _tl(m["exons"]) for t, m in zip(ids, kw["isos"])}
    gi = NS(split_exon_profiles=NS(features=_tl(kw["split"]), profiles={t: list(m["split_profile"]) for t, m in zip(ids, kw["isos"])},
                                   profile_ranges={t: tuple(m["split_range"]) for t, m in zip(ids, kw["isos"])}),
            intron_profiles=NS(profiles={t: list(m["intron_profile"]) for t, m in zip(ids, kw["isos"])}),
            all_isoforms_exons=ex, transcript_region=lambda t: (ex[t][0][0], ex[t][-1][1]))
    asg = _assigner(kw["params"], gi)
    crp = NS(read_split_exon_profile=NS(gene_profile=list(kw["read_split_profile"]), gene_profile_range=tuple(kw["read_split_range"]),
                                        read_features=_tl(kw["blocks"])),
             read_intron_profile=NS(gene_profile=list(kw["read_intron_profile"]), gene_profile_range=tuple(kw["read_intron_range"])))
    r = asg.select_similar_isoforms(crp)
    return sorted(ids.index(t) for t in (r or []))


X_ERRS = (IndexError, AssertionError, ZeroDivisionError, KeyError, ValueError, TypeError, AttributeError)


# ------------------------------------------------------------------------------------------------------------------
# comparison: exact, except that a model fraction [num, den] is compared with a float within 1e-9

def _num(x):
    if isinstance(x, bool):
        return None
    if isinstance(x, (int, float)):
        return float(x)
    if isinstance(x, list) and len(x) == 2 and all(isinstance(y, int) and not isinstance(y, bool) for y in x) and x[1] > 0:
        return x[0] / x[1]
    return None


def approx_same(a, b):
    if vlib.is_err(a) or vlib.is_err(b):
        return vlib.is_err(a) and vlib.is_err(b)
    if isinstance(a, float) or isinstance(b, float):
        x, y = _num(a), _num(b)
        return x is not None and y is not None and abs(x - y) <= 1e-9
    if isinstance(a, dict) and isinstance(b, dict):
        return a.keys() == b.keys() and all(approx_same(a[k], b[k]) for k in a)
    if isinstance(a, list) and isinstance(b, list):
        if len(a) == 2 and len(b) == 2 and _num(a) is not None and _num(b) is not None and a != b:
            # two fractions of the model (already reduced) are equal only when identical
            return False
        return len(a) == len(b) and all(approx_same(x, y) for x, y in zip(a, b))
    return a == b


# ------------------------------------------------------------------------------------------------------------------
# relations

def _req(op, keys):
    return lambda kw: vlib.req("C11." + op, **{k: kw[k] for k in keys})


def _m_events(key="events", nkey=None):
    def tin(par, kw):
        out = dict(kw)
        out[key] = mirror_events(par["L"], kw.get(nkey, 2) if nkey else 2, kw[key])[::-1]
        return out
    return tin


EL_KEYS = ["params", "split", "iso_profile", "iso_range", "read_profile", "read_range", "blocks"]
PA_KEYS = ["params", "iso", "read", "polya", "events"]

WITNESS_ELONG = {"params": NANOPORE, "split": [[10, 20], [30, 40]], "iso_profile": [1, 0], "iso_range": [0, 1],
                 "read_profile": [0, 1], "read_range": [1, 2], "blocks": [[20, 38]]}
# regression input of fix a2ae069 (sentinel used as a coordinate): the relation must HOLD on model and code now
WITNESS_POLYA = {"params": NANOPORE, "iso": [[5, 30], [180, 190]], "read": [[5, 30]], "polya": [135, -1, -1, -1], "events": []}
WITNESS_OVERLAP = {"p1": [1, 0], "p2": [1, 1], "range": [0, 5]}
WITNESS_CLOSE = {"params": NANOPORE, "stop": 990, "ext": 1001, "int": -1, "events": [], "ty": "correct_polya_site_right"}


def _dom_elong(par, kw):
    if kw == WITNESS_ELONG and par["L"] == 50:
        return "witness"
    ok = elong_ok(kw)
    return ok["wf"] and ok["common"]


def _tout_sides(par, kw, v):
    n = kw.get("n_exons", 2)
    return {"left": mirror_events(par["L"], n, v["right"]), "right": mirror_events(par["L"], n, v["left"])}


def _tin_cre(par, kw):
    out = mirror_elong(par["L"], dict(kw, iso_profile=[], iso_range=[0, 0]))
    n = len(kw["split"])
    out["matches"] = [dict(m, iso_profile=m["iso_profile"][::-1], iso_range=mirror_range(n, m["iso_range"]),
                           events=mirror_events(par["L"], m["n_exons"], m["events"])) for m in kw["matches"]]
    return out


def _tout_cre(par, kw, v):
    L = par["L"]
    ms = []
    for m, r in zip(kw["matches"], v["matches"]):
        n = m["n_exons"]
        if vlib.is_err(r["sides"]):
            ms.append(r)
            continue
        base = mirror_events(L, n, r["base"])
        sides = {"left": mirror_events(L, n, r["sides"]["right"]), "right": mirror_events(L, n, r["sides"]["left"])}
        evs = base
        for e in sides["left"] + sides["right"]:
            evs = add_sub(evs, e)
        # mirror image: the (mirrored) right end's events come first — they now carry the `_left` names
        ms.append({"events": evs, "base": base, "sides": sides})
    return {"type": v["type"], "matches": ms}


def _dom_cre(par, kw):
    for m in kw["matches"]:
        ok = elong_ok(dict(kw, iso_profile=m["iso_profile"], iso_range=m["iso_range"]))
        if not (ok["wf"] and ok["common"]):
            return False
    return True


def _tin_pa(par, kw):
    L = par["L"]
    return dict(kw, iso=vlib.canon(T.mirror_l(L, _tl(kw["iso"]))), read=vlib.canon(T.mirror_l(L, _tl(kw["read"]))),
                polya=mirror_polya(L, kw["polya"]), events=mirror_events(L, len(kw["iso"]), kw["events"]),
                strand={"+": "-", "-": "+"}.get(kw.get("strand"), kw.get("strand")))


def _tout_pa(par, kw, v):
    return mirror_events(par["L"], len(kw["iso"]), v)


def _dom_pa(which):
    def dom(par, kw):
        return polya_ok(par["L"], kw["iso"], kw["read"], kw["polya"], kw["events"])[which]
    return dom


def _dom_vre(par, kw):
    return read_ends_ok(par["L"], kw["strand"], kw["iso"], kw["read"], kw["polya"], kw["events"])


def _tin_shift(par, kw):
    return dict(kw, exons=vlib.canon(T.mirror_l(par["L"], _tl(kw["exons"]))), pos=T.mirror_pos(par["L"], kw["pos"]))


def _tout_shift(par, kw, v):
    return v if kw["pos"] == -1 else par["L"] + 1 - v


def _dom_shift(par, kw):
    return pos_ok(par["L"], kw["pos"])


def _tin_close(par, kw):
    L = par["L"]
    return dict(kw, stop=L + 1 - kw["stop"], ext=T.mirror_pos(L, kw["ext"]), int=T.mirror_pos(L, kw["int"]),
                events=mirror_events(L, 2, kw["events"]), ty=T.swap_lr(kw["ty"]))


def _dom_close(par, kw):
    if kw == WITNESS_CLOSE and par["L"] == 999:
        return "witness"
    return kw["ty"] in POLYA_SITE and pos_ok(par["L"], kw["ext"]) and pos_ok(par["L"], kw["int"])


def _tin_detect(par, kw):
    L = par["L"]
    return dict(kw, iso=vlib.canon(T.mirror_l(L, _tl(kw["iso"]))), ext=T.mirror_pos(L, kw["ext"]),
                int=T.mirror_pos(L, kw["int"]), events=mirror_events(L, len(kw["iso"]), kw["events"]))


def _tout_detect(par, kw, v):
    L = par["L"]
    return [mirror_events(L, len(kw["iso"]), v[0]), T.mirror_pos(L, v[1]), T.mirror_pos(L, v[2])]


def _dom_detect(which):
    def dom(par, kw):
        L, iso, ext, int_ = par["L"], kw["iso"], kw["ext"], kw["int"]
        if not (pos_ok(L, ext) and pos_ok(L, int_)):
            return False
        return not (iso and (iso[-1][1] if which == "a" else iso[0][0]) == -1)
    return dom


def _tin_internal(par, kw):
    L = par["L"]
    return dict(kw, pos=T.mirror_pos(L, kw["pos"]), events=mirror_events(L, 3, kw["events"]),
                which={"a": "t", "t": "a"}[kw["which"]])


def _tin_cand(par, kw):
    L = par["L"]
    return dict(kw, blocks=vlib.canon(T.mirror_l(L, _tl(kw["blocks"]))),
                isos=[vlib.canon(T.mirror_l(L, _tl(ex))) for ex in kw["isos"]])


def _tout_cand(par, kw, v):
    out = []
    for r in v:
        if vlib.is_err(r):
            out.append(r)
            continue
        r = dict(r)
        if not vlib.is_err(r["ism"]):
            r["ism"] = T.swap_lr(r["ism"])
        if not vlib.is_err(r["splice"]):
            r["splice"] = [r["splice"][0], T.swap_lr(r["splice"][1])]
        out.append(r)
    return out


def _sd(l):
    return all(a <= b for a, b in l) and all(l[i][1] < l[i + 1][0] for i in range(len(l) - 1))


def _dom_cand(par, kw):
    return _sd(kw["blocks"]) and all(_sd(ex) for ex in kw["isos"])


SEL_KEYS = ["params", "split", "n_introns", "blocks", "read_split_profile", "read_split_range", "read_intron_profile",
            "read_intron_range", "isos"]


def _tin_prof(kw):
    n = len(kw["p1"])
    return dict(kw, p1=kw["p1"][::-1], p2=kw["p2"][::-1], range=mirror_range(n, kw["range"]))


def _dom_prof(kw):
    n = len(kw["p1"])
    if kw == WITNESS_OVERLAP:
        return "witness"
    return len(kw["p2"]) == n and 0 <= kw["range"][0] and kw["range"][1] <= n


def _tin_sel(par, kw):
    L, n, ni = par["L"], len(kw["split"]), kw["n_introns"]
    return dict(kw, split=vlib.canon(T.mirror_l(L, _tl(kw["split"]))), blocks=vlib.canon(T.mirror_l(L, _tl(kw["blocks"]))),
                read_split_profile=kw["read_split_profile"][::-1], read_split_range=mirror_range(n, kw["read_split_range"]),
                read_intron_profile=kw["read_intron_profile"][::-1], read_intron_range=mirror_range(ni, kw["read_intron_range"]),
                isos=[dict(m, exons=vlib.canon(T.mirror_l(L, _tl(m["exons"]))), split_profile=m["split_profile"][::-1],
                           split_range=mirror_range(n, m["split_range"]), intron_profile=m["intron_profile"][::-1])
                      for m in kw["isos"]])


def _dom_sel(kw):
    n, ni = len(kw["split"]), kw["n_introns"]
    if not (_sd(kw["blocks"]) and len(kw["read_intron_profile"]) == ni and 0 <= kw["read_intron_range"][0]
            and kw["read_intron_range"][1] <= ni):
        return False
    for m in kw["isos"]:
        wf = elong_ok({"split": kw["split"], "iso_profile": m["split_profile"], "iso_range": m["split_range"],
                       "read_profile": kw["read_split_profile"], "read_range": kw["read_split_range"]})["wf"]
        if not (wf and len(m["intron_profile"]) == ni and _sd(m["exons"])):
            return False
    return True


def _ident(par, kw, v):
    return v


RELS = [
    X.Rel("M.am.classify_events", "mirror_dual_classifyEvents",
          lambda kw: vlib.req("C01.classify", ambiguous=kw["ambiguous"], events=kw["events"]), impl_classify_events,
          lambda par, kw: dict(kw, events=[T.swap_lr(e) for e in kw["events"]][::-1]), _ident),
    X.Rel("M.am.classify_assignment", "mirror_dual_classifyAssignment", _req("X.am_classify_assignment", ["ms"]),
          impl_classify_assignment,
          lambda par, kw: dict(kw, ms=[mirror_events(par["L"], 3, m)[::-1] for m in kw["ms"]][::-1]), _ident),
    X.Rel("M.am.inconsistency_cls", "mirror_dual_inconsistencyClassification", _req("X.am_inconsistency_cls", ["events"]),
          impl_inconsistency_cls, _m_events(), _ident),
    X.Rel("M.am.mono_exon_cls", "mirror_dual_monoExonClassification", _req("X.am_mono_exon_cls", ["events"]),
          impl_mono_exon_cls, lambda par, kw: dict(kw, events=mirror_events(par["L"], 2, kw["events"])), _ident),
    X.Rel("M.am.penalty", "mirror_dual_penaltyOf", _req("X.am_penalty", ["params", "events"]), impl_penalty,
          _m_events(), _ident, eq=approx_same),
    X.Rel("M.am.elongation", "mirror_dual_elongationEvents", _req("X.am_elongation", EL_KEYS), impl_elongation,
          lambda par, kw: mirror_elong(par["L"], kw), _tout_sides, domain=_dom_elong,
          nontrivial=lambda kw, v: not vlib.is_err(v) and bool(v["left"] or v["right"])),
    X.Rel("M.am.check_read_ends", "mirror_dual_checkReadEnds",
          _req("X.am_check_read_ends", ["params", "split", "read_profile", "read_range", "blocks", "matches", "type"]),
          impl_check_read_ends, _tin_cre, _tout_cre, domain=_dom_cre,
          nontrivial=lambda kw, v: not vlib.is_err(v) and any(m["events"] != m["base"] for m in v["matches"])),
    X.Rel("M.am.verify_polya", "mirror_dual_verifyPolya", _req("X.am_verify_polya", PA_KEYS), impl_verify_polya,
          _tin_pa, _tout_pa, domain=_dom_pa("a"), model_t=_req("X.am_verify_polyt", PA_KEYS), impl_t=impl_verify_polyt),
    X.Rel("M.am.verify_polyt", "mirror_dual_verifyPolyt", _req("X.am_verify_polyt", PA_KEYS), impl_verify_polyt,
          _tin_pa, _tout_pa, domain=_dom_pa("t"), model_t=_req("X.am_verify_polya", PA_KEYS), impl_t=impl_verify_polya),
    X.Rel("M.am.verify_read_ends", "mirror_dual_verifyReadEnds", _req("X.am_verify_read_ends", PA_KEYS + ["strand"]),
          impl_verify_read_ends, _tin_pa, _tout_pa, domain=_dom_vre,
          nontrivial=lambda kw, v: not vlib.is_err(v) and v != kw["events"]),
    X.Rel("M.am.shift_polya", "mirror_dual_shiftPolya", _req("X.am_shift_polya", ["exons", "count", "pos"]),
          impl_shift_polya, _tin_shift, _tout_shift, domain=_dom_shift,
          model_t=_req("X.am_shift_polyt", ["exons", "count", "pos"]), impl_t=impl_shift_polyt,
          nontrivial=lambda kw, v: not vlib.is_err(v) and v != kw["pos"]),
    X.Rel("M.am.shift_polyt", "mirror_dual_shiftPolyt", _req("X.am_shift_polyt", ["exons", "count", "pos"]),
          impl_shift_polyt, _tin_shift, _tout_shift, domain=_dom_shift,
          model_t=_req("X.am_shift_polya", ["exons", "count", "pos"]), impl_t=impl_shift_polya,
          nontrivial=lambda kw, v: not vlib.is_err(v) and v != kw["pos"]),
    X.Rel("M.am.check_if_close", "mirror_dual_checkIfClose",
          _req("X.am_check_if_close", ["params", "stop", "ext", "int", "events", "ty"]), impl_check_if_close, _tin_close,
          lambda par, kw, v: None if v is None else mirror_events(par["L"], 2, v), domain=_dom_close,
          nontrivial=lambda kw, v: v is not None and not vlib.is_err(v)),
    X.Rel("M.am.detect_beyond", "mirror_dual_detectBeyondPolya",
          _req("X.am_detect_beyond", ["params", "iso", "ext", "int", "events"]), impl_detect_beyond, _tin_detect,
          _tout_detect, domain=_dom_detect("a"), model_t=_req("X.am_detect_before", ["params", "iso", "ext", "int", "events"]),
          impl_t=impl_detect_before, nontrivial=lambda kw, v: not vlib.is_err(v) and v[0] != kw["events"]),
    X.Rel("M.am.detect_before", "mirror_dual_detectBeforePolyt",
          _req("X.am_detect_before", ["params", "iso", "ext", "int", "events"]), impl_detect_before, _tin_detect,
          _tout_detect, domain=_dom_detect("t"), model_t=_req("X.am_detect_beyond", ["params", "iso", "ext", "int", "events"]),
          impl_t=impl_detect_beyond, nontrivial=lambda kw, v: not vlib.is_err(v) and v[0] != kw["events"]),
    X.Rel("M.am.check_internal", "mirror_dual_checkInternal", _req("X.am_check_internal", ["pos", "events", "which"]),
          impl_check_internal, _tin_internal, lambda par, kw, v: [mirror_events(par["L"], 3, v[0]), v[1]],
          domain=lambda par, kw: pos_ok(par["L"], kw["pos"]), nontrivial=lambda kw, v: not vlib.is_err(v) and v[1]),
    X.Rel("M.am.has_overlapping", "mirror_dual_hasOverlappingFeatures", _req("X.am_has_overlapping", ["p1", "p2", "range"]),
          impl_has_overlapping, lambda par, kw: _tin_prof(kw), _ident, domain=lambda par, kw: _dom_prof(kw),
          nontrivial=lambda kw, v: v is True),
    X.Rel("M.am.difference", "mirror_dual_differenceInPresentFeatures", _req("X.am_difference", ["p1", "p2", "range"]),
          impl_difference, lambda par, kw: _tin_prof(kw), _ident, domain=lambda par, kw: _dom_prof(kw),
          nontrivial=lambda kw, v: not vlib.is_err(v) and v > 0),
    X.Rel("M.am.select_similar", "mirror_dual_selectSimilar", _req("X.am_select_similar", SEL_KEYS), impl_select_similar,
          lambda par, kw: _tin_sel(par, kw), lambda par, kw, v: v, domain=lambda par, kw: _dom_sel(kw),
          eq=lambda a, b: (vlib.is_err(a) and vlib.is_err(b)) or (not vlib.is_err(a) and not vlib.is_err(b) and sorted(a) == sorted(b)),
          nontrivial=lambda kw, v: not vlib.is_err(v) and 0 < len(v) < len(kw["isos"])),
    X.Rel("M.am.candidates", "mirror_dual_findContaining/isFsm/detectIsmSubtype/categorizeSplice/nucleotideScores",
          _req("X.am_candidates", ["params", "blocks", "isos"]), impl_candidates, _tin_cand, _tout_cand, domain=_dom_cand,
          eq=approx_same,
          nontrivial=lambda kw, v: not vlib.is_err(v) and any(not vlib.is_err(r) and r["contains"] for r in v)),
]


# ------------------------------------------------------------------------------------------------------------------
# generators

EVENT_NAMES = None


def _names():
    global EVENT_NAMES
    if EVENT_NAMES is None:
        EVENT_NAMES = [e.name for e in _impl()[1].MatchEventSubtype]
    return EVENT_NAMES


def rand_event(rng, names=None, big=False):
    name = rng.choice(names or _names())
    iso = UNDEF if rng.random() < 0.5 else sorted([rng.randint(0, 4), rng.randint(0, 4)])
    read = UNDEF if rng.random() < 0.5 else sorted([rng.randint(0, 4), rng.randint(0, 4)])
    info = rng.choice([0, 0, 7, 20, 51, 120, 299, 300, 450] if not big else [0, 17, 1200, 5000])
    return [name, list(iso), list(read), info]


def gen_table_cases(rng, quick):
    names = _names()
    cases = []
    n = 120 if quick else 1200
    for _ in range(n):
        k = rng.randint(0, 5)
        cases.append(("M.am.classify_events", {"L": 1000}, {"ambiguous": rng.random() < 0.5,
                                                            "events": [rng.choice(names) for _ in range(k)]}))
        ms = [[rand_event(rng) for _ in range(rng.randint(0, 3))] for _ in range(rng.randint(0, 3))]
        cases.append(("M.am.classify_assignment", {"L": 1000}, {"ms": ms}))
        evs = [rand_event(rng) for _ in range(rng.randint(0, 4))]
        cases.append(("M.am.inconsistency_cls", {"L": 1000}, {"events": evs}))
        cases.append(("M.am.mono_exon_cls", {"L": 1000}, {"events": evs}))
        cases.append(("M.am.penalty", {"L": 1000}, {"params": rng.choice([NANOPORE, TINY]), "events": evs}))
    for nm in names:
        cases.append(("M.am.inconsistency_cls", {"L": 1000}, {"events": [ev(nm)]}))
        cases.append(("M.am.mono_exon_cls", {"L": 1000}, {"events": [ev(nm)]}))
        cases.append(("M.am.mono_exon_cls", {"L": 1000}, {"events": [ev("mono_exonic"), ev(nm)]}))
        cases.append(("M.am.penalty", {"L": 1000}, {"params": NANOPORE, "events": [ev(nm, info=rng.choice([0, 20, 100, 400]))]}))
    return cases


def gen_elong_small(rng, n_cases):
    cases = []
    for _ in range(n_cases):
        n = rng.choice([1, 2, 3, 3])
        split = [[10, 19], [30, 39], [50, 59]][:n]

        def rng_range():
            a = rng.choice([0, 0, rng.randint(0, n)])
            b = rng.choice([n, n, rng.randint(a, n)])
            if rng.random() < 0.06:
                a, b = rng.randint(-1, n + 1), rng.randint(-1, n + 1)
            return [a, b]

        ip = [rng.choice([1, 1, 1, -1]) for _ in range(n)]
        rp = [rng.choice([1, 1, 1, 1, 0, -1, -2]) for _ in range(n)]
        if rng.random() < 0.05:
            ip = ip[:-1] if rng.random() < 0.5 else ip + [1]
        if rng.random() < 0.5:
            k = rng.choice([1, 1, 2])
            pts = sorted(rng.sample(range(1, 70), 2 * k))
            blocks = [[pts[2 * i], pts[2 * i + 1]] for i in range(k)]
        else:
            # read ends at and next to the tolerances (delta 1, minor 3, major 8) around two split exons
            i, j = sorted([rng.randrange(n), rng.randrange(n)])
            off = [0, 1, 2, 3, 4, 7, 8, 9, -1, -2, -3, -4]
            a, b = split[i][0] - rng.choice(off), split[j][1] + rng.choice(off)
            blocks = [[a, b]] if a <= b else [[b, a]]
            if i < j and rng.random() < 0.6:
                blocks = [[a, split[i][1]], [split[j][0], b]] if a <= split[i][1] and split[j][0] <= b else blocks
        cases.append(("M.am.elongation", {"L": rng.choice([70, 100, 1000])},
                      {"params": TINY, "split": split, "iso_profile": ip, "iso_range": rng_range(), "read_profile": rp,
                       "read_range": rng_range(), "blocks": blocks}))
    return cases


def gen_elong_real(ctx, n_worlds, reads):
    """inputs of categorize_exon_elongation_subtype / check_read_ends taken from real GeneInfo + real read profiles"""
    M = _c01()
    from gen import c01_annot as A
    rng = ctx.rng
    cases = []
    for w in range(n_worlds):
        tiny = rng.random() < 0.3
        scale = 0.04 if tiny else 1.0
        isoforms = A.rand_annotation(rng, scale=scale, max_genes=2)
        params = M.tiny_params(rng) if tiny else M.make_params(rng.choice(A.PRESETS))
        try:
            built = M.Built(isoforms, params)
        except M.ERRS:
            continue
        pj = M.params_json(params)
        sp = built.gene.split_exon_profiles
        split = vlib.canon(sp.features)
        L = max(e[1] for e in sp.features) + rng.choice([1, 100, 5000])
        for _ in range(reads):
            t = rng.choice(isoforms)
            b = A.follow_read(rng, t["exons"], params.delta, end_slack=rng.choice([0, 2, int(80 * scale), int(400 * scale)])) \
                if rng.random() < 0.7 else A.far_read(rng, t["exons"], scale)
            if not b or not A.valid_blocks(b):
                continue
            try:
                prof = built.profiles([list(x) for x in b], (-1, -1, -1, -1))
            except M.ERRS:
                continue
            rsp = prof.read_split_exon_profile
            rip = prof.read_intron_profile
            ipf = built.gene.intron_profiles
            cases.append(("M.am.select_similar", {"L": L},
                          {"params": pj, "split": split, "n_introns": len(ipf.features), "blocks": vlib.canon(b),
                           "read_split_profile": list(rsp.gene_profile), "read_split_range": list(rsp.gene_profile_range),
                           "read_intron_profile": list(rip.gene_profile), "read_intron_range": list(rip.gene_profile_range),
                           "isos": [{"exons": vlib.canon(built.gene.all_isoforms_exons[t]), "split_profile": list(sp.profiles[t]),
                                     "split_range": list(sp.profile_ranges[t]), "intron_profile": list(ipf.profiles[t])}
                                    for t in built.ids]}))
            base = {"params": pj, "split": split, "read_profile": list(rsp.gene_profile),
                    "read_range": list(rsp.gene_profile_range), "blocks": vlib.canon(b)}
            ms = []
            for tid in built.ids:
                kw = dict(base, iso_profile=list(sp.profiles[tid]), iso_range=list(sp.profile_ranges[tid]),
                          n_exons=len(built.gene.all_isoforms_exons[tid]))
                ok = elong_ok(kw)
                if ok["wf"] and ok["common"]:
                    ms.append(kw)
            for kw in ms[:3]:
                cases.append(("M.am.elongation", {"L": L}, kw))
            if ms:
                rng.shuffle(ms)
                sel = ms[:rng.randint(1, 3)]
                matches = [{"iso_profile": m["iso_profile"], "iso_range": m["iso_range"], "n_exons": m["n_exons"],
                            "events": rng.choice([[ev("fsm")], [ev("undefined")], [ev("ism_left")], [ev("none")],
                                                  [ev("mono_exon_match")], [ev("ism_right"), ev("exon_elongation_left", info=9)]])}
                           for m in sel]
                cases.append(("M.am.check_read_ends", {"L": L},
                              dict(base, matches=matches,
                                   type=rng.choice(["unique", "unique", "ambiguous", "inconsistent", "unique_minor_difference"]))))
    return cases


def gen_profile_cases(rng, n_cases):
    cases = [("M.am.has_overlapping", {"L": 0}, WITNESS_OVERLAP)]
    for _ in range(n_cases):
        n = rng.randint(0, 6)
        p1 = [rng.choice([1, 1, -1, 0]) for _ in range(n)]
        p2 = [rng.choice([1, 1, 0, -1, -2]) for _ in range(n if rng.random() < 0.95 else n + 1)]
        a = rng.randint(0, n)
        b = rng.randint(a, n) if rng.random() < 0.9 else rng.randint(-1, n + 2)
        if rng.random() < 0.05:
            a = rng.randint(-2, n + 1)
        kw = {"p1": p1, "p2": p2, "range": [a, b]}
        cases.append(("M.am.has_overlapping", {"L": 0}, kw))
        cases.append(("M.am.difference", {"L": 0}, kw))
    return cases


def rand_chain(rng, start, n, exon_len, intron_len):
    out, pos = [], start
    for _ in range(n):
        ln = rng.randint(*exon_len)
        out.append([pos, pos + ln - 1])
        pos += ln + rng.randint(*intron_len)
    return out


def gen_polya_case(rng, tiny):
    """(iso, read, polya (A side), events): the read follows the isoform, possibly misses its last exons and/or has fake
    terminal exons; polyA positions near / at / far from the ends; events as the comparator / elongation code writes them"""
    if tiny:
        iso = rand_chain(rng, rng.choice([2, 5, 20, 100]), rng.randint(1, 4), (2, 12), (3, 20))
        params = TINY
        w = 6
    else:
        iso = rand_chain(rng, rng.choice([5, 30, 1000, 20000]), rng.randint(1, 5), (15, 300), (60, 900))
        params = NANOPORE
        w = 70
    n = len(iso)
    keep = rng.randint(1, n)
    missed = n >= 2 and rng.random() < 0.3
    if missed:
        # the last exons are short and lie beyond the polyA site: "missed terminal exons"
        keep = rng.randint(max(1, n - 2), n - 1)
        lim = params["max_fake_terminal_exon_len"] if rng.random() < 0.6 else params["max_missed_exon_len"]
        pos = iso[keep - 1][1]
        for i in range(keep, n):
            ln = rng.randint(1, max(1, lim // (n - keep)))
            gap = rng.randint(2, max(3, lim))
            iso[i] = [pos + gap, pos + gap + ln - 1]
            pos = iso[i][1]
    read = [list(e) for e in iso[:keep]]
    if rng.random() < 0.5:
        read = read[rng.randint(0, len(read) - 1):]
    read[-1][1] += rng.choice([0, 0, -w // 3, w // 3, -w, w])
    if read[-1][1] < read[-1][0]:
        read[-1][1] = read[-1][0]
    events = []
    fake = 0
    if rng.random() < 0.3:
        for _ in range(rng.choice([1, 1, 2])):
            a = read[-1][1] + rng.randint(3, 4 * w)
            read.append([a, a + rng.randint(1, w // 2 + 1)])
            fake += 1
    end = read[-1][1]
    r = rng.random()
    ext = int_ = -1
    pick = lambda: rng.choice([end + 1, end, end - rng.randint(0, w), iso[-1][1], iso[-1][1] + rng.randint(-w, w),
                               iso[keep - 1][1] + rng.randint(-w // 2, w), max(1, end - rng.randint(0, 6 * w))])
    if missed and rng.random() < 0.8:
        p0 = iso[keep - 1][1] + rng.choice([0, 1, 2, params["delta"], params["max_fake_terminal_exon_len"],
                                            params["max_fake_terminal_exon_len"] + 1, rng.randint(0, w)])
        read[-1][1] = max(read[-1][0], p0 - 1)
        if rng.random() < 0.7:
            ext = p0
        else:
            int_ = p0
    elif r < 0.55:
        ext = pick()
    elif r < 0.8:
        int_ = pick()
    elif r < 0.97:
        ext, int_ = pick(), pick()
    if rng.random() < 0.35:
        events.append(ev(rng.choice(["exon_elongation_right", "major_exon_elongation_right"]), info=rng.randint(7, 400)))
    if rng.random() < 0.3:
        events.append(ev(rng.choice(["intron_retention", "alt_left_site_novel", "fsm", "ism_left", "exon_elongation_left",
                                     "incomplete_intron_retention_left", "fake_terminal_exon_left"]),
                         iso=[0, 0], read=[0, 0]))
    events += [ev("fake_terminal_exon_right", read=[len(read) - 2 - i, len(read) - 2 - i]) for i in range(fake if rng.random() < 0.85 else rng.randint(0, 3))]
    if rng.random() < 0.12:
        events.append(ev("terminal_exon_misalignment_right", iso=[n - 2, n - 2]))
    if rng.random() < 0.15:
        events.append(ev("incomplete_intron_retention_right", iso=[max(0, n - 2), max(0, n - 2)], read=[0, 0]))
    if rng.random() < 0.1:
        events.append(ev(rng.choice(["exon_elongation_right", "major_exon_elongation_right"]), info=rng.randint(7, 400)))
    rng.shuffle(events)
    return params, iso, read, [ext, -1, int_, -1], events


def gen_polya_cases(rng, n_cases):
    cases = []
    for _ in range(n_cases):
        tiny = rng.random() < 0.35
        params, iso, read, polya, events = gen_polya_case(rng, tiny)
        hi = max(iso[-1][1], read[-1][1], max(polya))
        L = hi + rng.choice([0, 1, 2, 3, 50, 10000]) if rng.random() < 0.93 else rng.choice([0, -7, hi // 2])
        kw = {"params": params, "iso": iso, "read": read, "polya": polya, "events": events}
        # the polyT side: the mirror image (w.r.t. L0) of the generated polyA case
        L0 = hi + rng.choice([0, 5, 300])
        kt = _tin_pa({"L": L0}, kw)
        which = rng.random()
        if which < 0.3:
            cases.append(("M.am.verify_polya", {"L": L}, kw))
            cases.append(("M.am.verify_polyt", {"L": L}, kt))
        elif which < 0.75:
            strand = rng.choice(["+", "+", "+", "-", "."])
            if rng.random() < 0.25:
                kw = dict(kw, polya=[polya[0], -1, polya[2] if polya[2] != -1 else max(1, read[-1][1] - rng.randint(0, 30)), -1],
                          events=events + [ev("incomplete_intron_retention_right", iso=[0, 0], read=[0, 0])])
                kt = _tin_pa({"L": L0}, kw)
            cases.append(("M.am.verify_read_ends", {"L": L}, dict(kw, strand=strand)))
            cases.append(("M.am.verify_read_ends", {"L": L}, dict(kt, strand={"+": "-", "-": "+", ".": "."}[strand])))
        else:
            ext, int_ = polya[0], polya[2]
            for pos in (ext, int_):
                for c in (0, 1, 2, len(read), len(read) + 1):
                    cases.append(("M.am.shift_polya", {"L": L}, {"exons": read, "count": c, "pos": pos}))
                    cases.append(("M.am.shift_polyt", {"L": L}, {"exons": kt["read"], "count": c, "pos": T.mirror_pos(L0, pos)}))
            cases.append(("M.am.detect_beyond", {"L": L}, {"params": params, "iso": iso, "ext": ext, "int": int_, "events": events}))
            cases.append(("M.am.detect_before", {"L": L}, {"params": params, "iso": kt["iso"], "ext": kt["polya"][1],
                                                           "int": kt["polya"][3], "events": kt["events"]}))
            stop = iso[-1][1]
            cases.append(("M.am.check_if_close", {"L": L}, {"params": params, "stop": stop, "ext": ext, "int": int_,
                                                            "events": events, "ty": "correct_polya_site_right"}))
            cases.append(("M.am.check_if_close", {"L": L}, {"params": params, "stop": stop, "ext": int_, "int": ext,
                                                            "events": events[:1], "ty": "correct_polya_site_left"}))
            evs = events + ([ev("incomplete_intron_retention_right", iso=[1, 1], read=[0, 0])] if rng.random() < 0.5 else [])
            cases.append(("M.am.check_internal", {"L": L}, {"pos": rng.choice([int_, ext, -1]), "events": evs, "which": "a"}))
            cases.append(("M.am.check_internal", {"L": L}, {"pos": rng.choice([int_, ext, -1]),
                                                            "events": mirror_events(L0, 3, evs), "which": "t"}))
    return cases


def gen_candidate_cases(rng, n_cases):
    cases = []
    while len(cases) < n_cases:
        models = T.rand_gene(rng)
        rr = T.rand_read(rng, models, noise=rng.random() < 0.6)
        if not rr:
            continue
        read, _ = rr
        cases.append(("M.am.candidates", {"L": rng.choice([30000, 12345])},
                      {"params": NANOPORE, "blocks": vlib.canon(read), "isos": [vlib.canon(ex) for _, _, _, ex in models]}))
    return cases


def cases(ctx):
    if getattr(ctx, "_am_cases", None) is not None:
        return ctx._am_cases
    ctx._am_cases = _cases(ctx)
    return ctx._am_cases


def _cases(ctx):
    quick = ctx.tier == "quick"
    rng = ctx.rng
    out = [("M.am.elongation", {"L": 50}, WITNESS_ELONG), ("M.am.verify_polya", {"L": 1000}, WITNESS_POLYA),
           ("M.am.verify_read_ends", {"L": 1000}, dict(WITNESS_POLYA, strand="+")),
           ("M.am.detect_beyond", {"L": 1000}, {"params": NANOPORE, "iso": WITNESS_POLYA["iso"], "ext": 135, "int": -1, "events": []}),
           ("M.am.check_if_close", {"L": 999}, WITNESS_CLOSE),
           ("M.am.check_if_close", {"L": 2000}, WITNESS_CLOSE)]
    out += gen_table_cases(rng, quick)
    out += gen_elong_small(rng, 500 if quick else 6000)
    out += gen_elong_real(ctx, 25 if quick else 300, 8 if quick else 12)
    out += gen_polya_cases(rng, 500 if quick else 6000)
    out += gen_candidate_cases(rng, 120 if quick else 1500)
    out += gen_profile_cases(rng, 200 if quick else 3000)
    ctx.extra["am_universe"] = ("elongation: 1-3 split exons x profiles over {1,-1}/{1,0,-1,-2} x all sub-ranges x 1-2 read blocks "
                                "over 1..69 (tiny params) + real GeneInfo / read profiles of c01_annot annotations; polyA: 1-5 exon "
                                "isoforms at 2..20000, reads missing last exons / with fake terminal exons, positions at the ends, "
                                "event lists incl. elongation / fake / misalignment / intron-retention events")
    return out


# ------------------------------------------------------------------------------------------------------------------
# transformation / hypothesis checks against the Lean definitions

def transformation_checks(ctx):
    rng = ctx.rng
    reqs, expect = [], []

    def add(op, kw, exp):
        reqs.append((op, kw))
        expect.append(vlib.canon(exp))

    for nm in _names():
        e = [nm, sorted([rng.randint(0, 5), rng.randint(0, 5)]), list(UNDEF), rng.choice([0, -1, 17, 900])]
        L, n = rng.choice([1000, 30000]), rng.randint(1, 8)
        add("T.mirror_event", {"L": L, "n": n, "event": e}, mirror_event(L, n, e))
    for _ in range(40):
        pa = [rng.choice([-1, rng.randint(1, 2000)]) for _ in range(4)]
        L = rng.choice([1000, 1999, 2001])
        add("T.mirror_polya", {"L": L, "polya": pa}, mirror_polya(L, pa))
    allc = cases(ctx)
    for name, par, kw in allc:
        if name == "M.am.elongation" and rng.random() < 0.3:
            k = {x: kw[x] for x in EL_KEYS if x != "params"}
            add("T.mirror_elong", dict(k, L=par["L"]), {x: mirror_elong(par["L"], kw)[x] for x in k})
            add("X.am_elong_ok", k, elong_ok(kw))
        elif name in ("M.am.verify_polya", "M.am.verify_polyt") and rng.random() < 0.5:
            k = {x: kw[x] for x in ("iso", "read", "polya", "events")}
            add("X.am_polya_ok", dict(k, L=par["L"]), polya_ok(par["L"], kw["iso"], kw["read"], kw["polya"], kw["events"]))
        elif name == "M.am.verify_read_ends" and rng.random() < 0.5:
            k = {x: kw[x] for x in ("iso", "read", "polya", "events", "strand")}
            add("X.am_read_ends_ok", dict(k, L=par["L"]),
                bool(read_ends_ok(par["L"], kw["strand"], kw["iso"], kw["read"], kw["polya"], kw["events"])))
    outs = ctx.driver.run([vlib.req("C11." + op, **kw) for op, kw in reqs])
    for (op, kw), mo, exp in zip(reqs, outs, expect):
        ctx.evaluations += 1
        ctx.count("op:" + op)
        ctx.traces_validated += 1
        if mo != exp:
            ctx.disagree(op, kw, mo, exp)
