"""C02 growth: the tables a user opens after the per-chromosome dumps.

correspondence (model = driver ops of lean/IsoVerif/Driver/C02.lean, implementation = the real functions on real files
in scratch):
  * `combine_tables_gen`     Gen/CombineTables.lean vs the BEHAVIOUR of transform_counts / format_header /
                             convert_counts_to_tpm / combine_counts (translator self-check)
  * `combine_counts`         2-4 experiments: real counters -> dump -> merge_counts -> convert_counts_to_tpm ->
                             real src.stats.combine_counts (pandas), and synthetic tables written in the generated file
                             format; compared header, ROW ORDER and every cell (empty vs value, Decimal equality)
  * `grouped_run_dump`       tagged histories: a real ungrouped counter and a real grouped counter fed in the
                             CompositeCounter order; matrix + linear files vs the C09 counter model driven through the
                             C02 extractor model (`toCall`)
oracle (real code only): merge-order independence (same parts, permuted chr_ids), the columns of the combined tables
against the experiments' own tables, every (feature, group) cell of a grouped table against an independent recount
with the documented weights.
"""
import os
import re
import shutil
from collections import defaultdict
from decimal import Decimal
from fractions import Fraction
from types import SimpleNamespace

import vlib
from gen import counts as G

NA_STRINGS = {"", "#N/A", "#N/A N/A", "#NA", "-1.#IND", "-1.#QNAN", "-NaN", "-nan", "1.#IND", "1.#QNAN", "<NA>", "N/A",
              "NA", "NULL", "NaN", "None", "n/a", "nan", "null"}
COMBINED = ["combined_gene_counts.tsv", "combined_gene_tpm.tsv", "combined_transcript_counts.tsv",
            "combined_transcript_tpm.tsv"]
EXP_NAMES = ["XQ1", "Q7x", "Zb2", "Wy9"]      # prefixes that cannot re-occur in a file suffix (rreplace, see docs/C06.md)


def _c02():
    from props import C02
    return C02


def natural_key_text(name):
    """EVIDENCE ONLY (counts how many generated cases contain part files with equal sort keys); never used to decide
    what the expected merge result is - that is the driver's `merge_counts_named` (C06 model)."""
    return repr([int(t) if t.isdigit() else t.lower() for t in re.split(r"(\d+)", name)])


# ------------------------------------------------------------------------------------------------
# reading tables

def read_combined(path):
    """-> {"header": [...], "rows": [[feature, [cell | None, ...]], ...]} in file order; cells are the printed texts"""
    with open(path) as f:
        lines = [l.rstrip("\n") for l in f]
    lines = [l for l in lines if l != ""]
    hdr = lines[0].split("\t")
    rows = []
    for l in lines[1:]:
        p = l.split("\t")
        cells = p[1:] + [""] * (len(hdr) - len(p))
        rows.append([p[0], [None if c == "" else c for c in cells]])
    return {"header": hdr, "rows": rows}


def same_combined(mo, io):
    """model table (cells = printed texts of the individual files) vs pandas output (cells re-rendered floats)"""
    if mo.get("header") != io["header"]:
        return "header: model %s impl %s" % (mo.get("header"), io["header"])
    if [r[0] for r in mo["rows"]] != [r[0] for r in io["rows"]]:
        return "row ids / row order differ: model %s impl %s" % ([r[0] for r in mo["rows"]][:8], [r[0] for r in io["rows"]][:8])
    for (k, mc), (_, ic) in zip(mo["rows"], io["rows"]):
        if len(mc) != len(ic):
            return "row %s: width" % k
        for a, b in zip(mc, ic):
            if (a is None) != (b is None):
                return "row %s: empty vs value (%r / %r)" % (k, a, b)
            if a is not None and Decimal(a) != Decimal(b):
                return "row %s: model %s impl %s" % (k, a, b)
    return None


# ------------------------------------------------------------------------------------------------
# the generated protocol constants against the behaviour of the real functions

def check_generated(ctx, d):
    vlib.repo_on_path()
    import src.stats as ST
    C = _c02()
    mo = ctx.driver.run([vlib.req("C02.combine_tables_gen")])[0]
    ctx.evaluations += 1
    ctx.count("op:combine_tables_gen")
    if isinstance(mo, dict) and "driver_error" in mo:
        ctx.disagree("combine_tables_gen", {}, mo, None)
        return
    sub = os.path.join(d, "gencheck")
    os.makedirs(sub, exist_ok=True)
    # a real counter writes a real counts / TPM file
    c = C.make_counter(sub, "G0.gene", "gene", "unique_only", ["gA", "gB", "gC", "gD"], True)
    c.add_read_info_raw("r1", ["gA"])
    c.add_confirmed_features(["gA"])
    c.dump()
    with open(c.output_counts_file_name) as f:
        first = f.readline()
    impl_header = first.rstrip("\n").split("\t")
    with open(c.output_counts_file_name, "a") as f:
        for n in ("__ambiguous", "__no_feature", "__not_aligned"):
            f.write("%s\t0\n" % n)
    c.reads_for_tpm = 1
    c.convert_counts_to_tpm("simple")
    with open(c.output_tpm_file_name) as f:
        tl = [l.rstrip("\n") for l in f]
    n_rows = 4 + 3
    kept = len(ST.transform_counts(c.output_counts_file_name, "L", "count", False))
    kept_full = len(ST.transform_counts(c.output_counts_file_name, "L", "count", True))
    io = {"combine_dropped_tail": n_rows - kept, "full_keeps_all": kept_full == n_rows, "header": impl_header,
          "tpm_header": tl[0].split("\t"), "tpm_last_line": tl[-1].split("\t")[0]}
    exp_tpm_header = [mo["header"][0], mo["header"][1].replace(mo["tpm_header_replace"][0], mo["tpm_header_replace"][1])]
    ok = (mo["combine_dropped_tail"] == io["combine_dropped_tail"] and io["full_keeps_all"]
          and mo["header"] == io["header"] and exp_tpm_header == io["tpm_header"]
          and mo["tpm_unassigned_name"] == io["tpm_last_line"] and mo["join"][0] == io["header"][0]
          and sorted(x[2] for x in mo["combine_calls"]) == sorted(COMBINED))
    ctx.traces_validated += 1
    if not ok:
        ctx.disagree("combine_tables_gen", {}, mo, io)
    else:
        ctx.mark_nontrivial(["combine_tables_gen"])


# ------------------------------------------------------------------------------------------------
# combine_counts

def gen_pipeline_combine_cases(ctx, n):
    """experiments over ONE annotation (as in a real invocation), every table built by the real counters"""
    rng = ctx.rng
    C = _c02()
    cases = []
    for i in range(n):
        chrs = rng.sample(C.CHR_POOL, rng.randint(1, 3))
        anns = {c: G.Annotation(rng, rng.randint(1, 4), chrom=c + ".", weird_ids=rng.random() < 0.3) for c in chrs}
        oz = rng.random() < 0.5
        s = rng.choice(C.STRATEGIES)
        norm = rng.choice(["simple", "usable_reads"])
        exps = []
        for name in rng.sample(EXP_NAMES, rng.randint(2, 4)):
            e = {"name": name}
            order = rng.sample(chrs, len(chrs))
            for lvl in C.LEVELS:
                parts = []
                for c in order:
                    ann = anns[c]
                    n_ev = rng.choice([0, 1, 3, 10, 30])
                    ev = G.history(rng, ann, n_ev, mode="realistic", lvl=lvl, raw=False)
                    parts.append({"chr": c, "complete": (ann.all_genes if lvl == "gene" else ann.all_tx) if rng.random() < 0.8 else [],
                                  "events": ev})
                e[lvl] = {"id": 0, "s": s, "lvl": lvl, "output_zeroes": oz, "norm": norm,
                          "unaligned": rng.choice([0, 0, 5]), "parts": parts, "kind": "combine"}
            exps.append(e)
        cases.append({"id": i, "kind": "pipeline", "exps": exps})
    return cases


ID_POOL = ["g1", "g2", "g10", "G1", "_g3", "__x4", "__no_feature", "__ambiguous", "007", "1e5", "12", "3.50", "a b", "gé1",
           "γ2", "ENSG00000000003.15", "zz", "Z", "count", "TPM", "#x", "#feature_id", "#",
           # legal ids that pandas' default NA parsing used to read as missing keys (fix 896585b)
           "NA", "nan", "null", "None", "N/A", "NaN", "n/a", "<NA>", "NULL"]


def gen_synthetic_combine_cases(ctx, n):
    """tables written directly in the file format (feature rows + statistics lines / __unassigned line)"""
    rng = ctx.rng
    cases = []
    for i in range(n):
        names = rng.sample(["A", "B", "count", "TPM", "s_3", "E1", "x.y"], rng.randint(2, 4))
        pool = rng.sample(ID_POOL, rng.randint(0, len(ID_POOL)))
        exps = []
        for nm in names:
            e = {"name": nm}
            for what in ("gene", "transcript"):
                ids = [x for x in pool if rng.random() < 0.7]
                rng.shuffle(ids)
                e[what + "_counts"] = {"rows": [[k, rng.choice([0, 1, 25, 100, 150, 333, 12345678, 999999999])] for k in ids],
                                       "stats": [rng.randint(0, 9), rng.randint(0, 9), rng.randint(0, 99), rng.randint(0, 99)]}
                tids = [x for x in ids if rng.random() < 0.8]
                e[what + "_tpm"] = {"rows": [[k, rng.choice([0, 1, 500000000000, 333333333333, 1000000000000, 7])] for k in tids],
                                    "unassigned": rng.choice([0, 0, 250000000000, -5000000000])}
            exps.append(e)
        cases.append({"id": 10000 + i, "kind": "synthetic", "exps": exps})
    return cases


def fmt_fixed(q, dec):
    """'%.<dec>f' of q * 10^-dec, exactly (no float involved)"""
    return format(Decimal(q).scaleb(-dec), "f")


def write_synthetic(sub, exps, hdr_key="#feature_id"):
    """the files of one invocation, in the format the real writers use"""
    samples = []
    for e in exps:
        base = {}
        for what in ("gene", "transcript"):
            pre = os.path.join(sub, "%s.%s" % (e["name"], what))
            with open(pre + "_counts.tsv", "w") as f:
                f.write("%s\tcount\n" % hdr_key)
                for k, h in e[what + "_counts"]["rows"]:
                    f.write("%s\t%s\n" % (k, fmt_fixed(h, 2)))
                st = e[what + "_counts"]["stats"]
                for nm, v in zip(("__ambiguous", "__no_feature", "__not_aligned"), st):
                    f.write("%s\t%d\n" % (nm, v))
            with open(pre + "_tpm.tsv", "w") as f:
                f.write("%s\tTPM\n" % hdr_key)
                for k, v in e[what + "_tpm"]["rows"]:
                    f.write("%s\t%s\n" % (k, fmt_fixed(v, 6)))
                f.write("__unassigned\t%s\n" % fmt_fixed(e[what + "_tpm"]["unassigned"], 6))
            base[what] = pre
        samples.append(SimpleNamespace(prefix=e["name"], out_gene_counts_tsv=base["gene"],
                                       out_transcript_counts_tsv=base["transcript"]))
    return samples


def build_pipeline_experiments(case, sub):
    """real counters / merge_counts / convert_counts_to_tpm for every experiment; -> (samples, model experiments) or error"""
    C = _c02()
    samples, mexps = [], []
    for e in case["exps"]:
        me = {"name": e["name"]}
        base = {}
        for lvl in C.LEVELS:
            io = C.impl_merge_tpm(e[lvl], sub, label=e["name"], sub=sub)
            if vlib.is_err(io):
                return io, None
            me[lvl + "_counts"] = {"rows": io["merged"]["rows"], "stats": io["merged"]["stats"]}
            me[lvl + "_tpm"] = {"rows": [[f, int(v * 10 ** 6)] for f, v in io["tpm"]],
                                "unassigned": int(io["unassigned"] * 10 ** 6)}
            base[lvl] = io["counts_file"][:-len("_counts.tsv")]
        samples.append(SimpleNamespace(prefix=e["name"], out_gene_counts_tsv=base["gene"],
                                       out_transcript_counts_tsv=base["transcript"]))
        mexps.append(me)
    return samples, mexps


def impl_combine(samples, out):
    vlib.repo_on_path()
    import src.stats as ST
    os.makedirs(out, exist_ok=True)
    try:
        ST.combine_counts(SimpleNamespace(samples=samples), out)
    except Exception as ex:       # pandas raises its own exception types
        return {"error": "error", "exc": type(ex).__name__, "msg": str(ex)[:200]}
    return {n: read_combined(os.path.join(out, n)) for n in COMBINED}


NA_SEEN = [0]


def combine_domain_ok(mexps):
    """the input domain of the combine model: ids listed once per table (ids in pandas' default NA set - 'NA', 'nan',
    'null', ... - are INSIDE the domain since fix 896585b; only the empty id, which no writer produces, stays out)"""
    for e in mexps:
        for k in ("gene_counts", "transcript_counts", "gene_tpm", "transcript_tpm"):
            ids = [r[0] for r in e[k]["rows"]]
            if len(set(ids)) != len(ids) or "" in ids:
                return False
            if any(i in NA_STRINGS for i in ids):
                NA_SEEN[0] += 1
            if k.endswith("tpm") and "__unassigned" in ids:
                return False
    return True


def run_combine_case(case, d):
    """-> (model experiments | None, impl result)"""
    sub = os.path.join(d, "cmb%d" % case["id"])
    os.makedirs(sub, exist_ok=True)
    if case["kind"] == "pipeline":
        samples, mexps = build_pipeline_experiments(case, sub)
        if mexps is None:
            return None, samples
    else:
        mexps = case["exps"]
        samples = write_synthetic(sub, mexps)
    io = impl_combine(samples, os.path.join(sub, "combined"))
    return mexps, io


def combine_correspondence(ctx, d):
    quick = ctx.tier == "quick"
    cases = gen_pipeline_combine_cases(ctx, 20 if quick else 200) + gen_synthetic_combine_cases(ctx, 120 if quick else 1500)
    todo = []
    for c in cases:
        mexps, io = run_combine_case(c, d)
        ctx.count("op:combine_counts:" + c["kind"])
        if mexps is None:
            ctx.count("combine_impl_error_in_part")
            continue
        if not combine_domain_ok(mexps):
            ctx.count("combine_outside_domain")
            continue
        if any(r[0] in NA_STRINGS for e in mexps for k in ("gene_counts", "transcript_counts") for r in e[k]["rows"]):
            ctx.count("combine_with_na_like_id")
        todo.append((c, mexps, io))
        shutil.rmtree(os.path.join(d, "cmb%d" % c["id"]), ignore_errors=True)
    outs = ctx.driver.run([vlib.req("C02.combine_counts", exps=m) for _, m, _ in todo])
    for (c, mexps, io), mo in zip(todo, outs):
        ctx.evaluations += 1
        ctx.count("experiments:%d" % len(mexps))
        inp = {"kind": c["kind"], "exps": mexps}
        if isinstance(mo, dict) and "driver_error" in mo:
            ctx.disagree("combine_counts", inp, mo, None)
            continue
        ctx.traces_validated += 1
        if vlib.is_err(io):
            ctx.disagree("combine_counts", inp, "tables", io)
            continue
        why = None
        for n in COMBINED:
            w = same_combined(mo[n], io[n])
            if w:
                why = "%s: %s" % (n, w)
                break
        if why:
            ctx.disagree("combine_counts", inp, {"why": why}, {n: io[n] for n in COMBINED} if len(str(io)) < 3000 else "(large)")
        else:
            if any(any(x is None for x in r[1]) for n in COMBINED for r in mo[n]["rows"]):
                ctx.count("combine_with_absent_feature")
            if any(len(mo[n]["rows"]) > 1 for n in COMBINED):
                ctx.mark_nontrivial(["combine_counts", inp])
        if c["id"] % 37 == 0:
            ctx.sample({"op": "combine_counts", "input": inp if len(str(inp)) < 900 else "(large)",
                        "model": mo if len(str(mo)) < 900 else "(large)"})


# ------------------------------------------------------------------------------------------------
# grouped counters

GROUPS = ["NA", "a", "b", "B", "g10", "g2", "count_A", "cell 7"]


def gen_grouped_cases(ctx, n):
    rng = ctx.rng
    C = _c02()
    cases = []
    for i in range(n):
        ann = G.Annotation(rng, rng.randint(1, 5))
        lvl = rng.choice(C.LEVELS)
        mode = "realistic" if rng.random() < 0.7 else "adversarial"
        raw = rng.random() < 0.3
        groups = rng.sample(GROUPS, rng.randint(1, 5))
        ev = G.history(rng, ann, rng.choice([1, 2, 5, 20, 80]), mode=mode, lvl=lvl, raw=raw)
        stray = rng.random() < 0.05       # a read whose group is not in the universe: KeyError in the real counter
        tagged = [[e, ("zz_unknown" if (stray and rng.random() < 0.2) else rng.choice(groups))] for e in ev]
        rng.shuffle(groups)               # the iteration order of the `read_groups` set is arbitrary
        cases.append({"id": i, "s": rng.choice(C.STRATEGIES), "lvl": lvl,
                      "complete": (ann.all_genes if lvl == "gene" else ann.all_tx) if (not raw and rng.random() < 0.7) else [],
                      "groups": groups, "output_zeroes": rng.random() < 0.6, "fmt": rng.choice(["both", "both", "matrix", "linear"]),
                      "events": tagged, "kind": mode + ("+raw" if raw else "")})
    return cases


def apply_tagged(counter, ev, tag, i):
    k = ev["k"]
    if k == "read":
        ns = G.to_namespace(ev["a"], "read%d" % i)
        if ns is not None:
            ns.read_group = tag
        counter.add_read_info(ns)
    elif k == "raw":
        counter.add_read_info_raw("" if ev["noid"] else "read%d" % i, list(ev["fs"]), tag)
    elif k == "unassigned":
        counter.add_unassigned(ev["n"])
    elif k == "unaligned":
        counter.add_unaligned(ev["n"])
    elif k == "confirm":
        counter.add_confirmed_features(list(ev["fs"]))
    else:
        raise RuntimeError(k)


def impl_grouped(case, d):
    """real ungrouped + grouped counter, every call to the ungrouped one first (CompositeCounter), real dump of the
    grouped one; -> {"header", "matrix": [[f, [hundredths]]] | None, "linear": [[f, g, hundredths]] | None, "ungrouped": {f: h}}"""
    C = _c02()
    L = C._lrc()
    sub = os.path.join(d, "grp%d" % case["id"])
    os.makedirs(sub, exist_ok=True)
    mk = L.create_gene_counter if case["lvl"] == "gene" else L.create_transcript_counter
    u = mk(os.path.join(sub, "U.x"), case["s"], complete_feature_list=list(case["complete"]), read_groups=None,
           output_zeroes=case["output_zeroes"])
    g = mk(os.path.join(sub, "G.x"), case["s"], complete_feature_list=list(case["complete"]), read_groups=list(case["groups"]),
           output_zeroes=case["output_zeroes"], grouped_format=L.GroupedOutputFormat[case["fmt"]])
    try:
        for i, (ev, tag) in enumerate(case["events"]):
            apply_tagged(u, ev, tag, i)
            apply_tagged(g, ev, tag, i)
        u.dump()
        g.dump()
    except C.IMPL_ERRORS as ex:
        return {"error": "error", "exc": type(ex).__name__}
    header, matrix = None, None
    with open(g.output_counts_file_name) as f:
        lines = [l.rstrip("\n") for l in f if l.strip()]
    if lines:
        header = lines[0].split("\t")[1:]
        matrix = [[p[0], [int(Decimal(x) * 100) for x in p[1:]]] for p in (l.split("\t") for l in lines[1:])]
    linear = None
    with open(g.linear_output_file) as f:
        ll = [l.rstrip("\n") for l in f if l.strip()]
    if ll:
        linear = [[p[0], p[1], int(Decimal(p[2]) * 100)] for p in (l.split("\t") for l in ll[1:])]
    urows, _ = C.parse_counts_file(u.output_counts_file_name)
    shutil.rmtree(sub, ignore_errors=True)
    return {"header": header, "matrix": matrix, "linear": linear, "ungrouped": {f: h for f, h in urows}}


def same_grouped(mo, io):
    C = _c02()
    if vlib.is_err(mo) or vlib.is_err(io):
        return None if (vlib.is_err(mo) and vlib.is_err(io)) else "error mismatch"
    if (mo["matrix"] is None) != (io["matrix"] is None) or (mo["linear"] is None) != (io["linear"] is None):
        return "which files are written differs"
    if mo["matrix"] is not None:
        if mo["header"] != io["header"]:
            return "header: model %s impl %s" % (mo["header"], io["header"])
        if [r[0] for r in mo["matrix"]] != [r[0] for r in io["matrix"]]:
            return "matrix: feature lists differ"
        for (f, qs, hs), (_, ih) in zip(mo["matrix"], io["matrix"]):
            if len(hs) != len(ih):
                return "matrix %s: width" % f
            for q, h, x in zip(qs, hs, ih):
                if h != x and not (C.is_tie(C.frac(q), 100) and C.printed_ok(x, C.frac(q), 100)):
                    return "matrix %s: model %s impl %s" % (f, hs, ih)
    if mo["linear"] is not None:
        if [(t[0], t[1]) for t in mo["linear"]] != [(t[0], t[1]) for t in io["linear"]]:
            return "linear: (feature, group) lines differ"
        for (f, g, q, h), (_, _, x) in zip(mo["linear"], io["linear"]):
            if h != x and not (C.is_tie(C.frac(q), 100) and C.printed_ok(x, C.frac(q), 100)):
                return "linear %s/%s: model %s impl %s" % (f, g, h, x)
    return None


def grouped_correspondence(ctx, d):
    cases = gen_grouped_cases(ctx, 150 if ctx.tier == "quick" else 2500)
    outs = ctx.driver.run([vlib.req("C02.grouped_run_dump", **{k: c[k] for k in ("s", "lvl", "complete", "groups",
                                                                                 "output_zeroes", "fmt", "events")}) for c in cases])
    for c, mo in zip(cases, outs):
        ctx.evaluations += 1
        ctx.count("op:grouped_run_dump:" + c["kind"])
        ctx.count("groups:%d" % len(c["groups"]))
        inp = {k: v for k, v in c.items() if k != "id"}
        if isinstance(mo, dict) and "driver_error" in mo:
            ctx.disagree("grouped_run_dump", inp, mo, None)
            continue
        io = impl_grouped(c, d)
        ctx.traces_validated += 1
        why = same_grouped(mo, io)
        if vlib.is_err(mo):
            ctx.count("model_error")
        if why:
            ctx.disagree("grouped_run_dump", inp, {"why": why, "model": mo if len(str(mo)) < 1500 else "(large)"},
                         vlib.canon(io) if len(str(io)) < 1500 else "(large)")
        elif not vlib.is_err(mo) and mo["matrix"] and any(h != 0 for r in mo["matrix"] for h in r[2]):
            ctx.mark_nontrivial(["grouped_run_dump", inp])
        if c["id"] % 211 == 0:
            ctx.sample({"op": "grouped_run_dump", "input": inp if len(c["events"]) < 4 else "(%d events)" % len(c["events"]),
                        "model": mo if len(str(mo)) < 700 else "(large)"})


def correspondence(ctx, d):
    check_generated(ctx, d)
    combine_correspondence(ctx, d)
    grouped_correspondence(ctx, d)


# ------------------------------------------------------------------------------------------------
# oracle (real code only)

def oracle_merge_order(case, d):
    """the same part files merged under two orders of chr_ids: same rows up to row order, same statistics, same TPM"""
    C = _c02()
    if len(case["parts"]) < 2:
        return []
    a = C.impl_merge_tpm(dict(case), d, sub=os.path.join(d, "ord%d_a" % case["id"]))
    rev = dict(case, parts=list(reversed(case["parts"])))
    b = C.impl_merge_tpm(rev, d, sub=os.path.join(d, "ord%d_b" % case["id"]))
    if vlib.is_err(a) or vlib.is_err(b):
        return [] if (vlib.is_err(a) and vlib.is_err(b)) else [("merge_order_dependent", "one order raises: %s / %s" % (a if vlib.is_err(a) else "ok", b if vlib.is_err(b) else "ok"))]
    fails = []
    if sorted(map(tuple, a["merged"]["rows"])) != sorted(map(tuple, b["merged"]["rows"])):
        fails.append(("merge_order_dependent", "rows differ beyond their order"))
    if a["merged"]["stats"] != b["merged"]["stats"]:
        fails.append(("merge_order_dependent", "statistics %s vs %s" % (a["merged"]["stats"], b["merged"]["stats"])))
    if sorted((f, str(v)) for f, v in a["tpm"]) != sorted((f, str(v)) for f, v in b["tpm"]) or a["unassigned"] != b["unassigned"]:
        fails.append(("merge_order_dependent", "TPM tables differ beyond row order"))
    return fails


def oracle_combined(mexps, io):
    """every column of every combined table = the experiment's own table (values), empty cell iff the experiment has no
    row for the feature; no statistics line of a counts file survives unless a feature carries that id"""
    if vlib.is_err(io):
        return [("combined_table_differs", "combine_counts raised %s" % io)]
    fails = []
    names = [e["name"] for e in mexps]
    for n in COMBINED:
        lvl = "gene" if "gene" in n else "transcript"
        tpm = n.endswith("tpm.tsv")
        t = io[n]
        if t["header"] != ["#feature_id"] + names:
            fails.append(("combined_table_differs", "%s: header %s" % (n, t["header"])))
            continue
        ids = [r[0] for r in t["rows"]]
        if len(set(ids)) != len(ids):
            fails.append(("combined_table_differs", "%s: a feature has two rows" % n))
        union = set()
        for col, e in enumerate(mexps):
            key = lvl + ("_tpm" if tpm else "_counts")
            dec = 6 if tpm else 2
            own = {k: Fraction(v, 10 ** dec) for k, v in e[key]["rows"]}
            if tpm:
                own["__unassigned"] = Fraction(e[key]["unassigned"], 10 ** dec)
            union |= set(own)
            got = {r[0]: Fraction(Decimal(r[1][col])) for r in t["rows"] if r[1][col] is not None}
            if got != own:
                diff = sorted(set(got.items()) ^ set(own.items()), key=str)[:3]
                fails.append(("combined_table_differs", "%s column %s differs from its own table: %s" % (n, e["name"], diff)))
        if set(ids) != union:
            fails.append(("combined_table_differs", "%s: rows %s are no feature of any experiment" % (n, sorted(set(ids) ^ union)[:4])))
    return fails


def oracle_grouped(case, d):
    """every printed (feature, group) cell = %.2f of the documented weights of the records of that group (or 0 for an
    unconfirmed feature); the groups of a row add up to the ungrouped table within the rounding of the cells"""
    C = _c02()
    io = impl_grouped(case, d)
    if vlib.is_err(io) or io["matrix"] is None:
        return []
    fails = []
    if io["header"] != sorted(case["groups"]):
        fails.append(("grouped_table_not_sum", "header %s is not the sorted group universe" % io["header"]))
        return fails
    by_group = defaultdict(list)
    for ev, tag in case["events"]:
        by_group[tag].append(ev)
    sums = {g: C.recount(by_group[g], case["lvl"], case["s"])[0] for g in io["header"]}
    must = C.recount([ev for ev, _ in case["events"]], case["lvl"], case["s"])[1]
    for f, hs in io["matrix"]:
        for g, h in zip(io["header"], hs):
            if h != 0 and not C.printed_ok(h, sums[g].get(f, Fraction(0)), 100):
                fails.append(("grouped_table_not_sum", "%s / group %s printed %s/100, documented sum of the group's records %s"
                              % (f, g, h, sums[g].get(f, 0))))
        if f in io["ungrouped"] and abs(sum(hs) - io["ungrouped"][f]) > (len(hs) + 1) / 2 + 1:
            fails.append(("grouped_not_partition", "%s: groups add up to %s/100, ungrouped table %s/100" % (f, sum(hs), io["ungrouped"][f])))
        if f in must and sum(hs) == 0:
            fails.append(("confirmed_feature_zeroed", "%s has a unique spliced read, grouped row is all zero" % f))
    return fails


def oracle(ctx, d, disagreements):
    C = _c02()
    n = 0
    quick = ctx.tier == "quick"
    # the disagreeing inputs first
    for dis in disagreements[:120]:
        if len(ctx.failures) > 40:
            break
        inp = dis["input"]
        if dis["op"] == "combine_counts" and isinstance(inp, dict) and "exps" in inp:
            sub = os.path.join(d, "ocmb_seed%d" % n)
            os.makedirs(sub, exist_ok=True)
            io = impl_combine(write_synthetic(sub, inp["exps"]), os.path.join(sub, "combined"))
            for kind, detail in oracle_combined(inp["exps"], io):
                ctx.fail(kind, {"mode": "tables:combine", "exps": inp["exps"]}, detail)
            n += 1
        elif dis["op"] == "grouped_run_dump" and isinstance(inp, dict) and "events" in inp:
            for kind, detail in oracle_grouped(dict(inp, id=90000 + n), d):
                ctx.fail(kind, {"mode": "tables:grouped", "case": inp}, detail)
            n += 1
        elif dis["op"] == "merge_counts" and isinstance(inp, dict) and "parts" in inp:
            for kind, detail in oracle_merge_order(dict(inp, id=91000 + n), d):
                ctx.fail(kind, {"mode": "tables:merge_order", "case": inp}, detail)
            n += 1
    # merge order
    for c in C.gen_merge_cases(ctx, mode_weights=(1.0, 0.0))[:(25 if quick else 300)]:
        for kind, detail in oracle_merge_order(dict(c, id=92000 + c["id"]), d):
            ctx.fail(kind, {"mode": "tables:merge_order", "case": C.strip_case(c)}, detail)
        n += 1
    # combined tables (files as the writers produce them; the domain the property quantifies over: distinct plain ids)
    for c in gen_pipeline_combine_cases(ctx, 8 if quick else 80) + gen_synthetic_combine_cases(ctx, 40 if quick else 400):
        c = dict(c, id=93000 + c["id"])
        mexps, io = run_combine_case(c, d)
        shutil.rmtree(os.path.join(d, "cmb%d" % c["id"]), ignore_errors=True)
        if mexps is None or not combine_domain_ok(mexps):
            continue
        for kind, detail in oracle_combined(mexps, io)[:2]:
            ctx.fail(kind, {"mode": "tables:combine", "exps": mexps}, detail)
        n += 1
        if len(ctx.failures) > 40:
            break
    # grouped tables, single-locus domain (no re-flagged tie records), groups inside the universe
    for c in gen_grouped_cases(ctx, 60 if quick else 800):
        c["events"] = [[e, (t if t in c["groups"] else c["groups"][0])] for e, t in c["events"] if not C.is_tie_record(e, c["lvl"])]
        c["fmt"] = "both"
        for kind, detail in oracle_grouped(dict(c, id=94000 + c["id"]), d)[:2]:
            ctx.fail(kind, {"mode": "tables:grouped", "case": {k: v for k, v in c.items() if k != "id"}}, detail)
        n += 1
        if len(ctx.failures) > 60:
            break
    ctx.extra["oracle_tables_cases"] = n


def replay(ctx, failure, d):
    inp = failure["input"]
    mode = inp["mode"]
    if mode == "tables:combine":
        sub = os.path.join(d, "rcmb")
        os.makedirs(sub, exist_ok=True)
        io = impl_combine(write_synthetic(sub, inp["exps"]), os.path.join(sub, "combined"))
        return any(k == failure["kind"] for k, _ in oracle_combined(inp["exps"], io))
    if mode == "tables:grouped":
        return any(k == failure["kind"] for k, _ in oracle_grouped(dict(inp["case"], id=1), d))
    if mode == "tables:merge_order":
        return any(k == failure["kind"] for k, _ in oracle_merge_order(dict(inp["case"], id=1), d))
    return False
