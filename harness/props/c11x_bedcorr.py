"""C11 extension — BED12 output (Model/Bed.lean, C14), exon corrector (Model/Corrector.lean, C14), GTF output path
(Model/Gtf.lean, C03): translation for all of them, strand flip for the BED record and for the feature lines of one
transcript.  Theorems: lean/IsoVerif/Props/C11Bed.lean, C11Corrector.lean, C11Gtf.lean.

Real functions (adapters of props/C14.py and props/C03.py): BEDPrinter.add_read_info, match_genomic_features,
ExonCorrector.correct_assigned_read / process_events, validate_exons, GFFPrinter.dump (histories of calls),
TranscriptModel.from_reference_transcript, construct_fl_isoforms (novel exons), generate_monoexon_from_clustered,
correct_novel_transcript_ends.  Model values come from the owning properties' driver ops (`C14.*`, `C03.*`); the new
transformations (`shiftBed`, `mirrorBed`, `shiftTM`, `mirrorTM`, `shiftCall`, `shiftLine`, `mirrorLine`, `shiftExL`)
have Python twins here that are compared with the Lean definitions through `C11.T.*` on every run."""
import atexit
import json
import shutil
import types

import vlib
from gen import c11gen as T
from gen import c03gen as G3
from gen import c14gen as G14
from props.c11ext import Rel

PROPS = ["IsoVerif/Props/C11Bed.lean", "IsoVerif/Props/C11Corrector.lean", "IsoVerif/Props/C11Gtf.lean"]
TARGETS = ["IsoVerif.Props.C11Bed", "IsoVerif.Props.C11Corrector", "IsoVerif.Props.C11Gtf"]

KS = [1, 255, 256, 1000, -7]


def _c14():
    from props import C14 as M
    return M


def _c03():
    from props import C03 as M
    return M


def _tl(l):
    return [tuple(x) for x in l]


# ---------------------------------------------------------------------------------------------------------------------
# Python twins of Model/C11SymBedCorr.lean

BED_NUM = ["chromStart", "chromEnd", "thickStart", "thickEnd"]


def render_bed(r):
    return "\t".join([r["chrom"], str(r["chromStart"]), str(r["chromEnd"]), r["name"], "0", r["strand"], str(r["thickStart"]),
                      str(r["thickEnd"]), "0", str(r["blockCount"]), ",".join(str(x) for x in r["blockSizes"]),
                      ",".join(str(x) for x in r["blockStarts"])]) + "\n"


def bed_blocks(r):
    return [[r["chromStart"] + st + 1, r["chromStart"] + st + sz] for st, sz in zip(r["blockStarts"], r["blockSizes"])]


def _finish_bed(r):
    r["blocks"] = bed_blocks(r)
    r["line"] = render_bed(r)
    return r


def shift_bed(k, r):
    r = dict(r)
    for f in BED_NUM:
        r[f] = r[f] + k
    return _finish_bed(r)


def mirror_bed(L, strand, r):
    w = r["chromEnd"] - r["chromStart"]
    m = dict(r, chromStart=L - r["chromEnd"], chromEnd=L - r["chromStart"], strand=strand, thickStart=L - r["chromEnd"],
             thickEnd=L - r["chromEnd"], blockSizes=list(reversed(r["blockSizes"])),
             blockStarts=list(reversed([w - (st + sz) for st, sz in zip(r["blockStarts"], r["blockSizes"])])))
    return _finish_bed(m)


FLIP = {"+": "-", "-": "+"}


def flip_code(s):
    return 1 if s == 0 else 0 if s == 1 else s


def shift_feat(k, f):
    return [f[0] + k, f[1] + k, f[2]]


def shift_tmodel(k, m):
    return dict(m, exons=vlib.canon(T.shift_l(k, _tl(m["exons"]))), other=[shift_feat(k, f) for f in m["other"]])


def mirror_tmodel(L, m):
    return dict(m, strand=flip_code(m["strand"]), exons=vlib.canon(T.mirror_l(L, _tl(m["exons"]))),
                other=[[L + 1 - f[1], L + 1 - f[0], f[2]] for f in reversed(m["other"])])


def shift_ctx(k, c):
    return {"chr": c["chr"], "regions": [[g, list(T.shift_iv(k, tuple(r)))] for g, r in c["regions"]],
            "isoforms": [dict(r, exons=vlib.canon(T.shift_l(k, _tl(r["exons"]))), other=[shift_feat(k, f) for f in r["other"]])
                         for r in c["isoforms"]]}


def shift_calls(k, calls):
    return [{"ctx": shift_ctx(k, c["ctx"]), "models": [shift_tmodel(k, m) for m in c["models"]]} for c in calls]


def shift_line(k, l):
    if l[0] == "feat":
        return l[:3] + [l[3] + k, l[4] + k] + l[5:]
    return l[:2] + [l[2] + k, l[3] + k] + l[4:]


def mirror_line(L, l):
    if l[0] == "feat":
        return l[:3] + [L + 1 - l[4], L + 1 - l[3], flip_code(l[5])] + l[6:]
    return l[:2] + [L + 1 - l[3], L + 1 - l[2], flip_code(l[4])] + l[5:]


def mirror_idx(n, r):
    return [n - 1 - r[1], n - 1 - r[0]]


def mirror_event(n, m, e):
    return {"t": T.swap_lr(e["t"]), "iso": mirror_idx(m, e["iso"]), "read": mirror_idx(n, e["read"])}


def mirror_emap(n, m, emap):
    return [[n - 1 - e["read"][1], mirror_event(n, m, e)] for k, e in emap]


def mirror_micro(n, m, micro):
    """Model/C11SymBedCorr.lean `mirrorMicroMap`: read exon k of n + 1 -> n - k, isoform intron j -> m - 1 - j, event order reversed"""
    return [[n - k, m - 1 - j] for k, j in reversed(micro)]


def mirror_event_s(n, m, e):
    """Model/C11SymBedCorr.lean `mirrorMEventS`: the two sentinels of read_region are kept (undefined region: unchanged;
    absent position + read exon k: absent position + exon n - k), every other event is `mirror_event`"""
    if list(e["read"]) == [G14.UNDEF, G14.UNDEF]:
        return {"t": T.swap_lr(e["t"]), "iso": mirror_idx(m, e["iso"]), "read": list(e["read"])}
    if e["read"][0] == G14.ABSENT:
        return {"t": T.swap_lr(e["t"]), "iso": mirror_idx(m, e["iso"]), "read": [G14.ABSENT, n - e["read"][1]]}
    return mirror_event(n, m, e)


def mirror_event_list(n, m, evs):
    """Model/C11SymBedCorr.lean `mirrorEventList` (compared with the driver op `C11.T.mirror_event_list` on every run):
    the event LIST of the mirrored read as JunctionComparator would emit it, every event seen from the other end
    (`mirror_event_s`), in the opposite order"""
    return [mirror_event_s(n, m, e) for e in reversed(evs)]


def split_event_list(case):
    """what correct_misalignments makes of the event list: (event map entries, micro bindings, keys distinct?)"""
    emap, micro = [], []
    for e in case["events"]:
        if e["read"] == [G14.UNDEF, G14.UNDEF]:
            continue
        if e["read"][0] == G14.ABSENT:
            if e["t"] == "fake_micro_intron_retention" and case["flags"]["microintron_retention"]:
                micro.append([e["read"][1], e["iso"][0]])
        else:
            emap.append([e["read"][0], e])
    return emap, micro


def mirror_err(n, err):
    """err: per read intron [[indelL, mmL], [indelR, mmR]] -> the table of the mirrored read (model default (1, 0))"""
    get = lambda i, left: (err[i][0 if left else 1] if 0 <= i < len(err) else [1, 0])
    return [[get(n - 1 - i, False), get(n - 1 - i, True)] for i in range(n)]


def mirror_case(L, case):
    n = max(0, len(case["exons"]) - 1)
    return dict(case, family=[vlib.canon(T.mirror_l(L, _tl(t))) for t in case["family"]],
                exons=vlib.canon(T.mirror_l(L, _tl(case["exons"]))), err=mirror_err(n, case["err"]))


# ---------------------------------------------------------------------------------------------------------------------
# adapters

_STATE = {}


def _cleanup():
    b = _STATE.pop("bed", None)
    if b is not None:
        b.close()
    d = _STATE.pop("scratch", None)
    if d:
        shutil.rmtree(d, ignore_errors=True)


atexit.register(_cleanup)


def _bed_harness():
    if "bed" not in _STATE:
        _STATE["bed"] = _c14().BedHarness()
    return _STATE["bed"]


def _scratch():
    if "scratch" not in _STATE:
        _STATE["scratch"] = vlib.scratch_dir("isoverif_c11x_")
    return _STATE["scratch"]


def parse_bed_line(line):
    f = line.rstrip("\n").split("\t")
    ints = lambda s: [int(x) for x in s.split(",")] if s else []
    r = {"chrom": f[0], "chromStart": int(f[1]), "chromEnd": int(f[2]), "name": f[3], "strand": f[5], "thickStart": int(f[6]),
         "thickEnd": int(f[7]), "blockCount": int(f[9]), "blockSizes": ints(f[10]), "blockStarts": ints(f[11])}
    r["blocks"] = bed_blocks(r)
    r["line"] = line
    return r


def impl_bed(kw):
    """the real BEDPrinter.add_read_info on one read; the written line parsed back into the record"""
    kwb = {"assignment": True, "type": True, "gene_info": "present", "checker_kind": "all", "accepts": True,
           "print_corrected": False, "chrom": kw["chrom"], "name": kw["name"], "strand": kw["strand"],
           "exons": kw["exons"], "corrected": []}
    out = _bed_harness().call(kwb)
    if isinstance(out, str):
        return parse_bed_line(out)
    return out


def model_bed(kw):
    return vlib.req("C14.bed_record", chrom=kw["chrom"], name=kw["name"], strand=kw["strand"], exons=kw["exons"])


def _with_text(kw, v):
    return dict(v, chrom=kw["chrom"], name=kw["name"], strand=kw["strand"])


def eq_bed(a, b):
    if vlib.is_err(a) or vlib.is_err(b):
        return vlib.is_err(a) and vlib.is_err(b)
    keys = BED_NUM + ["blockCount", "blockSizes", "blockStarts", "blocks", "line"]
    return all(a.get(x) == b.get(x) for x in keys)


def eq_kind(a, b):
    """errors must be the SAME exception class (index / assertion / fuel)"""
    if vlib.is_err(a) or vlib.is_err(b):
        return vlib.is_err(a) and vlib.is_err(b) and a.get("error") == b.get("error")
    return a == b


_CACHE = {}


def _car(case):
    key = "car" + json.dumps(case, sort_keys=True)
    if key not in _CACHE:
        if len(_CACHE) > 20000:
            _CACHE.clear()
        _CACHE[key] = _c14().run_correct_assigned_read(case)
    return _CACHE[key]


def _pev(kw):
    key = "pev" + json.dumps(kw, sort_keys=True)
    if key not in _CACHE:
        if len(_CACHE) > 20000:
            _CACHE.clear()
        _CACHE[key] = _c14().run_process_events(kw["case"], [(k, e) for k, e in kw["emap"]], kw.get("micro", []))
    return _CACHE[key]


def shift_case(k, case):
    return dict(case, family=[vlib.canon(T.shift_l(k, _tl(t))) for t in case["family"]],
                exons=vlib.canon(T.shift_l(k, _tl(case["exons"]))))


def impl_history(kw):
    io = _c03().real_history(kw["calls"], _scratch())
    return io


def eq_history(a, b):
    if vlib.is_err(a) or vlib.is_err(b):
        return vlib.is_err(a) and vlib.is_err(b)
    return a["lines"] == b["lines"] and sorted(a["printed"]) == sorted(b["printed"])


def impl_tx_lines(kw):
    """what dump writes for one model (empty GeneInfo): the transcript line and the feature lines"""
    io = _c03().real_history([{"ctx": {"chr": kw["m"]["chr"], "regions": [], "isoforms": []}, "models": [kw["m"]]}], _scratch())
    return io if vlib.is_err(io) else [l for l in io["lines"] if l[0] != "gene"]


def model_tx_lines(kw):
    return vlib.req("C03.dump_history", calls=[{"ctx": {"chr": kw["m"]["chr"], "regions": [], "isoforms": []}, "models": [kw["m"]]}])


def eq_tx_lines(a, b):
    def nz(v):
        if isinstance(v, dict) and "lines" in v:
            return [l for l in v["lines"] if l[0] != "gene"]
        return v
    a, b = nz(a), nz(b)
    if vlib.is_err(a) or vlib.is_err(b):
        return vlib.is_err(a) and vlib.is_err(b)
    return a == b


def impl_from_reference(kw):
    TP, GI, C, GB, FU, IDP = _c03()._mods()
    inv = {v: k for k, v in _c03().kinds().items()}
    kd = _c03().kinds()
    c = kw["ctx"]
    iso = {"T%d" % r["tid"]: r for r in c["isoforms"]}
    gi = types.SimpleNamespace(chr_id="c%d" % c["chr"],
                               isoform_strands={t: _c03().STRANDS[r["strand"]] for t, r in iso.items()},
                               gene_id_map={t: "G%d" % r["gid"] for t, r in iso.items()},
                               all_isoforms_exons={t: _tl(r["exons"]) for t, r in iso.items()},
                               sources={t: "src" for t in iso},
                               other_features={t: [(a, b, inv[k]) for a, b, k in r["other"]] for t, r in iso.items()})
    try:
        m = GI.TranscriptModel.from_reference_transcript(gi, "T%d" % kw["isoform"])
    except KeyError:
        return {"error": "error", "exc": "KeyError"}
    return {"chr": int(m.chr_id[1:]), "strand": _c03().STRANDS.index(m.strand), "tid": int(m.transcript_id[1:]),
            "gid": int(m.gene_id[1:]), "exons": vlib.canon(m.exon_blocks),
            "known": m.transcript_type == GI.TranscriptModelType.known,
            "other": [[a, b, kd[k]] for a, b, k in m.other_features]}


# ---------------------------------------------------------------------------------------------------------------------
# hypotheses of the theorems

def pos_stable(k, l):
    return all((0 < x[0]) == (0 < x[0] + k) for x in l)


VALIDATE_WITNESS = ({"k": -1}, {"l": [[1, 2]]})
DUMP_WITNESS = ({"k": -1}, {"calls": [{"ctx": {"chr": 0, "regions": [], "isoforms": []},
                                       "models": [{"chr": 0, "strand": 0, "tid": 1, "gid": 2, "exons": [[1, 2]],
                                                   "known": False, "other": []}]}]})
ENDS_WITNESS = ({"k": 10}, {"exons": [[-5, 10]], "reads": [[0, 10]], "apa": 1})
MIRROR_UNSTRANDED_WITNESS = ({"L": 10}, {"m": {"chr": 0, "strand": 2, "tid": 0, "gid": 0, "exons": [[1, 2], [4, 5]],
                                              "known": True, "other": []}})
MIRROR_OTHER_WITNESS = ({"L": 10}, {"m": {"chr": 0, "strand": 0, "tid": 0, "gid": 0, "exons": [[1, 10]], "known": True,
                                         "other": [[1, 10, -1]]}})


def _is(w, par, kw):
    return vlib.canon(par) == vlib.canon(w[0]) and vlib.canon(kw) == vlib.canon(w[1])


def dom_validate(par, kw):
    if pos_stable(par["k"], kw["l"]):
        return True
    return "witness" if _is(VALIDATE_WITNESS, par, kw) else False


def dom_history(par, kw):
    if all(pos_stable(par["k"], m["exons"]) for c in kw["calls"] for m in c["models"]):
        return True
    return "witness" if _is(DUMP_WITNESS, par, kw) else False


def dom_ends(par, kw):
    k = par["k"]
    if all((a == 0) == (a + k == 0) and (b == 0) == (b + k == 0) for a, b in kw["reads"]):
        return True
    return "witness" if _is(ENDS_WITNESS, par, kw) else False


def is_sd(l):
    return all(a <= b for a, b in l) and all(l[i][1] < l[i + 1][0] for i in range(len(l) - 1))


def dom_mirror_lines(par, kw):
    m = kw["m"]
    if not m["other"] and is_sd(m["exons"]) and m["strand"] in (0, 1):
        return True
    if _is(MIRROR_UNSTRANDED_WITNESS, par, kw) or _is(MIRROR_OTHER_WITNESS, par, kw):
        return "witness"
    return False


# the two audit inputs (audit 2-C, C11 G5 / G6; Props/C11Corrector.lean `mirror_processEventsOld_last_exon_witness`,
# `…_several_witness`): a micro intron retained in the LAST read exon, two micro introns retained in one exon
_MICRO_FLAGS = {"fuzzy_junctions": False, "intron_shifts": False, "skipped_exons": False, "terminal_exons": False,
                "fake_terminal_exons": False, "microintron_retention": True}
MICRO_REGRESSIONS = [
    ({"L": 9000}, {"case": {"family": [[[6000, 6300], [7000, 7300], [7800, 8091], [8100, 8300]]], "iso_index": 0,
                            "exons": [[6000, 6300], [7000, 7300], [7800, 8300]], "delta": 6, "flags": _MICRO_FLAGS,
                            "err": [[[0, 0], [0, 0]], [[0, 0], [0, 0]]], "noninformative": False, "no_match": False,
                            "events": []},
                   "emap": [], "micro": [[2, 2]], "keep": True}),
    ({"L": 5000}, {"case": {"family": [[[4086, 4108], [4148, 4236], [4257, 4318], [4401, 4500]]], "iso_index": 0,
                            "exons": [[4086, 4318], [4401, 4500]], "delta": 6, "flags": _MICRO_FLAGS,
                            "err": [[[0, 0], [0, 0]]], "noninformative": False, "no_match": False, "events": []},
                   "emap": [], "micro": [[0, 0], [0, 1]], "keep": True}),
]

TERMINAL_ISO = ("terminal_exon_misalignment_left", "terminal_exon_misalignment_right")
USES_ISO = TERMINAL_ISO + ("intron_shift", "exon_misalignment")


def micro_wf(n, m, micro):
    """Lemmas/C11CorrectorMirror.lean `MicroWF n m mm`: ANY read exon 0..n (first and last included), any number of
    bindings per exon, in-range isoform intron index"""
    return all(0 <= k <= n and 0 <= j < m for k, j in micro)


def emap_wf(n, m, emap):
    """Lemmas/C11CorrectorMirror.lean `EmapWF n m emap` (hypothesis of `ProcessEventsMirror` = theorem mirror_dual_processEvents)"""
    keys = [k for k, _ in emap]
    if len(set(keys)) != len(keys):
        return False
    for k, e in emap:
        r, i = e["read"], e["iso"]
        if k >= 0:
            if not (r[0] == k and r[0] <= r[1] and 0 <= r[0] < n and 0 <= r[1] < n):
                return False
            if e["t"] in USES_ISO and not (0 <= i[0] < m and 0 <= i[1] < m):
                return False
            if e["t"] in TERMINAL_ISO and i[0] != i[1]:
                return False
        else:
            return False
    for k, e in emap:
        for k2, _ in emap:
            if 0 <= k < k2 and not e["read"][1] < k2:
                return False
    left = [e for _, e in emap if e["t"] in ("fake_terminal_exon_left", "terminal_exon_misalignment_left")]
    right = [e for _, e in emap if e["t"] in ("fake_terminal_exon_right", "terminal_exon_misalignment_right")]
    return len(left) <= 1 and len(right) <= 1


def dom_mirror_events(par, kw):
    case = kw["case"]
    if case["flags"]["fuzzy_junctions"] or len(case["exons"]) < 1 or not is_sd([tuple(e) for e in case["exons"]]):
        return False
    n = len(G14.introns_of(_tl(case["exons"])))
    if n != len(case["exons"]) - 1:
        return False
    m = len(G14.introns_of(_tl(case["family"][case["iso_index"]])))
    return emap_wf(n, m, kw["emap"]) and micro_wf(n, m, kw.get("micro", []))


def dom_mirror_car(par, case):
    """event lists whose event map / micro bindings are well formed (`EmapWF`, `MicroWF`), fuzzy correction off"""
    if case["flags"]["fuzzy_junctions"] or len(case["exons"]) < 2 or not is_sd([tuple(e) for e in case["exons"]]):
        return False
    n = len(case["exons"]) - 1
    m = len(G14.introns_of(_tl(case["family"][case["iso_index"]])))
    emap, micro = split_event_list(case)
    # Props/C11Corrector.lean `EventsMirrorable`: EmapWF, MicroWF, an absent-sentinel event names ONE isoform intron,
    # fewer than 2^31 read introns
    single = all(e["iso"][0] == e["iso"][1] for e in case["events"] if e["read"][0] == G14.ABSENT)
    return emap_wf(n, m, emap) and micro_wf(n, m, micro) and single and n <= G14.ABSENT


def _tin_mirror_car(par, case):
    n = len(case["exons"]) - 1
    m = len(G14.introns_of(_tl(case["family"][case["iso_index"]])))
    return dict(mirror_case(par["L"], case), events=mirror_event_list(n, m, case["events"]))


def _mirror_res(par, kw, v):
    return {"region": list(T.mirror_iv(par["L"], tuple(v["region"]))), "introns": vlib.canon(T.mirror_l(par["L"], _tl(v["introns"])))}


def _tin_mirror_events(par, kw):
    case = kw["case"]
    n = len(case["exons"]) - 1
    m = len(G14.introns_of(_tl(case["family"][case["iso_index"]])))
    return {"case": mirror_case(par["L"], case), "emap": mirror_emap(n, m, kw["emap"]),
            "micro": mirror_micro(n, m, kw.get("micro", []))}


# ---------------------------------------------------------------------------------------------------------------------
# relations

def _shift_res(par, kw, v):
    return {"region": list(T.shift_iv(par["k"], tuple(v["region"]))), "introns": vlib.canon(T.shift_l(par["k"], _tl(v["introns"])))}


RELS = [
    # ---- BED
    Rel("S.bed_record", "shift_equivariant_bedRecord / shift_equivariant_bed_blocks / shift_equivariant_render",
        model=model_bed, impl=impl_bed,
        tin=lambda par, kw: dict(kw, exons=vlib.canon(T.shift_l(par["k"], _tl(kw["exons"])))),
        tout=lambda par, kw, v: shift_bed(par["k"], _with_text(kw, v)), eq=eq_bed),
    Rel("M.bed_record", "mirror_dual_bedRecord / mirror_dual_bed_blocks",
        model=model_bed, impl=impl_bed,
        tin=lambda par, kw: dict(kw, strand=FLIP.get(kw["strand"], kw["strand"]),
                                 exons=vlib.canon(T.mirror_l(par["L"], _tl(kw["exons"])))),
        tout=lambda par, kw, v: mirror_bed(par["L"], FLIP.get(kw["strand"], kw["strand"]), _with_text(kw, v)), eq=eq_bed,
        nontrivial=lambda kw, v: not vlib.is_err(v) and len(kw["exons"]) > 1),
    # ---- corrector
    Rel("S.match_genomic_features", "shift_equivariant_matchGenomicFeatures",
        model=lambda kw: vlib.req("C14.match_genomic_features", **kw),
        impl=lambda kw: _c14().run_match_genomic(kw["known"], kw["reads"], kw["delta"]),
        tin=lambda par, kw: {"delta": kw["delta"], "known": vlib.canon(T.shift_l(par["k"], _tl(kw["known"]))),
                             "reads": vlib.canon(T.shift_l(par["k"], _tl(kw["reads"])))},
        tout=lambda par, kw, v: T.shift_l(par["k"], _tl(v)), eq=eq_kind,
        nontrivial=lambda kw, v: not vlib.is_err(v) and v != vlib.canon(kw["reads"])),
    Rel("S.correct_assigned_read", "shift_equivariant_correctAssignedRead",
        model=lambda kw: vlib.req("C14.correct_assigned_read", **_car(kw)[0]), impl=lambda kw: _car(kw)[1],
        tin=lambda par, kw: shift_case(par["k"], kw),
        tout=lambda par, kw, v: T.shift_l(par["k"], _tl(v)), eq=eq_kind,
        nontrivial=lambda kw, v: not vlib.is_err(v) and v != vlib.canon(kw["exons"])),
    Rel("S.process_events", "shift_equivariant_processEvents",
        model=lambda kw: vlib.req("C14.process_events", **_pev(kw)[0]), impl=lambda kw: _pev(kw)[1],
        tin=lambda par, kw: {"case": shift_case(par["k"], kw["case"]), "emap": kw["emap"], "micro": kw.get("micro", [])},
        tout=_shift_res, eq=eq_kind,
        nontrivial=lambda kw, v: not vlib.is_err(v) and len(v["introns"]) > 0),
    # the whole loop under reflection: theorem mirror_dual_processEvents (= `ProcessEventsMirror`, every EmapWF / MicroWF
    # input); the relation replays it on model and real code
    Rel("M.process_events", "mirror_dual_processEvents (: ProcessEventsMirror, index-keyed events + micro map) / "
        "mirror_dual_processEvents_micro / mirror_dual_eventStep / mirror_dual_microStep / mirror_dual_buildExons",
        model=lambda kw: vlib.req("C14.process_events", **_pev(kw)[0]), impl=lambda kw: _pev(kw)[1],
        tin=_tin_mirror_events, tout=_mirror_res, domain=dom_mirror_events, eq=eq_kind,
        nontrivial=lambda kw, v: not vlib.is_err(v) and len(kw["emap"]) + len(kw.get("micro", [])) > 0),
    # the same through correct_misalignments (event LISTS, several micro-intron events per read exon, first / last exon):
    # theorem mirror_dual_correctAssignedRead (hypothesis `EventsMirrorable` = dom_mirror_car; `mirror_event_list` =
    # Model `mirrorEventList`, sentinels kept)
    Rel("M.correct_assigned_read", "mirror_dual_correctAssignedRead (event lists through correct_misalignments; "
        "mirror_dual_buildEventMap / mirror_dual_buildMicroMap + mirror_dual_processEvents + mirror_dual_buildExons + "
        "mirror_dual_validChain / validIntronChain)",
        model=lambda kw: vlib.req("C14.correct_assigned_read", **_car(kw)[0]), impl=lambda kw: _car(kw)[1],
        tin=_tin_mirror_car, tout=lambda par, kw, v: T.mirror_l(par["L"], _tl(v)), domain=dom_mirror_car, eq=eq_kind,
        nontrivial=lambda kw, v: not vlib.is_err(v) and v != vlib.canon(kw["exons"])),
    # ---- GTF
    Rel("S.validate_exons", "shift_equivariant_validateExons (+ shift_validateExons_witness)",
        model=lambda kw: vlib.req("C03.validate_exons", **kw),
        impl=lambda kw: vlib.call_impl(_c03()._mods()[0].validate_exons, _tl(kw["l"])),
        tin=lambda par, kw: {"l": vlib.canon(T.shift_l(par["k"], _tl(kw["l"])))},
        tout=lambda par, kw, v: v, domain=dom_validate,
        nontrivial=lambda kw, v: v is True and len(kw["l"]) > 0),
    Rel("S.dump_history", "shift_equivariant_runCalls / shift_equivariant_dump / shift_equivariant_featLines (+ shift_dump_witness)",
        model=lambda kw: vlib.req("C03.dump_history", calls=kw["calls"]), impl=impl_history,
        tin=lambda par, kw: {"calls": shift_calls(par["k"], kw["calls"])},
        tout=lambda par, kw, v: {"printed": v["printed"], "lines": [shift_line(par["k"], l) for l in v["lines"]]},
        domain=dom_history, eq=eq_history,
        nontrivial=lambda kw, v: not vlib.is_err(v) and len(v["lines"]) > 0),
    Rel("S.from_reference", "shift_equivariant_fromReference",
        model=lambda kw: vlib.req("C03.from_reference", **kw), impl=impl_from_reference,
        tin=lambda par, kw: {"ctx": shift_ctx(par["k"], kw["ctx"]), "isoform": kw["isoform"]},
        tout=lambda par, kw, v: shift_tmodel(par["k"], v)),
    Rel("S.fl_novel_exons", "shift_equivariant_flNovelExons",
        model=lambda kw: vlib.req("C03.fl_novel_exons", **kw), impl=lambda kw: _c03().real_fl_novel_exons(kw),
        tin=lambda par, kw: {"r": list(T.shift_iv(par["k"], tuple(kw["r"]))), "l": vlib.canon(T.shift_l(par["k"], _tl(kw["l"])))},
        tout=lambda par, kw, v: None if v is None else T.shift_l(par["k"], _tl(v)),
        nontrivial=lambda kw, v: v is not None and not vlib.is_err(v)),
    Rel("S.mono_exon", "shift_equivariant_monoExonFromCluster",
        model=lambda kw: vlib.req("C03.mono_exon", **kw), impl=lambda kw: _c03().real_mono_exon(kw),
        tin=lambda par, kw: dict(kw, reads=vlib.canon(T.shift_l(par["k"], _tl(kw["reads"]))), three=kw["three"] + par["k"]),
        tout=lambda par, kw, v: T.shift_l(par["k"], _tl(v)),
        nontrivial=lambda kw, v: not vlib.is_err(v) and len(v) > 0),
    Rel("S.correct_ends", "shift_equivariant_correctEnds (+ shift_correctEnds_witness)",
        model=lambda kw: vlib.req("C03.correct_ends", **kw), impl=lambda kw: _c03().real_correct_ends(kw),
        tin=lambda par, kw: {"exons": vlib.canon(T.shift_l(par["k"], _tl(kw["exons"]))),
                             "reads": vlib.canon(T.shift_l(par["k"], _tl(kw["reads"]))), "apa": kw["apa"]},
        tout=lambda par, kw, v: T.shift_l(par["k"], _tl(v)), domain=dom_ends,
        nontrivial=lambda kw, v: not vlib.is_err(v) and v != vlib.canon(kw["exons"])),
    Rel("M.tx_lines", "mirror_dual_featLines / mirror_dual_txBlock (+ mirror_dual_featLines_*_witness)",
        model=model_tx_lines, impl=impl_tx_lines,
        tin=lambda par, kw: {"m": mirror_tmodel(par["L"], kw["m"])},
        tout=lambda par, kw, v: [mirror_line(par["L"], l) for l in
                                 (v["lines"] if isinstance(v, dict) else v) if l[0] != "gene"],
        domain=dom_mirror_lines, eq=eq_tx_lines,
        nontrivial=lambda kw, v: not vlib.is_err(v) and len(kw["m"]["exons"]) > 1),
]


# ---------------------------------------------------------------------------------------------------------------------
# the new transformations: Lean definition (driver) == Python twin

def transformation_checks(ctx):
    rng = ctx.rng
    todo = []
    for _ in range(40):
        ex = G14.rand_blocks(rng, malformed=rng.random() < 0.2)
        n = len(ex)
        rec = {"chrom": "chr1", "chromStart": rng.randint(0, 5000), "chromEnd": rng.randint(0, 9000), "name": "r", "strand": "+",
               "thickStart": rng.randint(0, 50), "thickEnd": rng.randint(0, 50), "blockCount": n,
               "blockSizes": [rng.randint(1, 300) for _ in range(n)], "blockStarts": [rng.randint(0, 4000) for _ in range(n)]}
        k = rng.choice(KS)
        L = rng.choice([9000, 10 ** 6])
        todo.append(("T.shift_bed", {"k": k, "rec": rec}, shift_bed(k, rec)))
        todo.append(("T.mirror_bed", {"L": L, "strand": "-", "rec": rec}, mirror_bed(L, "-", rec)))
        val = vlib.canon(ex) if rng.random() < 0.8 else {"error": rng.choice(["index", "assertion", "fuel"])}
        todo.append(("T.shift_exons_result", {"k": k, "value": val},
                     val if vlib.is_err(val) else vlib.canon(T.shift_l(k, _tl(val)))))
    for _ in range(40):
        calls = vlib.canon(G3.history(rng, small=rng.random() < 0.5))
        for c in calls:
            if rng.random() < 0.5:
                c["ctx"]["isoforms"] = [_ref_tx(rng, t) for t in range(rng.randint(0, 3))]
        k = rng.choice(KS)
        L = rng.choice([9000, 10 ** 5])
        todo.append(("T.shift_calls", {"k": k, "calls": calls}, shift_calls(k, calls)))
        for c in calls:
            for m in c["models"][:2]:
                todo.append(("T.shift_tmodel", {"k": k, "m": m}, shift_tmodel(k, m)))
                todo.append(("T.mirror_tmodel", {"L": L, "m": m}, mirror_tmodel(L, m)))
        lines = []
        for c in calls:
            for m in c["models"]:
                if m["exons"]:
                    a, b = m["exons"][0][0], m["exons"][-1][1]
                    lines.append(["gene", m["chr"], a, b, m["strand"], m["gid"], rng.randint(1, 3)])
                    lines.append(["tx", m["chr"], a, b, m["strand"], m["gid"], m["tid"]])
                    lines += [["feat", m["chr"], rng.choice([-2, -1, 0, 1]), e[0], e[1], m["strand"], m["gid"], m["tid"], i + 1]
                              for i, e in enumerate(m["exons"])]
        todo.append(("T.shift_lines", {"k": k, "lines": lines}, [shift_line(k, l) for l in lines]))
        todo.append(("T.mirror_lines", {"L": L, "lines": lines}, [mirror_line(L, l) for l in lines]))
    for _ in range(40):
        n, m = rng.randint(0, 6), rng.randint(0, 5)
        emap = [[rng.randint(-n - 1, n), G14.rand_event(rng, n, m, ["extra_intron_known", "intron_migration"], malformed=rng.random() < 0.3)]
                for _ in range(rng.randint(0, 4))]
        emap = vlib.canon(emap)
        todo.append(("T.mirror_emap", {"n": n, "m": m, "emap": emap}, mirror_emap(n, m, emap)))
        micro = [[rng.randint(-1, n + 1), rng.randint(-1, m)] for _ in range(rng.randint(0, 5))]
        todo.append(("T.mirror_micro", {"n": n, "m": m, "micro": micro}, mirror_micro(n, m, micro)))
        evl = vlib.canon(G14.rand_events(rng, n, m, ["extra_intron_known", "intron_migration"], malformed=rng.random() < 0.4))
        if rng.random() < 0.3:      # a half-sentinel read region is NOT the undefined region
            evl.append({"t": "intron_retention", "iso": [0, 0], "read": [G14.UNDEF, rng.randint(0, n)]})
        todo.append(("T.mirror_event_list", {"n": n, "m": m, "events": evl}, mirror_event_list(n, m, evl)))
        err = G14.rand_err_table(rng, rng.randint(0, n + 1))
        todo.append(("T.mirror_err", {"n": n, "err": err}, mirror_err(n, err)))
    outs = ctx.driver.run([vlib.req("C11." + op, **kw) for op, kw, _ in todo])
    for (op, kw, exp), mo in zip(todo, outs):
        ctx.evaluations += 1
        ctx.count("op:" + op)
        ctx.traces_validated += 1
        exp = vlib.canon(exp)
        ok = eq_bed(mo, exp) and all(mo.get(x) == exp.get(x) for x in ("chrom", "name", "strand")) \
            if op in ("T.shift_bed", "T.mirror_bed") else (mo == exp)
        if not ok:
            ctx.disagree(op, kw, mo, exp)
        else:
            ctx.mark_nontrivial([op, kw])


# ---------------------------------------------------------------------------------------------------------------------
# inputs

def _ref_tx(rng, tid):
    ex = G3.sd_exons(rng, small=rng.random() < 0.5)
    return {"tid": tid, "gid": rng.randint(0, 2), "strand": rng.choice([0, 1, 2]), "exons": vlib.canon(ex),
            "other": vlib.canon(G3.other_features(rng, ex, [-2, -1, 1, 2])) if rng.random() < 0.5 else []}


def _presets(ctx):
    """the strategy presets of the real `set_splice_correction_options` (no driver: the oracle must not depend on it)"""
    if "presets" not in _STATE:
        out = _c14().guarded(_c14().real_presets, 20)
        _STATE["presets"] = [(n, f) for n, f in out] if isinstance(out, list) and out else \
            [("none", {k: False for k in G14.FLAG_NAMES}), ("all", {k: True for k in G14.FLAG_NAMES})]
    return _STATE["presets"]


def cases(ctx):
    rng = ctx.rng
    quick = ctx.tier == "quick"
    out = []

    def kL(l, extra=0):
        hi = max([max(a, b) for a, b in l] + [1]) + extra
        return rng.choice(KS), hi + rng.choice([0, 1, 40, 10 ** 6])

    # ---- BED: exhaustive small universe (ALL lists of <= 2 (thorough 3) intervals over 1..4, malformed included) + random
    U = 4
    ivs = [(a, b) for a in range(1, U + 1) for b in range(1, U + 1)]
    small = [[]] + [[x] for x in ivs] + [[x, y] for x in ivs for y in ivs]
    if not quick:
        small += [[x, y, z] for x in ivs for y in ivs for z in ivs if rng.random() < 0.3]
    n_bed = 0
    for ex in small:
        if quick and len(ex) == 2 and rng.random() < 0.5:
            continue
        k, L = kL(ex)
        kw = {"chrom": "chr1", "name": "r%d" % n_bed, "strand": rng.choice("+-."), "exons": vlib.canon(ex)}
        out.append(("S.bed_record", {"k": k}, kw))
        out.append(("M.bed_record", {"L": L}, kw))
        n_bed += 1
    ctx.extra["xbed_universe"] = {"max_coord": U, "lists": "all lists of <= %d intervals (sorted or not, start > end included)"
                                  % (2 if quick else 3), "cases": n_bed}
    for _ in range(150 if quick else 3000):
        ex = G14.rand_blocks(rng, malformed=rng.random() < 0.15)
        k, L = kL(ex)
        kw = {"chrom": rng.choice(["chr1", "chrX", "scaffold_12"]), "name": "read_%d" % rng.randint(0, 10 ** 6),
              "strand": rng.choice("+-."), "exons": vlib.canon(ex)}
        out.append(("S.bed_record", {"k": k}, kw))
        out.append(("M.bed_record", {"L": L}, kw))

    # ---- match_genomic_features: sampled small universe (ties between equally distant candidates included) + random
    U = 6
    ivs = [(a, b) for a in range(1, U + 1) for b in range(a, U + 1)]
    kn_lists = [[x] for x in ivs] + [[x, y] for x in ivs for y in ivs if x < y]
    rd_lists = [[x] for x in ivs] + [[x, y] for x in ivs for y in ivs if x[1] < y[0]]
    for _ in range(250 if quick else 5000):
        out.append(("S.match_genomic_features", {"k": rng.choice(KS)},
                    {"delta": rng.choice([0, 1, 2]), "known": vlib.canon(rng.choice(kn_lists)), "reads": vlib.canon(rng.choice(rd_lists))}))
    for _ in range(100 if quick else 2000):
        fam = G14.isoform_family(rng, small=rng.random() < 0.5)
        kn = sorted({i for ex in fam for i in G14.introns_of(ex)})
        d = rng.choice([0, 1, 2, 4, 6, 12])
        rd = G14.introns_of(G14.noisy_read(rng, rng.choice(fam), d))
        out.append(("S.match_genomic_features", {"k": rng.choice(KS + [4099])},
                    {"delta": d, "known": vlib.canon(kn), "reads": vlib.canon(rd)}))

    # ---- corrector: whole correct_assigned_read and process_events with explicit (also malformed) event maps
    presets = _presets(ctx)
    known_types = ["extra_intron_known", "intron_migration", "exon_skipping_known", "alternative_structure_novel"]
    for _ in range(500 if quick else 6000):
        case = vlib.canon(G14.corrector_case(rng, presets, known_types, small=rng.random() < 0.4, malformed=False))
        if len(case["exons"]) < 1:
            continue
        # every 6th case: a shift that moves the read's first exon to position 0 or below (the theorem is for ALL k)
        k = rng.choice(KS) if rng.random() < 0.83 else -case["exons"][0][0] - rng.choice([0, 1, 5])
        out.append(("S.correct_assigned_read", {"k": k}, case))
    for _ in range(250 if quick else 3000):
        case = vlib.canon(G14.corrector_case(rng, presets, known_types, small=rng.random() < 0.5, malformed=rng.random() < 0.5))
        if len(case["exons"]) < 1:
            continue
        n_read = len(G14.introns_of(_tl(case["exons"])))
        emap, micro = _c14().split_stream(rng, case["events"], n_read)
        emap = [[k_, e] for k_, e in emap]
        k = rng.choice(KS) if rng.random() < 0.83 else -case["exons"][0][0] - rng.choice([0, 1, 5])
        out.append(("S.process_events", {"k": k}, {"case": case, "emap": emap, "micro": micro}))
    # the non-terminating event map of C14's `nontermination_witness` (fuel ↦ fuel)
    out.append(("S.process_events", {"k": 255},
                {"case": {"family": [[[41, 60], [71, 120]]], "iso_index": 0, "exons": [[10, 12], [41, 60], [71, 99]], "delta": 6,
                          "flags": dict(presets[-1][1]), "err": [[[0, 0], [0, 0]], [[0, 0], [0, 0]]], "noninformative": False,
                          "no_match": False, "events": []},
                 "emap": [[0, {"t": "intron_retention", "iso": [0, 0], "read": [0, -1]}]]}))

    # reflection of the whole loop: well-formed event maps = disjoint in-range ranges keyed by their start, all event
    # types; micro-intron retentions in ANY read exon (first, inner, LAST) and several per exon (audit 2-C G5, G6: the
    # former `for p_ in range(1, n)` / one event per exon hid both).  A quarter of the cases have no index-keyed event
    # (the proved instance `mirror_dual_processEvents_micro`).
    for w in MICRO_REGRESSIONS:
        out.append(("M.process_events",) + w)
        out.append(("M.correct_assigned_read", w[0],
                    dict(w[1]["case"], keep=True, events=[{"t": "fake_micro_intron_retention", "iso": [j_, j_], "read": [G14.ABSENT, p_]}
                                                          for p_, j_ in w[1]["micro"]])))
    all_types = G14.TERMINAL + G14.MISALIGN + known_types + G14.OTHER + ["fake_micro_intron_retention"]
    for _ in range(250 if quick else 4000):
        case = vlib.canon(G14.corrector_case(rng, presets, known_types, small=rng.random() < 0.5, malformed=False))
        if len(case["exons"]) < 2:
            continue
        case["flags"] = dict(case["flags"], fuzzy_junctions=False)
        n = len(case["exons"]) - 1
        m = len(G14.introns_of(_tl(case["family"][case["iso_index"]])))
        emap, i, used = [], 0, set()
        p_event = rng.choice([0.5, 0.5, 0.5, 0.0])
        while i < n:
            if rng.random() < p_event:
                b = i if rng.random() < 0.7 else rng.randint(i, n - 1)
                t = rng.choice(all_types[:-1])
                side = "left" if t.endswith("left") else "right"
                if t in G14.TERMINAL and side in used and rng.random() < 0.9:
                    t = rng.choice(G14.MISALIGN + known_types + G14.OTHER)
                if t in G14.TERMINAL:
                    used.add(side)
                    if rng.random() < 0.85:
                        b = i
                if m > 0:
                    a_ = rng.randint(0, m - 1)
                    iso = [a_, a_ if (t in TERMINAL_ISO or rng.random() < 0.5) else rng.randint(a_, m - 1)]
                else:
                    iso = [0, 0]
                emap.append([i, {"t": t, "iso": iso, "read": [i, b]}])
                i = b + 1
            else:
                i += 1
        micro = []
        p_micro = 0.15 if p_event else 0.4
        for p_ in range(0, n + 1):
            if m > 0 and rng.random() < p_micro:
                a_ = rng.randint(0, m - 1)
                for j_ in range(a_, min(m, a_ + rng.choice([1, 1, 2, 3]))):
                    micro.append([p_, j_])
        rng.shuffle(emap)
        hi = max(case["exons"][-1][1], max(t[-1][1] for t in case["family"]))
        Lm = hi + rng.choice([0, 1, 40, 10 ** 6])
        out.append(("M.process_events", {"L": Lm}, {"case": case, "emap": emap, "micro": micro}))
        evl = [e for _, e in emap] + [{"t": "fake_micro_intron_retention", "iso": [j_, j_], "read": [G14.ABSENT, p_]}
                                      for p_, j_ in micro]
        if rng.random() < 0.3:
            rng.shuffle(evl)
        out.append(("M.correct_assigned_read", {"L": Lm}, dict(case, events=evl, noninformative=False, no_match=False)))

    # ---- GTF
    out.append(("S.validate_exons",) + VALIDATE_WITNESS)
    out.append(("S.dump_history",) + DUMP_WITNESS)
    out.append(("S.correct_ends",) + ENDS_WITNESS)
    out.append(("M.tx_lines",) + MIRROR_UNSTRANDED_WITNESS)
    out.append(("M.tx_lines",) + MIRROR_OTHER_WITNESS)
    for _ in range(250 if quick else 4000):
        out.append(("S.validate_exons", {"k": rng.choice(KS + [-1, -3])}, {"l": vlib.canon(G3.exon_list(rng, small=rng.random() < 0.5))}))
    one, pool, ctxs = G3.small_universe_histories()
    hist = rng.sample(one, min(len(one), 60 if quick else 600))
    pairs = [rng.choice(one) + rng.choice(one) for _ in range(60 if quick else 1500)]
    rnd = [G3.history(rng, small=rng.random() < 0.5) for _ in range(220 if quick else 3000)]
    for h in hist + pairs + rnd:
        out.append(("S.dump_history", {"k": rng.choice(KS)}, {"calls": vlib.canon(h)}))
    for _ in range(80 if quick else 1500):
        c = {"chr": rng.randint(0, 2), "regions": [], "isoforms": [_ref_tx(rng, t) for t in range(rng.randint(0, 4))]}
        out.append(("S.from_reference", {"k": rng.choice(KS)}, {"ctx": c, "isoform": rng.randint(0, 4)}))
    for _ in range(150 if quick else 3000):
        c = G3.intron_path_case(rng, small=rng.random() < 0.6)
        if rng.random() < 0.3 and len(c["l"]) > 1:
            i = rng.randrange(len(c["l"]) - 1)
            c["l"][i] = (c["l"][i][0], c["l"][i + 1][0] - rng.choice([1, 0, -2]))
        out.append(("S.fl_novel_exons", {"k": rng.choice(KS)}, vlib.canon(c)))
    for _ in range(150 if quick else 3000):
        n = rng.randint(0, 4)
        reads = [(a, a + rng.randint(0, 30)) for a in (rng.randint(1, 50) for _ in range(n))]
        out.append(("S.mono_exon", {"k": rng.choice(KS)},
                    {"cutoff": rng.choice([0, 1, 2, 3]), "forward": rng.random() < 0.5, "reads": vlib.canon(reads),
                     "three": rng.randint(1, 90)}))
    for _ in range(300 if quick else 6000):
        out.append(("S.correct_ends", {"k": rng.choice(KS + [-1, -2, -20])}, vlib.canon(G3.end_case(rng, small=rng.random() < 0.6))))
    # strand flip of one transcript: all sorted disjoint exon lists of <= 3 exons over 1..6, both strands + random
    from gen import intervals as GI_
    sd = [l for l in GI_.all_sd_lists(6, 3) if l]
    for l in (rng.sample(sd, min(len(sd), 120)) if quick else sd):
        m = {"chr": 0, "strand": rng.choice([0, 1]), "tid": 3, "gid": 5, "exons": vlib.canon(l), "known": rng.random() < 0.5, "other": []}
        out.append(("M.tx_lines", {"L": rng.choice([6, 7, 40])}, {"m": m}))
    for _ in range(100 if quick else 2000):
        ex = G3.sd_exons(rng, small=rng.random() < 0.3)
        m = {"chr": rng.randint(0, 2), "strand": rng.choice([0, 1, 1, 2]), "tid": rng.randint(0, 9), "gid": rng.randint(0, 3),
             "exons": vlib.canon(ex), "known": rng.random() < 0.5,
             "other": vlib.canon(G3.other_features(rng, ex, [-2, -1, 1, 2])) if rng.random() < 0.15 else []}
        out.append(("M.tx_lines", {"L": ex[-1][1] + rng.choice([0, 1, 1000])}, {"m": m}))
    return out
