"""C11 extension, part `mononovel` — reflection of `GraphBasedModelConstructor.construct_monoexon_novel`
(`--report_novel_unspliced true`; audit2-C G2), Props/C11MonoNovel.lean `mirror_dual_constructMonoNovel`.

Model: Model/C11MonoNovel.lean `constructMonoNovel` (driver op `C11.X.mono_novel`), from the clusters on.
Real code: the real `construct_monoexon_novel` on a constructor whose storage / id distributor / intron graph are
prepared from the JSON (empty intron graph, `apa_delta = 0` so that a cluster is the reads of one tail position), fed
with tailed unspliced reads.  Compared: the SET of models added to the storage (strand, exon), since the order in which
models of one support level are appended is the order of the clusters (polyA first), which the GTF writer re-sorts.

Relation `M.mono_novel`: storage mirrored, the polyA clusters of the mirrored run are the mirrored polyT clusters and
vice versa => the added models are the mirrored added models.  On the pre-fix code (polyA clusters first, each tested
against everything reported so far) it fails whenever a '+' cluster with FEWER reads overlaps a '-' cluster by more than
half of the latter (the audit's input: 3 '+' reads 5000-5600, 9 '-' reads 5100-5750).
"""
import types
from collections import defaultdict

import vlib
from gen import c11gen as T
from props import c11ext as X

PROPS = ["IsoVerif/Props/C11MonoNovel.lean"]
TARGETS = ["IsoVerif.Props.C11MonoNovel"]

G2_INPUT = {"cutoff": 2, "storage": [],
            "polya": [{"three": 5600, "reads": [[5000, 5600]] * 3}],
            "polyt": [{"three": 5100, "reads": [[5100, 5750]] * 9}]}


def _tl(l):
    return [tuple(x) for x in l]


def mirror_cluster(L, c):
    return {"three": L + 1 - c["three"], "reads": vlib.canon(T.mirror_l(L, _tl(c["reads"])))}


def mirror_mmodel(L, m):
    return {"forward": not m["forward"], "exons": vlib.canon(T.mirror_l(L, _tl(m["exons"])))}


def _tin(par, kw):
    L = par["L"]
    return {"cutoff": kw["cutoff"], "storage": [mirror_mmodel(L, m) for m in kw["storage"]],
            "polya": [mirror_cluster(L, c) for c in kw["polyt"]], "polyt": [mirror_cluster(L, c) for c in kw["polya"]]}


def _canon_models(v):
    return sorted(vlib.canon(v), key=lambda m: (m["forward"], m["exons"]))


def _tout(par, kw, v):
    return _canon_models([mirror_mmodel(par["L"], m) for m in v])


def _eq(a, b):
    if vlib.is_err(a) or vlib.is_err(b):
        return vlib.same(a, b)
    return _canon_models(a) == _canon_models(b)


def real_mono_novel(kw):
    """the real construct_monoexon_novel -> models added to the storage"""
    vlib.repo_on_path()
    import src.graph_based_model_construction as GB
    import src.gene_info as GI
    import src.polya_finder as PF
    c = GB.GraphBasedModelConstructor.__new__(GB.GraphBasedModelConstructor)
    c.transcript_model_storage = []
    c.transcript_read_ids = defaultdict(list)
    c.internal_counter = defaultdict(int)
    c.read_assignment_counts = defaultdict(int)
    c.params = types.SimpleNamespace(min_novel_count=kw["cutoff"], apa_delta=0, delta=0)
    c.gene_info = types.SimpleNamespace(chr_id="chrT")
    c.intron_graph = types.SimpleNamespace(outgoing_edges={}, incoming_edges={})
    counter = [0]

    def inc():
        counter[0] += 1
        return counter[0]
    c.id_distributor = types.SimpleNamespace(increment=inc)
    for i, m in enumerate(kw["storage"]):
        c.transcript_model_storage.append(GI.TranscriptModel("chrT", "+" if m["forward"] else "-", "known%d" % i, "G",
                                                             _tl(m["exons"]), GI.TranscriptModelType.known))
    n0 = len(c.transcript_model_storage)
    reads = []
    for fw, key in ((True, "polya"), (False, "polyt")):
        for ci, cl in enumerate(kw[key]):
            for ri, (a, b) in enumerate(cl["reads"]):
                info = PF.PolyAInfo(cl["three"], -1, -1, -1) if fw else PF.PolyAInfo(-1, cl["three"], -1, -1)
                reads.append(types.SimpleNamespace(read_id="%s%d_%d" % (key, ci, ri), corrected_exons=[(a, b)], polya_info=info,
                                                   read_group="g"))
    c.construct_monoexon_novel(reads)
    return [{"forward": m.strand == "+", "exons": [list(e) for e in m.exon_blocks]} for m in c.transcript_model_storage[n0:]]


def dom(par, kw):
    # one cluster per tail position and strand (apa_delta = 0 in the adapter), no empty cluster
    for key in ("polya", "polyt"):
        pos = [c["three"] for c in kw[key]]
        if len(set(pos)) != len(pos) or any(not c["reads"] for c in kw[key]):
            return False
    return True


# ------------------------------------------------------------------------------------------------------------------
# which reads enter the clusters (first loop of construct_monoexon_novel): follow-up of 7594462

def mirror_read(L, r):
    return {"id": r["id"], "iv": list(T.mirror_iv(L, tuple(r["iv"]))), "polya": T.mirror_pos(L, r["polyt"]),
            "polyt": T.mirror_pos(L, r["polya"])}


def real_votes(kw):
    """the real construct_monoexon_novel up to the clustering: ids of the reads handed to cluster_monoexons for the polyA
    and for the polyT side (cluster_monoexons is replaced by a recorder that returns no cluster)"""
    vlib.repo_on_path()
    import src.graph_based_model_construction as GB
    import src.polya_finder as PF
    c = GB.GraphBasedModelConstructor.__new__(GB.GraphBasedModelConstructor)
    c.transcript_model_storage = []
    c.params = types.SimpleNamespace(min_novel_count=1, apa_delta=0, delta=0)
    c.intron_graph = types.SimpleNamespace(outgoing_edges={}, incoming_edges={})
    seen = []

    def recorder(grouped):
        seen.append(sorted(a.read_id for reads in grouped.values() for a in reads))
        return {}
    c.cluster_monoexons = recorder
    reads = [types.SimpleNamespace(read_id=r["id"], corrected_exons=[tuple(r["iv"])], read_group="g",
                                   polya_info=PF.PolyAInfo(r["polya"], r["polyt"], -1, -1)) for r in kw["reads"]]
    c.construct_monoexon_novel(reads)
    return {"polya": seen[0], "polyt": seen[1]}


def _votes_tin(par, kw):
    return {"reads": [mirror_read(par["L"], r) for r in kw["reads"]]}


def _votes_tout(par, kw, v):
    return {"polya": sorted(v["polyt"]), "polyt": sorted(v["polya"])}


def _votes_eq(a, b):
    if vlib.is_err(a) or vlib.is_err(b):
        return vlib.same(a, b)
    return sorted(a["polya"]) == sorted(b["polya"]) and sorted(a["polyt"]) == sorted(b["polyt"])


def dom_votes(par, kw):
    L = par["L"]
    return all(p == -1 or L + 1 - p != -1 for r in kw["reads"] for p in (r["polya"], r["polyt"]))


BOTH_TAILS = {"reads": [{"id": k, "iv": [5000 + k, 5600], "polya": 5600, "polyt": 4998} for k in range(6)]}


def shared_read_problem(kw):
    """interface hypothesis of mirror_dual_constructMonoNovel monitored on the REAL code (Props/C11MonoNovel.lean
    `voters_exclusive`): no read is handed to a polyA cluster AND a polyT cluster -- otherwise, since 7594462, two models of
    equal support are built from the same reads and every such read is assigned to two models.  -> detail or None"""
    v = real_votes(kw)
    shared = sorted(set(v["polya"]) & set(v["polyt"]))
    return ("read(s) %s are handed to a polyA cluster AND a polyT cluster" % shared[:6]) if shared else None


RELS = [
    X.Rel("M.mono_votes", "mirror_dual_votersOf",
          lambda kw: vlib.req("C11.X.mono_votes", variant="fixed", **kw), real_votes,
          tin=_votes_tin, tout=_votes_tout, domain=dom_votes, eq=_votes_eq,
          nontrivial=lambda kw, v: not vlib.is_err(v) and bool(v["polya"]) and bool(v["polyt"])),
    X.Rel("M.mono_novel", "mirror_dual_constructMonoNovel",
          lambda kw: vlib.req("C11.X.mono_novel", variant="fixed", **kw), real_mono_novel,
          tin=_tin, tout=_tout, domain=dom, eq=_eq,
          nontrivial=lambda kw, v: not vlib.is_err(v) and len(v) >= 1 and len(v) < len(kw["polya"]) + len(kw["polyt"])),
]


def _cluster(rng, forward, base, support):
    ln = rng.choice([150, 300, 600, 601, 900])
    start = base + rng.choice([0, 50, 100, 149, 150, 151, 300, 450])
    end = start + ln
    reads = []
    for _ in range(support):
        if forward:
            reads.append([start + rng.choice([0, 0, 5, 40]), end])
        else:
            reads.append([start, end - rng.choice([0, 0, 5, 40])])
    return {"three": end if forward else start, "reads": reads}


def vote_cases(rng, n):
    out = [("M.mono_votes", {"L": 20000}, BOTH_TAILS)]
    for _ in range(n):
        reads = []
        for i in range(rng.randint(1, 8)):
            a = rng.choice([1000, 5000]) + rng.randint(0, 50)
            b = a + rng.choice([150, 600])
            kind = rng.choice(["a", "t", "both", "both", "none"])
            reads.append({"id": i, "iv": [a, b], "polya": b + rng.choice([0, 0, 3]) if kind in ("a", "both") else -1,
                          "polyt": a - rng.choice([0, 2, 2]) if kind in ("t", "both") else -1})
        out.append(("M.mono_votes", {"L": rng.choice([20000, 12345])}, {"reads": reads}))
    return out


def cases(ctx):
    rng = ctx.rng
    quick = ctx.tier == "quick"
    out = vote_cases(rng, 300 if quick else 3000)
    out += [("M.mono_novel", {"L": 20000}, G2_INPUT),
           ("M.mono_novel", {"L": 20000}, dict(G2_INPUT, polya=G2_INPUT["polyt"], polyt=G2_INPUT["polya"])),
           # equal support on both strands: neither removes the other (ties do not compete)
           ("M.mono_novel", {"L": 20000}, dict(G2_INPUT, polyt=[{"three": 5100, "reads": [[5100, 5750]] * 3}]))]
    for _ in range(500 if quick else 6000):
        base = rng.choice([1000, 5000])
        storage = []
        if rng.random() < 0.4:
            storage.append({"forward": rng.random() < 0.5, "exons": [[base - 400, base - 200], [base + rng.choice([100, 300]), base + 700]]})
        kw = {"cutoff": rng.choice([1, 2, 2, 3]), "storage": storage, "polya": [], "polyt": []}
        for key, fw in (("polya", True), ("polyt", False)):
            seen = set()
            for _ in range(rng.randint(0, 3)):
                c = _cluster(rng, fw, base + rng.choice([0, 0, 1000]), rng.choice([1, 2, 3, 3, 4, 9]))
                if c["three"] not in seen:
                    seen.add(c["three"])
                    kw[key].append(c)
        out.append(("M.mono_novel", {"L": rng.choice([20000, 12345])}, kw))
    return out


def transformation_checks(ctx):
    rng = ctx.rng
    reqs, expect = [], []
    for _ in range(20):
        L = rng.choice([1000, 20000])
        c = _cluster(rng, True, 100, rng.randint(1, 4))
        fw = rng.random() < 0.5
        reqs.append(("T.mirror_cluster", dict(c, L=L, forward=fw)))
        expect.append(dict(mirror_cluster(L, c), forward=not fw))
        m = {"forward": fw, "exons": [[10, 20], [30, 45]]}
        reqs.append(("T.mirror_mmodel", dict(m, L=L)))
        expect.append(mirror_mmodel(L, m))
    for _ in range(10):
        r = {"id": rng.randint(0, 9), "iv": [100, 400], "polya": rng.choice([-1, 400, 403]), "polyt": rng.choice([-1, 98])}
        L = rng.choice([1000, 20000])
        reqs.append(("T.mirror_read", dict(r, L=L)))
        expect.append(mirror_read(L, r))
    outs = ctx.driver.run([vlib.req("C11." + op, **kw) for op, kw in reqs])
    for (op, kw), mo, exp in zip(reqs, outs, expect):
        ctx.evaluations += 1
        ctx.count("op:" + op)
        ctx.traces_validated += 1
        if vlib.canon(mo) != vlib.canon(exp):
            ctx.disagree(op, kw, mo, exp)
