"""C04 growth `c04split`: the clause "differs from every other reported novel transcript of the strand" PER CHROMOSOME.

Every per-constructor model / theorem of C04 speaks about one `GraphBasedModelConstructor` = one read cluster or one SUB-REGION of a
cluster cut by `AlignmentCollector.split_coverage_regions`.  This module

* builds pipeline datasets whose cluster IS cut (gen/splitloci.py) and feeds them to the global oracle clauses of props/C04.py
  (`duplicate_novel_chain`, `wrong_suffix`, `chain_equals_reference` are evaluated against the whole output / whole input GTF);
* ties Model/ChromosomeModels.lean (`runChromosome`: the constructors of one chromosome task in order, sharing
  `detected_known_isoforms`, the id distributor and `reported_novel_chains`) to the real code: a sequence of REAL
  `GraphBasedModelConstructor.process()` calls on constructors whose collaborators (intron graph, path storage, assigner, joiner,
  coverage, `detect_similar_isoforms`, `construct_assignment_based_isoforms` -> the real `construct_nonfl_isoforms` /
  `generate_monoexon_from_clustered`) are stubs; the stubs' answers are drawn from a seeded generator, RECORDED, and handed to the
  model as its parameters.  Real: `process()` itself (order of the steps, where the drop sits), `construct_fl_isoforms`,
  `pre_filter_transcripts`, `assign_reads_to_models`, `filter_transcripts`, `drop_novel_chains_reported_elsewhere`,
  `delete_from_storage`, `save_assigned_read`, the class-level sets, `ExcludingIdDistributor.increment`,
  `GFFPrinter.dump_read_assignments`;
* evaluates the clause itself on those real runs (in-process oracle) and classifies the GAP-1b failures of the pipeline oracle.
"""
import copy
import os
import random
import types
from collections import defaultdict

import vlib
from gen import splitloci as SL

FINDING_1B_ID = "split_region_partial_annotation"
FINDING_1B_KIND = "wrong_suffix"
FINDING_1B_CLASS = "split_partial_annotation"


def finding_listed():
    kf = vlib.load_known_findings()
    return any(e.get("property") == "C04" and e.get("id") == FINDING_1B_ID for e in kf.get("findings", []))


def _C04():
    from props import C04
    return C04


# ---------------------------------------------------------------------------------------------------
# pipeline datasets
# ---------------------------------------------------------------------------------------------------

F_EXONS = ((1000, 1500), (25000, 25600))
NIC3_N = ((25000, 25300), (25600, 25800), (40000, 40300), (41000, 41500))
NIC3_GENES = [("GA", "+", [("TA", [(25000, 25300), (25600, 25800)])]),        # wholly inside sub-region 1
              ("GC", "+", [("TC", [(25700, 25800), (40000, 40300)])]),        # spans the cut
              ("GB", "+", [("TB", [(40000, 40300), (41000, 41500)])])]        # wholly inside sub-region 2


def witness_dataset(name, control=False):
    """hand-made split loci; None for names of props/C04.py.  `control` (round c04rep): the same locus WITHOUT the deep neighbour,
    i.e. the same reads of the locus in a read cluster that `split_coverage_regions` does not cut"""
    kw = _witness_args(name)
    if kw is None:
        return None
    if control:
        kw = dict(kw, with_filler=False)
    return SL.split_dataset(**kw)


def _witness_args(name):
    if name == "split_region":
        # audit C04 GAP-1: 700 reads of a 2-exon neighbour + 3 + 3 reads of novel isoform N bridging the cut at 33536
        return {}
    if name == "split_region_reads":
        # follow-up of fix b2b4dd9 (fixaudit-C): the sub-region that reports the chain first holds the FEWER reads (3), the later
        # one 12: the later constructor's reads are reads of the reported isoform
        return dict(starts=(25300, 25700), per_start=(3, 12), n_fill=1700)
    if name == "split_region_few_reads":
        # follow-up of fix 0c8e711 (fixaudit-D): the later sub-region holds FEWER reads of the isoform (2) than the novel cutoff:
        # no local model is built there, the two reads are reads of the model the first sub-region reports
        return dict(starts=(25300, 25700), per_start=(10, 2), n_fill=1300)
    if name == "split_region_minus_end":
        # '-' locus: the low-coordinate end that differs between the groups is the polyT (3') end, 400 bp apart; in a cluster
        # that is not cut the reads of the second group are `*` (alternative polyA site of the reported model) - so are they here
        return dict(strand="-", starts=(25300, 25700), per_start=(4, 8), n_fill=1300)
    if name == "split_region_longer_end":
        # the later group's polyA end lies 1100 bp further out: class `split_region_apa_variant` (proposed known finding)
        return dict(starts=(25300, 25700), per_start=(4, 8), ends=(41500, 42600), n_fill=1300)
    if name == "split_region_genedb":
        return dict(seed=12, annotate_f=True, f_exons=((1000, 1500), (26000, 26600)))
    if name == "split_region_monointron":
        # a 2-exon novel isoform bridging the cut: the twins share the polyA end (NOT the class of `monointron_apa_duplicates`)
        return dict(n_exons=((25300, 25800), (41000, 41500)))
    if name == "split_region_control":
        # the same six reads alone: cluster of 16 kb, not cut
        return dict(with_filler=False)
    if name == "split_partial_annotation":
        # GAP-1b: N combines annotated introns of GA (sub-region 1 only), GC (both) and GB (sub-region 2 only)
        return dict(f_exons=F_EXONS, n_exons=NIC3_N, starts=(25000,), per_start=6, genes=NIC3_GENES, annotate_f=True)
    if name == "split_partial_annotation_control":
        return dict(f_exons=F_EXONS, n_exons=NIC3_N, starts=(25000,), per_start=6, genes=NIC3_GENES, annotate_f=True,
                    with_filler=False)
    if name == "split_reference_chain":
        # the reference transcript TN IS the chain of the bridging reads; its gene spans the cut
        n = ((25300, 25800), (40000, 40300), (41000, 41500))
        return dict(n_exons=n, genes=[("GN", "+", [("TN", list(n))])], annotate_f=True)
    if name == "split_gene_in_second_region":
        # gene GB lies wholly in sub-region 2 and shares N's last intron; N starts in an unannotated part of sub-region 1
        return dict(genes=[("GB", "+", [("TB", [(40000, 40300), (41000, 41500)])])])
    if name == "split_gene_in_first_region":
        return dict(n_exons=NIC3_N, starts=(25000, 25200), genes=[NIC3_GENES[0]])
    return None


PIPE_WITNESSES = [("split_region", {"genedb": False}), ("split_region_reads", {"genedb": True}), ("split_region_few_reads", {"genedb": False}),
                  ("split_region_minus_end", {"genedb": True}), ("split_region_genedb", {"genedb": True}),
                  ("split_partial_annotation", {"genedb": True}), ("split_partial_annotation_control", {"genedb": True})]
PIPE_WITNESSES_THOROUGH = [("split_region_control", {"genedb": False}), ("split_region_longer_end", {"genedb": False}), ("split_region_monointron", {"genedb": False}), ("split_reference_chain", {"genedb": True}),
                           ("split_gene_in_second_region", {"genedb": True}), ("split_gene_in_first_region", {"genedb": True}),
                           ("split_region", {"genedb": False, "data_type": "pacbio_ccs"}),
                           ("split_region", {"genedb": False, "strategy": "sensitive_ont"})]


def build_dataset(spec):
    if spec["kind"] == "split":
        ds, _info = SL.random_split_dataset(spec["seed"], with_filler=not spec.get("control"))
        return ds
    return None


# ------------------------------------------------------------------ round c04rep: cut cluster vs the same locus in an uncut cluster

LOST_KIND = "supporting_reads_lost"
LOST_CLASS = "split_region"
# round c04rep2: the two runs report DIFFERENT models for the chain (another 3' end): the first sub-region's model is written before
# the later sub-region's reads - whose polyA end lies further out - are seen; in the uncut cluster the variant with the outer end
# absorbs the other one.  Proposed known finding (counted until listed, like split_region_partial_annotation was)
APA_CLASS = "split_region_apa_variant"
APA_ID = "split_region_apa_variant"


def apa_finding_listed():
    kf = vlib.load_known_findings()
    return any(e.get("property") == "C04" and e.get("id") == APA_ID for e in kf.get("findings", []))


def control_spec(spec):
    """the dataset a split locus is compared with: the same reads of the locus, the deep neighbour left out (cluster not cut);
    None for datasets that are not split loci / are controls themselves"""
    if spec.get("control"):
        return None
    if spec.get("kind") == "split":
        return dict(spec, control=True)
    if spec.get("kind") == "witness":
        kw = _witness_args(spec.get("name"))
        if kw is not None and kw.get("with_filler", True):
            return dict(spec, control=True)
    return None


def read_chain_table(outdir):
    """-> ({read: sorted chain keys of the spliced models it is listed under}, {chain key: summed transcript_model_counts},
           {chain key: sorted 3' ends of the models with that chain})
    chain key = (chr, strand, intron chain) - transcript ids differ between two runs, chains do not"""
    import pipeline as P
    C04 = _C04()
    f = P.out_files(outdir)
    models = C04.gtf_transcripts(f["S.transcript_models.gtf"])
    key = {tid: (t["chr"], t["strand"], tuple(t["introns"])) for tid, t in models.items() if t["introns"]}
    ends3 = defaultdict(set)
    for tid, k in key.items():
        ex = models[tid]["exons"]
        ends3[k].add(ex[0][0] if k[1] == "-" else ex[-1][1])
    reads = defaultdict(set)
    for l in P.read_lines(f["S.transcript_model_reads.tsv"]):
        rid, tid = l.split("\t")[:2]
        reads[rid]
        if tid in key:
            reads[rid].add(key[tid])
    rows, _hdr, _st = P.read_table(f["S.transcript_model_counts.tsv"])
    counts = defaultdict(float)
    for tid, vals in rows.items():
        if tid in key:
            counts[key[tid]] += float(vals[0])
    return {r: sorted(v) for r, v in reads.items()}, dict(counts), {k: sorted(v) for k, v in ends3.items()}


def differential(out_cut, out_ctl):
    """the reads of the control (= the reads of the locus) are listed under spliced models with the same intron chains in both runs,
    and every chain the control reports has the same count in the cut run.  -> ([(kind, class, detail)], numeric stats)"""
    cut_r, cut_c, cut_e = read_chain_table(out_cut)
    ctl_r, ctl_c, ctl_e = read_chain_table(out_ctl)
    fails = []
    # mono-intronic chains are not compared: a mono-intronic model must reach `min_mono_count_rel` of the coverage of the
    # OVERLAPPING components (`get_overlapping_component_max_coverage`), so the deep neighbour itself - which the control lacks -
    # removes the copy next to it (`split_region_monointron`, both trees); for >= 2 introns the cut-off looks at the model's own
    # component only and the control is a valid control
    mono = lambda ks: any(len(k[2]) < 2 for k in ks)
    skipped = sum(1 for r, v in ctl_r.items() if mono(v) or mono(cut_r.get(r) or []))
    ctl_r = {r: v for r, v in ctl_r.items() if not (mono(v) or mono(cut_r.get(r) or []))}
    ctl_c = {k: c for k, c in ctl_c.items() if len(k[2]) >= 2}

    def cls_of(keys):
        # the chain is reported by both runs, with ANOTHER 3' end: the runs chose different polyA variants of the isoform
        for k in keys:
            if k in cut_e and k in ctl_e and cut_e[k] != ctl_e[k]:
                return APA_CLASS
        return LOST_CLASS
    bad = [(r, v, cut_r.get(r)) for r, v in sorted(ctl_r.items()) if cut_r.get(r) != v]
    if bad:
        r, v, w = bad[0]
        fails.append((LOST_KIND, cls_of(set(k for _r, a, b in bad for k in list(a) + list(b or []))),
                      "%d of %d reads of the locus are listed under other intron chains when the read cluster is cut: read %s is listed under %s "
                      "in the uncut cluster and under %s in the cut one (3' ends of the models: uncut %s, cut %s)"
                      % (len(bad), len(ctl_r), r, _fmt_keys(v), _fmt_keys(w), sorted(set(e for k in ctl_e for e in ctl_e[k])),
                         sorted(set(e for k in ctl_e for e in cut_e.get(k, []))))))
    else:
        for k, c in sorted(ctl_c.items()):
            if abs(cut_c.get(k, 0.0) - c) > 0.005:
                fails.append((LOST_KIND, cls_of([k]), "the models with intron chain %s have the count %.2f in the uncut cluster and %.2f in the cut one"
                              % (list(k[2])[:3], c, cut_c.get(k, 0.0))))
                break
    return fails, {"split_diff_reads_compared": len(ctl_r), "split_diff_chains_compared": len(ctl_c),
                   "split_diff_monointron_reads_not_compared": skipped}


def _fmt_keys(v):
    if v is None:
        return "nothing (read absent)"
    return "*" if not v else "; ".join("%s%s %s" % (k[0], k[1], list(k[2])[:3]) for k in v)


def pipeline_cases(ctx):
    """[(spec, cfg)] run by props/C04.py's pipeline oracle after its own witnesses"""
    q = ctx.tier == "quick"
    cases = [({"kind": "witness", "name": n}, dict(c)) for n, c in PIPE_WITNESSES]
    if not q:
        cases += [({"kind": "witness", "name": n}, dict(c)) for n, c in PIPE_WITNESSES_THOROUGH]
    for k in range(2 if q else 14):
        cases.append(({"kind": "split", "seed": ctx.rng.randrange(10 ** 6)}, {"genedb": k % 2 == 1}))
    return cases


def note_pipeline_case(ctx, spec, cfg, fails, stats):
    """evidence about the split runs (not failures): how many spliced novel models a split dataset yields"""
    key = spec.get("name") or "random_split"
    ctx.count("split_pipeline_run:" + key)
    ctx.extra.setdefault("split_pipeline_runs", []).append(
        {"dataset": spec, "config": cfg, "novel_spliced": stats.get("novel_spliced"), "known": stats.get("known"),
         "failures": sorted({"%s/%s" % (k, c) for k, c, _ in fails})})


# ------------------------------------------------------------------ class predicate of the GAP-1b finding

def split_regions_of_bam(bam_path):
    """{chr: [[sub-regions (0-based closed)] per read cluster]} — the clusters of `AlignmentCollector.process` with the sub-regions
    the REAL `split_coverage_regions` returns for them (used only to CLASSIFY a failure, never to decide one)"""
    vlib.repo_on_path()
    import pysam
    from src.alignment_processor import AbstractAlignmentStorage, AlignmentCollector

    class Cov(AbstractAlignmentStorage):
        def __init__(self):
            AbstractAlignmentStorage.__init__(self)
            self.n = 0

        def reset(self):
            AbstractAlignmentStorage.reset(self)
            self.n = 0

        def add_alignment(self, i, a):
            AbstractAlignmentStorage.add_alignment(self, i, a)
            self.n += 1

        def get_read_count(self):
            return self.n
    res = defaultdict(list)
    with pysam.AlignmentFile(bam_path) as f:
        for chrom in f.references:
            st = Cov()
            for a in f.fetch(chrom):
                if a.reference_id == -1 or a.reference_end is None:
                    continue
                if st.alignment_is_not_adjacent(a):
                    res[chrom].append(AlignmentCollector.split_coverage_regions(st.region, st))
                    st.reset()
                st.add_alignment(0, a)
            if st.region:
                res[chrom].append(AlignmentCollector.split_coverage_regions(st.region, st))
    return res


def classify_wrong_suffix(inputs, t, ref):
    """`split_partial_annotation` iff the model lies in a cluster that was CUT and, for some sub-region the model overlaps, an
    intron of the model is annotated in no gene overlapping that sub-region (the sub-region's GeneInfo cannot know it)"""
    try:
        regions = split_regions_of_bam(inputs["bam"])
    except Exception:
        return ""
    span = (t["exons"][0][0] - 1, t["exons"][-1][1] - 1)
    genes = defaultdict(lambda: {"span": None, "introns": set()})
    for tid, r in ref.items():
        if r.get("chr") != t["chr"] or not r["exons"]:
            continue
        g = genes[r.get("gene")]
        s, e = r["exons"][0][0] - 1, r["exons"][-1][1] - 1
        g["span"] = (s, e) if g["span"] is None else (min(g["span"][0], s), max(g["span"][1], e))
        g["introns"].update(r["introns"])
    for subs in regions.get(t["chr"], []):
        if len(subs) < 2 or subs[-1][1] < span[0] or subs[0][0] > span[1]:
            continue
        for (a, b) in subs:
            if b < span[0] or a > span[1]:
                continue
            known = set()
            for g in genes.values():
                if g["span"] and not (g["span"][1] < a or g["span"][0] > b):
                    known |= g["introns"]
            if any(i not in known for i in t["introns"]):
                return FINDING_1B_CLASS
    return ""


# ---------------------------------------------------------------------------------------------------
# the constructors of one chromosome task on the real code
# ---------------------------------------------------------------------------------------------------

def _params(rj):
    C04 = _C04()
    IG, GB, GI, PF, TP = C04._impl()
    env = rj["env"]
    return types.SimpleNamespace(
        min_known_count=env["min_known_count"], min_novel_count=env["min_novel_count"],
        require_monointronic_polya=env["require_monointronic_polya"],
        report_canonical_strategy=GB.StrandnessReportingLevel[env["level"]], use_technical_replicas=env["use_technical_replicas"],
        simple_models_mapq_cutoff=rj["mapq_cutoff"], delta=6, min_mono_count_rel=rj["_rel"][0], min_novel_count_rel=rj["_rel"][1],
        sqanti_output=False, requires_polya_for_construction=False, apa_delta=50)


def _region_constructor(rj, dist, reads):
    """a real constructor for one record; collaborators are stubs answering from `rj` (as props/C04.py: real_construct_fl)"""
    C04 = _C04()
    IG, GB, GI, PF, TP = C04._impl()
    import src.common as C
    from src.isoform_assignment import ReadAssignmentType
    env = rj["env"]
    c = C04.fake_constructor(GB, GI)
    c.params = _params(rj)
    c.chr_record = None
    c.id_distributor = dist
    c.transcript_counter = None
    c.known_isoforms_in_graph_ids = {}
    paths, counts, path_reads, verdict = [], {}, {}, {}
    for pi in rj["paths"]:
        pth = tuple(tuple(v) for v in pi["path"])
        paths.append(pth)
        counts[pth] = pi["count"]
        path_reads[pth] = [reads(rid, grp) for rid, grp in pi["reads"]]
        inner = pth[1:-1]
        if inner:
            verdict[tuple(C.get_exons((pth[0][1], pth[-1][1]), list(inner)))] = (pi["matching"], pi["ref"])
    c._path_storage = types.SimpleNamespace(fl_paths=set(paths), paths=defaultdict(int, counts),
                                            paths_to_reads=defaultdict(list, path_reads), fill=lambda storage: None)
    c.profile_constructor = types.SimpleNamespace(construct_profiles=lambda exons, polya, x: tuple(exons))

    def assign_to_isoform(tid, profile):
        mt, ref = verdict[profile]
        m = types.SimpleNamespace(assigned_transcript=(ref if ref != "" else None), match_subclassifications=[])
        return types.SimpleNamespace(assignment_type=ReadAssignmentType.unique if mt else ReadAssignmentType.inconsistent,
                                     isoform_matches=[m])
    c.assigner = types.SimpleNamespace(assign_to_isoform=assign_to_isoform)
    sdet = GI.StrandDetector(None)
    sdet.strand_dict = {tuple(k): v for k, v in rj["sd"]}
    c.strand_detector = sdet
    ref_models = dict((t, m) for t, m in env["ref_models"])
    gene_empty = env["gene_empty"]
    c.gene_info = types.SimpleNamespace(
        chr_id=env["chr"], empty=lambda: gene_empty, gene_strands=dict((g, s_) for g, s_ in env["gene_strands"]),
        isoform_strands={t: m["strand"] for t, m in ref_models.items()}, gene_id_map={t: m["gene"] for t, m in ref_models.items()},
        all_isoforms_exons={t: [tuple(e) for e in m["exons"]] for t, m in ref_models.items()},
        all_isoforms_introns={}, sources={t: "syn" for t in ref_models}, other_features={t: [] for t in ref_models},
        intron_profiles=types.SimpleNamespace(features=[tuple(i) for i in env["known_introns"]]))
    c.intron_genes = defaultdict(set, {tuple(k): set(v) for k, v in env["intron_genes"]})
    kp = {tuple(tuple(i) for i in p_): "K%d" % i_ for i_, p_ in enumerate(env["known_paths"])}
    c.get_known_spliced_isoforms = lambda gene_info, s="known": dict(kp)
    return c


def _cov_choice(rng, rel, intron_path_len):
    """coverage answers of the intron-graph stubs for one model, kept off float comparison boundaries; -> (triple, cov_term)"""
    C04 = _C04()
    while True:
        cov1 = rng.choice([0, 0, 3, 10, 57, 150, 333, 1000])
        cov2 = rng.choice([0, 7, 49, 151, 2003])
        mono = rng.random() < 0.5
        use_mono = cov1 == 0 or intron_path_len == 0 or (intron_path_len == 1 and mono)
        prod = (rel[0] * cov2) if use_mono else (rel[1] * cov1)
        if abs(prod - round(prod)) > 1e-6 or prod == round(prod):
            break
    return (cov1, mono, cov2), (C04.milli(rel[0]) * cov2) if use_mono else (C04.milli(rel[1]) * cov1)


ERRS = (KeyError, ZeroDivisionError, IndexError, AssertionError, ValueError, TypeError)


def _key_of(x):
    return (x[0], tuple(tuple(i) for i in x[1]))


def _takes_reads(cls):
    """the current `drop_novel_chains_reported_elsewhere(read_assignment_storage)` (the dict holds MODELS); fix 0c8e711: no argument,
    the dict holds ids; fix b2b4dd9: a set"""
    import inspect
    fn = getattr(cls, "drop_novel_chains_reported_elsewhere", None)
    return fn is not None and len(inspect.signature(fn).parameters) >= 2


def _model_obj(mj):
    C04 = _C04()
    IG, GB, GI, PF, TP = C04._impl()
    m = GI.TranscriptModel(mj["chr"], mj["strand"], mj["tid"], mj["gene"], [tuple(e) for e in mj["exons"]], GI.TranscriptModelType[mj["type"]])
    m.intron_path = tuple(tuple(i) for i in mj.get("intron_path", []))
    return m


def _set_reported(cls, entries):
    """`entries`: [[[strand, chain], model json]] - the class attribute is a dict of models (current code), a dict of ids (fix
    0c8e711) or a set (fix b2b4dd9)"""
    if isinstance(cls.reported_novel_chains, dict):
        if _takes_reads(cls):
            cls.reported_novel_chains = {_key_of(k): _model_obj(v) for k, v in entries}
        else:
            cls.reported_novel_chains = {_key_of(k): v["tid"] for k, v in entries}
    else:
        cls.reported_novel_chains = set(_key_of(k) for k, _v in entries)


def _get_reported(cls):
    """canonical: [[strand, chain], id of the model reported first, its exons] sorted by key"""
    rep = cls.reported_novel_chains
    if isinstance(rep, dict):
        return [[[s_, [list(i) for i in ch]], (v if isinstance(v, str) else v.transcript_id),
                 ([] if isinstance(v, str) else [list(e) for e in v.exon_blocks])] for (s_, ch), v in sorted(rep.items(), key=lambda x: x[0])]
    return [[[s_, [list(i) for i in ch]], "", []] for s_, ch in sorted(rep)]


def _span_exons(span):
    """corrected exons of the fake reads of a record: their hull is the record's `span` (None: no read has exons)"""
    return [] if span is None else [(span[0], span[1])]


def real_chr_run(kw, snaps=None):
    """the records of one chromosome through REAL `process()` calls that share the class-level sets and one id distributor.
    The stubs' answers are drawn from Random(kw["_seed"]) and written into the region dicts (`sub1`, `sub2`, `n1`, `cov_term`,
    `ins1`, `ins2`, `genes`): they are the model's parameters.  -> canonical result | error"""
    C04 = _C04()
    IG, GB, GI, PF, TP = C04._impl()
    import io
    import src.id_policy as IDP
    from src.isoform_assignment import ReadAssignmentType
    rng = random.Random(kw["_seed"])
    quiet = bool(kw.get("_quiet"))          # the hand-made witness: every heuristic answers "nothing to do"
    cls = GB.GraphBasedModelConstructor
    has_set = hasattr(cls, "reported_novel_chains")
    saved_det = set(cls.detected_known_isoforms)
    saved_rep = copy.copy(cls.reported_novel_chains) if has_set else None
    cls.detected_known_isoforms = set(kw["state"]["detected"])
    if has_set:
        _set_reported(cls, kw["state"]["reported"])
    dist = IDP.ExcludingIdDistributor.__new__(IDP.ExcludingIdDistributor)
    dist.value = kw["state"]["idv"]
    dist.forbidden_ids = set(kw["forbidden"])
    old = (GB.IntronGraph, GB.IntronPathProcessor, GB.IntronPathStorage, GB.TranscriptToGeneJoiner, GB.GeneInfo, GB.LongReadAssigner,
           GB.CombinedProfileConstructor)
    out_regions = []
    for rj in kw["regions"]:
        rj.update({"sub1": [], "sub2": [], "n1": 0, "cov_term": [], "ins1": [], "ins2": [], "genes": []})
    try:
        for rj in kw["regions"]:
            mapq = dict((k, v) for k, v in rj["mapq"])
            pool = {}

            span_exons = _span_exons(rj.get("span"))

            def reads(rid, grp="g", pool=pool, mapq=mapq, span_exons=span_exons):
                if rid not in pool:
                    pool[rid] = C04.FakeRead({"id": rid, "exons": span_exons or [(1, 2)], "introns": [], "mm": False, "strand": "+", "polya": False,
                                              "polyt": False, "group": grp, "mapq": mapq.get(rid, 0)})
                    if not span_exons:
                        pool[rid].corrected_exons = []
                return pool[rid]
            c = _region_constructor(rj, dist, reads)
            rel = rj["_rel"]
            rec = {"sub": [], "n1": 0, "cov_term": [], "ins": [[], []], "genes": [], "assign_calls": 0}

            # --- stubs of the collaborators process() creates
            def gmc(path, cur=rec):
                cur["k"] += 1
                m = cur["order"][cur["k"]]
                triple, term = _cov_choice(rng, rel, len(m.intron_path))
                cur["v"] = triple
                cur["cov_term"].append([m.transcript_id, term])
                return triple[0]
            graph = types.SimpleNamespace(get_max_component_coverage=gmc, is_monointron=lambda v, cur=rec: cur["v"][1],
                                          get_overlapping_component_max_coverage=lambda r_, cur=rec: cur["v"][2])
            GB.IntronGraph = lambda *a_, **k_: graph
            GB.IntronPathProcessor = lambda *a_, **k_: types.SimpleNamespace()
            GB.IntronPathStorage = lambda *a_, c=c, **k_: c._path_storage

            def construct_assignment_based(storage, c=c, rj=rj):
                for k, x in rj["aops"]:
                    if k == "known":
                        ref = x["ref"]
                        c.known_isoforms_in_graph_ids[ref] = ()
                        c.construct_nonfl_isoforms({ref: [reads(r) for r in x["reads"]]}, defaultdict(lambda: 1), defaultdict(lambda: 1))
                    else:
                        clustered = {}
                        for cl in x["clusters"]:
                            clustered[cl["three_prime"]] = [C04.FakeRead({"id": rid, "exons": [(a, b)], "introns": [], "mm": False,
                                                                          "strand": ".", "polya": False, "polyt": False, "group": "g",
                                                                          "mapq": mapq.get(rid, 0)}) for rid, a, b in cl["reads"]]
                            for fr in clustered[cl["three_prime"]]:
                                pool.setdefault(fr.read_id, fr)
                        c.generate_monoexon_from_clustered(clustered, x["forward"])
            c.construct_assignment_based_isoforms = construct_assignment_based

            def detect(storage, cur=rec):
                novel = [m.transcript_id for m in storage if m.transcript_type != GI.TranscriptModelType.known]
                if not cur["sub"]:
                    cur["n1"] = len(storage)
                    cur["sub"].append([t for t in novel if rng.random() < 0.15 and not quiet])
                elif len(storage) == cur["n1"]:
                    cur["sub"].append(list(cur["sub"][0]))      # a function of the list it is given
                else:
                    cur["sub"].append([t for t in novel if rng.random() < 0.15 and not quiet])
                return {t: "x" for t in cur["sub"][-1]}
            c.detect_similar_isoforms = detect
            c.correct_novel_transcript_ends = lambda model, reads_: None

            def filter_transcripts(c=c, cur=rec):
                cur["order"] = [m for m in c.transcript_model_storage if m.transcript_type != GI.TranscriptModelType.known]
                cur["k"] = -1
                cls.filter_transcripts(c)
            c.filter_transcripts = filter_transcripts

            def assign_reads_to_models(storage, c=c, cur=rec):
                call = cur["assign_calls"]
                cur["assign_calls"] += 1
                ids = [m.transcript_id for m in c.transcript_model_storage]

                def assign_to_isoform(read_id, profile):
                    cons = rng.random() < 0.6 and not quiet
                    matched = rng.sample(ids, rng.randint(1, min(2, len(ids)))) if cons else []
                    cur["ins"][min(call, 1)].append({"read": read_id, "consistent": cons, "matched": matched})
                    return types.SimpleNamespace(
                        assignment_type=ReadAssignmentType.unique if cons else ReadAssignmentType.inconsistent,
                        isoform_matches=[types.SimpleNamespace(assigned_transcript=t) for t in matched], read_group=None)
                GB.GeneInfo = types.SimpleNamespace(from_models=lambda st, d: None)
                GB.LongReadAssigner = lambda *a_, **k_: types.SimpleNamespace(assign_to_isoform=assign_to_isoform)
                GB.CombinedProfileConstructor = lambda *a_, **k_: types.SimpleNamespace(construct_profiles=lambda e, p_, y: None)
                if not c.transcript_model_storage:
                    # the code zeroes every read without consulting the assigner: the model does the same for the reads it is given
                    for a in storage:
                        cur["ins"][min(call, 1)].append({"read": a.read_id, "consistent": False, "matched": []})
                cls.assign_reads_to_models(c, storage)
            c.assign_reads_to_models = assign_reads_to_models
            # round c04rep: the REAL forward_counts on a recording counter (the constructors of a chromosome share the counter)
            snap = {"counted": [], "confirmed": [], "pre_drop": None, "offered": None}
            c.transcript_counter = types.SimpleNamespace(
                add_read_info_raw=lambda rid, tids, grp, snap=snap: snap["counted"].append((rid, list(tids))),
                add_unassigned=lambda n_: None,
                add_confirmed_features=lambda ids_, snap=snap: snap["confirmed"].extend(ids_))
            if hasattr(cls, "drop_novel_chains_reported_elsewhere"):
                def drop(*a_, c=c, snap=snap):
                    # what passed filter_transcripts, with its reads, right before the step under test
                    snap["pre_drop"] = [(m.transcript_id, m.strand, tuple(C04.junctions([tuple(e) for e in m.exon_blocks])),
                                         m.transcript_type != GI.TranscriptModelType.known and len(m.exon_blocks) > 1,
                                         [a.read_id for a in c.transcript_read_ids.get(m.transcript_id, [])])
                                        for m in c.transcript_model_storage]
                    cls.drop_novel_chains_reported_elsewhere(c, *a_)
                    snap["offered"] = [m.transcript_id for m in c.transcript_model_storage]
                c.drop_novel_chains_reported_elsewhere = drop
            if snaps is not None:
                snaps.append(snap)

            class Joiner:
                def __init__(self, storage, gene_info, cur=rec):
                    self.storage = storage
                    self.cur = cur

                def join_transcripts(self):
                    for m in self.storage:
                        if m.transcript_type != GI.TranscriptModelType.known and rng.random() < 0.4 and not quiet:
                            m.gene_id = "J_" + m.gene_id
                            self.cur["genes"].append([m.transcript_id, m.gene_id])
                    return self.storage
            GB.TranscriptToGeneJoiner = Joiner
            storage = [reads(rid, grp) for pi in rj["paths"] for rid, grp in pi["reads"]]
            storage += [reads(r) for k, x in rj["aops"] if k == "known" for r in x["reads"]]
            storage += [reads(r) for r in rj["_extra_reads"]]
            seen, uniq = set(), []
            for a in storage:
                if a.read_id not in seen:
                    seen.add(a.read_id)
                    uniq.append(a)
            try:
                cls.process(c, uniq)
            finally:
                # also when process() raises: the answers given so far are the model's parameters up to the same point
                rj["sub1"] = rec["sub"][0] if rec["sub"] else []
                rj["sub2"] = rec["sub"][1] if len(rec["sub"]) > 1 else []
                rj["n1"] = rec["n1"]
                rj["cov_term"] = rec["cov_term"]
                rj["ins1"], rj["ins2"] = rec["ins"]
                rj["genes"] = rec["genes"]
            pr = TP.GFFPrinter.__new__(TP.GFFPrinter)
            pr.output_r2t = True
            pr.out_gff = io.StringIO()
            pr.out_r2t = io.StringIO()
            pr.dump_read_assignments(c)
            out_regions.append({"store": C04.store_json(c), "r2t": [l.split("\t") for l in pr.out_r2t.getvalue().split("\n") if l]})
        res = {"detected": sorted(cls.detected_known_isoforms), "idv": dist.value,
               "reported": _get_reported(cls) if has_set else [], "regions": out_regions}
    except ERRS as ex:
        res = {"error": "error", "exc": type(ex).__name__}
    finally:
        (GB.IntronGraph, GB.IntronPathProcessor, GB.IntronPathStorage, GB.TranscriptToGeneJoiner, GB.GeneInfo, GB.LongReadAssigner,
         GB.CombinedProfileConstructor) = old
        cls.detected_known_isoforms = saved_det
        if has_set:
            cls.reported_novel_chains = saved_rep
    return res


def gen_chr_case(rng, witness=False):
    """2-4 records of one chromosome.  Each record is a `gen_fl_case` of props/C04.py (chains over one small intron pool, so chains
    repeat between records) on ONE chromosome / canonical-site table; with probability 0.6 a record also gets a copy of a chain of
    an earlier record with another 5' vertex and its own reads — the reads of one isoform that bridge a cut"""
    C04 = _C04()
    IG, GB, GI, PF, TP = C04._impl()
    presets, _ = C04._PRESETS()
    a = presets[(rng.choice(C04.PRESET_NAMES), "auto")]
    regions = []
    base = None
    nreg = 2 if witness else rng.randint(2, 4)
    for k in range(nreg):
        kw = C04.gen_fl_case(rng)
        if base is None:
            base = kw
            if witness:
                base["env"].update({"gene_empty": True, "known_paths": [], "known_introns": [], "intron_genes": [], "level": "only_stranded",
                                    "min_novel_count": 2, "use_technical_replicas": False})
                base["sd"] = [[list(i), "+"] for i in C04.FL_POOL]
                base["forbidden"] = []
        env = copy.deepcopy(kw["env"])
        env["chr"] = base["env"]["chr"]
        env["gene_strands"] = base["env"]["gene_strands"]
        if witness:
            env = copy.deepcopy(base["env"])
        paths = []
        if not witness:
            keep_missing = rng.random() < 0.15       # a verdict naming an isoform the GeneInfo lacks: KeyError of the real code
            for pi in kw["paths"]:
                pi = copy.deepcopy(pi)
                if pi["ref"] == "Tmissing" and not keep_missing:
                    pi["ref"] = "T1"
                pi["reads"] = [["R%d_%s" % (k, rid), grp] for rid, grp in pi["reads"]]
                paths.append(pi)
        if witness:
            chain = [[100, 200], [350, 420]]
            paths = [{"path": [[IG.VERTEX_read_start, 40 + 25 * k]] + chain + [[IG.VERTEX_polya, 700]], "count": 3,
                      "reads": [["R%d_w%d" % (k, j), "g1"] for j in range(3)], "matching": False, "ref": ""}]
        elif k > 0 and rng.random() < 0.6:
            src = [pi for rj in regions for pi in rj["paths"] if len(pi["path"]) > 2]
            if src:
                pi = copy.deepcopy(rng.choice(src))
                inner = pi["path"][1:-1]
                if not any(p_["path"][1:-1] == inner for p_ in paths):
                    pi["path"][0] = [rng.choice([IG.VERTEX_polyt, IG.VERTEX_read_start]), pi["path"][0][1] + rng.choice([-17, 9, 23])]
                    pi["count"] = max(pi["count"], rng.randint(2, 5))
                    pi["reads"] = [["R%d_b%d" % (k, j), rng.choice(["g1", "g2"])] for j in range(max(pi["count"], 1))]
                    paths.append(pi)
                    if rng.random() < 0.25:
                        # round c04rep: TWO local copies of the repeated chain in one constructor (another 3' vertex: the
                        # alternative-polyA twins of the listed finding) - only the first takes the reported id
                        pi2 = copy.deepcopy(pi)
                        pi2["path"][-1] = [pi2["path"][-1][0], pi2["path"][-1][1] + rng.choice([300, 700])]
                        pi2["reads"] = [["R%d_c%d" % (k, j), rng.choice(["g1", "g2"])] for j in range(max(pi2["count"], 1))]
                        paths.append(pi2)
        aops = []
        if not witness and rng.random() < 0.4 and not env["gene_empty"]:
            ref = rng.choice(["T1", "T2"])
            m = dict(dict(env["ref_models"])[ref], chr=env["chr"])
            aops.append(["known", {"ref": ref, "m": m, "reads": ["R%d_k%d" % (k, j) for j in range(rng.randint(env["min_known_count"], env["min_known_count"] + 2))]}])
        if not witness and rng.random() < 0.3:
            mk = C04.gen_monoexon_case(rng)
            cl = [{"three_prime": c_["three_prime"], "reads": [["R%d_%s" % (k, r[0]), r[1], r[2]] for r in c_["reads"]]} for c_ in mk["clusters"]]
            aops.append(["mono", {"forward": mk["forward"], "clusters": cl}])
        rids = [rid for pi in paths for rid, _g in pi["reads"]] + [r for k_, x in aops if k_ == "known" for r in x["reads"]] + \
               [r[0] for k_, x in aops if k_ == "mono" for c_ in x["clusters"] for r in c_["reads"]]
        extra = ["R%d_x%d" % (k, j) for j in range(rng.randint(0, 3))]
        mapq = [[r, rng.choice([0, 10, 29, 30, 60, 60, 60])] for r in rids + extra]
        for _t, m_ in env["ref_models"]:
            m_["chr"] = env["chr"]
        # round c04rep2: the hull of the corrected exons of the record's reads (the fake reads carry it): mostly over the
        # coordinates of the generated models (starting vertices ~10-60, terminal ~400-1400), 20 % far away, 10 % no exons at all
        u = rng.random()
        span = None if (u < 0.1 and not witness) else ([5000, 5200] if (u < 0.3 and not witness) else
                                                        [rng.choice([0, 30, 120, 450]), rng.choice([500, 900, 1500])])
        regions.append({"env": env, "sd": base["sd"], "paths": paths, "aops": aops, "mapq": mapq, "_extra_reads": extra, "span": span,
                        "min_novel_count": env["min_novel_count"], "mapq_cutoff": 30,
                        "_rel": [0.0, 0.0] if witness else [a.min_mono_count_rel, a.min_novel_count_rel]})
    state = {"detected": [] if witness or rng.random() < 0.8 else [rng.choice(["T1", "T2"])], "idv": 0 if witness else rng.randint(0, 5),
             "reported": []}
    if not witness and rng.random() < 0.1:
        src = [pi for rj in regions for pi in rj["paths"] if len(pi["path"]) > 2]
        if src:
            # a chain reported by a constructor before the first record: its model has an id of the distributor's format
            pth = rng.choice(src)["path"]
            inner = pth[1:-1]
            ex = [[pth[0][1], inner[0][0] - 1]] + [[inner[i][1] + 1, inner[i + 1][0] - 1] for i in range(len(inner) - 1)] + [[inner[-1][1] + 1, pth[-1][1]]]
            mj = {"chr": base["env"]["chr"], "strand": "+", "tid": "transcript%d.%s.nnic" % (900 + rng.randint(0, 9), base["env"]["chr"]),
                  "gene": "novel_gene_%s_900" % base["env"]["chr"], "exons": ex, "type": "novel_not_in_catalog", "intron_path": inner}
            state["reported"] = [[["+", inner], mj]]
    return {"forbidden": base["forbidden"], "state": state, "regions": regions, "variant": "join", "_seed": rng.randrange(10 ** 9),
            "_quiet": witness}


def canon_chr(mo):
    if isinstance(mo, dict) and "detected" in mo:
        return dict(mo, detected=sorted(mo["detected"]))
    return mo


def spliced_novel_keys(region_out):
    """[(tid, (strand, chain))] of the novel spliced models a constructor dumps"""
    C04 = _C04()
    res = []
    for m in region_out["store"]["models"]:
        if m["type"] != "known" and len(m["exons"]) > 1:
            res.append((m["tid"], (m["strand"], tuple(C04.junctions([tuple(e) for e in m["exons"]])))))
    return res


def oracle_chr_case(kw):
    """the clauses on a REAL sequence of constructors:
    * a (strand, intron chain) reported by two DIFFERENT constructors of one chromosome task is a failure; what one constructor
      reports twice by itself is the per-constructor clause (known finding `monointron_apa_duplicates` / the oracle of
      props/c04sim.py with the real detect_similar_isoforms) and is not judged here;
    * every line of transcript_model_reads names a model dumped by this or an EARLIER constructor of the chromosome;
    * round c04rep2, `supporting_reads_lost`: every novel spliced model dumped by an EARLIER constructor whose span overlaps the hull
      of the reads of constructor k is in the storage the second `assign_reads_to_models` of constructor k works on (the assigner -
      a stub here - decides which reads it takes), whether or not constructor k built a model of that chain; and every read of a
      local model that is withheld because its chain was reported earlier is OFFERED to that assigner or listed (it does not
      vanish: it has a line in transcript_model_reads);
    * `counts_not_forwarded`: every line reached the shared counter (`forward_counts`) under the same id"""
    kw = copy.deepcopy(kw)
    kw["state"] = dict(kw["state"], reported=[])          # the chromosome task starts with cleared containers
    snaps = []
    res = real_chr_run(kw, snaps)
    if vlib.is_err(res):
        return None
    seen = {}
    chain_of = {}
    span_of = {}
    first_key = set()
    for k, ro in enumerate(res["regions"]):
        snap = snaps[k] if k < len(snaps) else None
        rspan = kw["regions"][k].get("span")
        if snap and snap["offered"] is not None and rspan is not None:
            for tid, (a, b) in span_of.items():
                if a <= rspan[1] and rspan[0] <= b and tid not in snap["offered"]:
                    return (LOST_KIND, "constructor %d processes reads spanning %s; %s (%d-%d, chain %s), reported by an earlier constructor, overlaps them "
                            "but is not among the models its second assign_reads_to_models compares the reads with (%s)"
                            % (k, rspan, tid, a, b, list(chain_of[tid][1])[:3], snap["offered"]))
        own = spliced_novel_keys(ro)
        for tid, key in own:
            chain_of.setdefault(tid, key)
        for m in ro["store"]["models"]:
            # the dict names ONE model per (strand, chain): the first one reported (a constructor may report a chain twice by
            # itself: the listed finding `monointron_apa_duplicates`)
            if m["tid"] in chain_of and m["exons"] and chain_of[m["tid"]] not in first_key:
                first_key.add(chain_of[m["tid"]])
                span_of.setdefault(m["tid"], (m["exons"][0][0], m["exons"][-1][1]))
        ids = {m["tid"] for m in ro["store"]["models"]} | set(chain_of)
        for rid, tid in ro["r2t"]:
            if tid != "*" and tid not in ids:
                return "r2t_unknown_transcript", "constructor %d: transcript_model_reads names %s, dumped neither by it nor by an earlier constructor" % (k, tid)
        for tid, key in own:
            if key in seen and seen[key][0] != k:
                return ("duplicate_novel_chain", "constructors %d and %d of one chromosome report %s and %s with the intron chain %s on strand %s"
                        % (seen[key][0], k, seen[key][1], tid, list(key[1])[:3], key[0]))
            seen.setdefault(key, (k, tid))
        if snap and snap["pre_drop"] is not None:
            dumped = {m["tid"] for m in ro["store"]["models"]}
            lines = {rid for rid, _t in ro["r2t"]}
            for tid, strand, chain, spliced_novel, rids in snap["pre_drop"]:
                key = (strand, chain)
                if spliced_novel and tid not in dumped and key in seen and seen[key][0] < k:
                    gone = [r for r in rids if r not in lines]
                    if gone:
                        return (LOST_KIND, "constructor %d: %s passed filter_transcripts with %d reads and is withheld (its chain %s was reported by constructor %d as %s); "
                                "%d of the reads (%s, ...) have no line in transcript_model_reads at all"
                                % (k, tid, len(rids), list(chain)[:3], seen[key][0], seen[key][1], len(gone), gone[0]))
            counted = defaultdict(set)
            for rid, tids in snap["counted"]:
                counted[rid].update(tids)
            for rid, tid in ro["r2t"]:
                if tid != "*" and tid not in counted[rid]:
                    return "counts_not_forwarded", "constructor %d: %s is listed under %s but forward_counts did not pass the pair to the counter" % (k, rid, tid)
    return None


def real_drop(kw):
    """the real `drop_novel_chains_reported_elsewhere` on a storage built by add_model steps, with a preset class-level container and
    reads whose corrected exons span `kw["span"]`; result in the shape of driver op `drop_join`"""
    C04 = _C04()
    IG, GB, GI, PF, TP = C04._impl()
    cls = GB.GraphBasedModelConstructor
    _res, c = C04.real_store_run({"mapq": kw["mapq"], "ops": kw["_ops"], "_params": kw["_params"]})
    before = C04.store_json(c)
    has_set = hasattr(cls, "reported_novel_chains")
    saved = copy.copy(cls.reported_novel_chains) if has_set else None
    if has_set:
        _set_reported(cls, kw["reported"])
    ex = _span_exons(kw["span"])
    storage = [types.SimpleNamespace(read_id="s%d" % i, corrected_exons=ex) for i in range(2)]
    try:
        n0 = len(c.transcript_model_storage)
        if _takes_reads(cls):
            c.drop_novel_chains_reported_elsewhere(storage)
        else:
            c.drop_novel_chains_reported_elsewhere()
        joined = getattr(c, "earlier_models", getattr(c, "repeated_chain_models", []))
        res = {"store": C04.store_json(c),
               "final": [m.transcript_id for m in c.transcript_model_storage if not any(m is x for x in joined)],
               "reported": _get_reported(cls)}
    except (KeyError, AttributeError, IndexError) as ex_:
        res = {"error": "error", "exc": type(ex_).__name__}
    finally:
        if has_set:
            cls.reported_novel_chains = saved
    return before, res


def gen_drop_case(rng):
    C04 = _C04()
    kw = C04.gen_store_case(rng)
    ops = [o for o in kw["ops"] if o[0] == "add_model"]
    keys = []
    for _k, x in ops:
        m = x["m"]
        if rng.random() < 0.3 and len(m["exons"]) > 1:
            m["exons"] = [list(e) for e in ops[0][1]["m"]["exons"]] if len(ops[0][1]["m"]["exons"]) > 1 else m["exons"]
        keys.append(([m["strand"], [list(i) for i in C04.junctions([tuple(e) for e in m["exons"]])]], m))
    reported = [(k, m) for k, m in keys if rng.random() < 0.4]
    if rng.random() < 0.3:
        reported.append((["+", [[7, 9]]], {"chr": "chr1", "strand": "+", "exons": [[1, 6], [10, 20]], "intron_path": [[7, 9]]}))
    if rng.random() < 0.03:
        # a dict entry whose model has no exons: IndexError of get_start()
        reported.append((["-", [[3, 4]]], {"chr": "chr1", "strand": "-", "exons": [], "intron_path": []}))
    seen, uniq = set(), []
    for k, m in reported:
        t = (k[0], tuple(map(tuple, k[1])))
        if t not in seen:
            seen.add(t)
            # the model reported first: the chain of the local model, other ends (shifted by up to 300), a foreign id
            sh = rng.choice([0, 0, -40, 300])
            ex = [list(e) for e in m["exons"]]
            if ex:
                ex[0][0] += min(sh, 0)
                ex[-1][1] += max(sh, 0)
            uniq.append([k, {"chr": m.get("chr", "chr1"), "strand": k[0], "tid": "transcript%d.chrF.nnic" % (700 + len(uniq)), "gene": "novel_gene_chrF_700",
                             "exons": ex, "type": "novel_not_in_catalog", "intron_path": m.get("intron_path", [])}])
    u = rng.random()
    span = None if u < 0.1 else ([90000, 90100] if u < 0.3 else [rng.choice([0, 60, 130]), rng.choice([70, 140, 400])])
    return {"mapq": kw["mapq"], "_ops": ops, "_params": kw["_params"], "reported": uniq, "span": span}


def corr_drop(ctx, n):
    C04 = _C04()
    cases, vals = [], []
    for _ in range(n):
        kw = gen_drop_case(ctx.rng)
        before, iv = real_drop(kw)
        cases.append(("drop_join", dict(kw, store=before)))
        vals.append(iv)
        if not vlib.is_err(iv):
            ctx.count("drop_join:earlier_models_joined=%d" % min(len(iv["store"]["models"]) - len(iv["final"]), 3))
            ctx.count("drop_join:local_copies_deleted=%d" % min(len(before["models"]) - len(iv["final"]), 3))
    C04.run_cases(ctx, cases, vals, lambda op, kw, mo: not vlib.is_err(mo) and (len(mo["final"]) < len(kw["store"]["models"])
                                                                              or len(mo["store"]["models"]) > len(mo["final"])))


def correspondence(ctx):
    C04 = _C04()
    q = ctx.tier == "quick"
    corr_drop(ctx, 300 if q else 3000)
    cases, vals = [], []
    kw = gen_chr_case(random.Random(1), witness=True)
    iv = real_chr_run(kw)
    cases.append(("chr_run", kw))
    vals.append(iv)
    ctx.extra["split_witness_on_real_constructors"] = None if vlib.is_err(iv) else \
        {"models_per_constructor": [[m["tid"] for m in r["store"]["models"]] for r in iv["regions"]], "reported": iv["reported"]}
    for _ in range(250 if q else 2500):
        kw = gen_chr_case(ctx.rng)
        iv = real_chr_run(kw)
        cases.append(("chr_run", kw))
        vals.append(iv)
        ctx.count("chr_run:regions=%d" % len(kw["regions"]))
        if not vlib.is_err(iv):
            keys = [key for r in iv["regions"] for _t, key in spliced_novel_keys(r)]
            ctx.count("chr_run:spliced_novel_reported=%d" % min(len(keys), 5))
    outs = C04.run_cases(ctx, cases, vals,
                         lambda op, kw, mo: not vlib.is_err(mo) and any(r["store"]["models"] for r in mo["regions"]), canon_model=canon_chr)
    # how often the new step acted: compare with the model of the code before the fix (driver only)
    orig = ctx.driver.run([vlib.req("C04.chr_run", **dict(kw, variant="orig")) for _op, kw in cases])
    prev = ctx.driver.run([vlib.req("C04.chr_run", **dict(kw, variant="0c8e711")) for _op, kw in cases])
    dropped = differs = 0
    for mo, mo0, mo1 in zip(outs, orig, prev):
        if isinstance(mo, dict) and isinstance(mo0, dict) and "regions" in mo and "regions" in mo0:
            n1 = sum(len(r["store"]["models"]) for r in mo["regions"])
            n0 = sum(len(r["store"]["models"]) for r in mo0["regions"])
            if n0 > n1:
                dropped += 1
        if isinstance(mo, dict) and isinstance(mo1, dict) and "regions" in mo and "regions" in mo1:
            # the model of fix 0c8e711 on the same input and the same recorded assigner answers
            if [r["r2t"] for r in mo["regions"]] != [r["r2t"] for r in mo1["regions"]]:
                differs += 1
    ctx.extra["chr_run_cases_where_the_drop_acts"] = dropped
    ctx.extra["chr_run_cases_where_0c8e711_lists_reads_differently"] = differs


def oracle(ctx, disagreements, broken):
    C04 = _C04()
    n = 0
    for d in disagreements:
        if d["op"] != "chr_run":
            continue
        try:
            r = oracle_chr_case(d["input"])
        except Exception as ex:
            ctx.notes.append("oracle could not evaluate a disagreeing chr_run input: %s" % type(ex).__name__)
            continue
        n += 1
        if r:
            ctx.fail(r[0], {"level": "inproc", "op": "chr_run", "args": d["input"], "class": "split_region" if r[0] in ("duplicate_novel_chain", LOST_KIND) else ""}, r[1])
            if len(ctx.failures) > 20:
                break
    q = ctx.tier == "quick" and not broken
    cases = [gen_chr_case(random.Random(1), witness=True)] + [gen_chr_case(ctx.rng) for _ in range(150 if q else 1500)]
    for kw in cases:
        r = oracle_chr_case(kw)
        n += 1
        if r:
            ctx.fail(r[0], {"level": "inproc", "op": "chr_run", "args": kw, "class": "split_region" if r[0] in ("duplicate_novel_chain", LOST_KIND) else ""}, r[1])
            if len(ctx.failures) > 20:
                break
    ctx.extra["oracle_chr_runs"] = n


def replay_case(kw):
    r = oracle_chr_case(kw)
    return r
