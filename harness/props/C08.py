"""C08 — multi-mapped reads resolve to one best locus, order-independently, counted once."""
import copy
import itertools
import os
import shutil
import types as _types

import vlib
from gen import resolver as G

ID = "C08"
PROPS = ["IsoVerif/Props/C08.lean", "IsoVerif/Props/C08Diff.lean", "IsoVerif/Props/C08Order.lean", "IsoVerif/Props/C08Flow.lean",
         "IsoVerif/Props/C08Tables.lean", "IsoVerif/Props/C08Pickle.lean", "IsoVerif/Props/C05Printers.lean"]
TARGETS = ["IsoVerif.Props.C08", "IsoVerif.Props.C08Diff", "IsoVerif.Props.C08Order", "IsoVerif.Props.C08Flow", "IsoVerif.Props.C08Tables",
           "IsoVerif.Props.C08Pickle", "IsoVerif.Props.C05Printers"]
GEN_DEPS = ["Enums", "EventClasses", "Strategies", "Prims", "Resolver", "PrinterTables"]
LEVEL = "proof"
RULE = ("per-read record lists on real BasicReadAssignment objects: every (type, flag, locus, isoforms, penalty) pair "
        "exhaustively, every (type, flag) assignment of length 3 over fixed locus/isoform layouts, every permutation of "
        "sampled multisets of length <= 4, seeded random lists of length <= 6 (with `__eq__`-duplicates, ties, negative "
        "penalties, `suspended` inputs), the three strategies; find_duplicates on index lists; the loader rule; the two "
        "list-building paths; the count increments of the real AssignedFeatureCounter; both memory modes of the real "
        "pipeline on synthetic multi-chromosome BAMs.  A case is non-trivial when the model returns a non-error value "
        "with at least one retained and (for lists) one suspended record and model == implementation; distinct by (op, input)")
TRUSTED = ["string identifiers are interned order-preservingly (fixed-width names) so the model's numeric `=`/`<` are "
           "Python's on the strings",
           "Gen/Resolver.lean (strategy enum, CLI strategy, __eq__ fields, suspended-assignment sites, skip guards) is "
           "extracted from the sources each run"]
ASSUMPTIONS = ["penalty_score values are multiples of 2^-20 (the on-disk unit); the model holds the integer numerator",
               "count increments are compared to the model's exact fraction within 1e-9",
               "records handed to the resolver never carry type `suspended` (only the resolver assigns it: "
               "Gen.suspended_assigned_at, proved in Props/C08Flow) - the oracle's input domain",
               "(assignment_id, chr_id) identifies an alignment record within one run (ids are drawn from a per-process counter "
               "and a chromosome is processed by one process)"]

STRATEGIES = ["take_best", "merge", "ignore_multimapper"]
COUNTING = ["unique_only", "with_ambiguous", "unique_splicing_consistent", "unique_inconsistent", "all"]


def _impl():
    vlib.repo_on_path()
    import logging
    logging.getLogger("IsoQuant").setLevel(logging.CRITICAL)     # the resolver logs every duplicate it drops
    import src.multimap_resolver as MR
    import src.isoform_assignment as IA
    import src.long_read_counter as LC
    return MR, IA, LC


# ------------------------------------------------------------------------------------------------
# real code adapters

def impl_resolve(strategy, recs):
    MR, IA, LC = _impl()
    objs = [G.to_basic(d) for d in recs]
    res = MR.MultimapResolver(MR.MultimapResolvingStrategy[strategy])
    try:
        out = res.resolve(objs)
    except (IndexError, AssertionError, KeyError, ValueError, TypeError, AttributeError) as ex:
        return {"error": "error", "exc": type(ex).__name__}
    return [G.from_basic(a) for a in out]


def impl_find_duplicates(recs, idx):
    MR, IA, LC = _impl()
    objs = [G.to_basic(d) for d in recs]
    try:
        return list(MR.MultimapResolver.find_duplicates(objs, list(idx)))
    except (IndexError, TypeError) as ex:
        return {"error": "error", "exc": type(ex).__name__}


class _FakeGeneInfo:
    def __init__(self, isoforms):
        self.all_isoforms_introns = {i: [(1, 2)] for i in isoforms}


def fake_read_assignment(atype, gtype, isoforms, genes, read_id="r", multimapper=False):
    """the attributes AssignedFeatureCounter.add_read_info looks at"""
    MR, IA, LC = _impl()
    ra = _types.SimpleNamespace()
    ra.read_id = read_id
    ra.assignment_type = IA.ReadAssignmentType[atype]
    ra.gene_assignment_type = IA.ReadAssignmentType[gtype]
    n = max(len(isoforms), len(genes))
    ms = []
    for k in range(n):
        m = _types.SimpleNamespace()
        m.assigned_transcript = isoforms[k] if k < len(isoforms) else isoforms[-1] if isoforms else None
        m.assigned_gene = genes[k] if k < len(genes) else genes[-1] if genes else None
        ms.append(m)
    ra.isoform_matches = ms
    ra.read_group = "NA"
    ra.multimapper = multimapper
    ra.gene_info = _FakeGeneInfo(isoforms)
    ra.corrected_exons = [(1, 2), (3, 4)]
    return ra


_scratch = {"dir": None}


def scratch():
    if _scratch["dir"] is None:
        _scratch["dir"] = vlib.scratch_dir("isoverif_c08_")
    return _scratch["dir"]


def cleanup():
    if _scratch["dir"]:
        shutil.rmtree(_scratch["dir"], ignore_errors=True)
        _scratch["dir"] = None


def real_increments(counting, table, ras):
    """feed fake read assignments to a fresh real counter; returns {feature: total increment}"""
    MR, IA, LC = _impl()
    prefix = os.path.join(scratch(), "cnt")
    mk = LC.create_transcript_counter if table == "transcript" else LC.create_gene_counter
    c = mk(prefix, counting)
    for ra in ras:
        c.add_read_info(ra)
    res = {}
    for f, inc in c.feature_counter.items():
        res[f] = sum(inc.data.values())
    return res


def impl_feature_weight(counting, atype, n):
    """sorted non-zero increments one record with n transcripts adds to the transcript table"""
    isoforms = [G.name_iso(i) for i in range(n)]
    ra = fake_read_assignment(atype, atype, isoforms, [G.name_gene(0)] if n else [])
    try:
        inc = real_increments(counting, "transcript", [ra])
    except ZeroDivisionError:
        return {"error": "error", "exc": "ZeroDivisionError"}
    return sorted(v for v in inc.values() if v != 0)


def impl_read_total(counting, out):
    """what the retained records of one read add to the transcript and the gene table (real counter)"""
    ras = []
    for d in out:
        if d["atype"] == "suspended":
            continue
        ras.append(fake_read_assignment(d["atype"], d["gtype"], [G.name_iso(i) for i in d["iso"]],
                                        [G.name_gene(g) for g in d["genes"]], multimapper=d["mm"]))
    t = real_increments(counting, "transcript", ras)
    g = real_increments(counting, "gene", ras)
    return sum(t.values()), sum(g.values()), t, g


# ------------------------------------------------------------------------------------------------
# case generation (shared by correspondence and oracle)

def gen_lists(ctx, for_oracle=False):
    """-> list of (tag, record list)"""
    rng = ctx.rng
    quick = ctx.tier == "quick"
    types = G.TYPES
    cases = []
    # exhaustive: singletons and pairs over the whole record universe
    U = G.record_universe()
    ctx.extra["record_universe"] = len(U)
    for a in (U if not quick else U[::7]):
        cases.append(("len1", G.build([a])))
    pairs = list(itertools.product(U, U))
    if quick:
        pairs = rng.sample(pairs, 9000)
    for a, b in pairs:
        cases.append(("len2", G.build([a, b])))
    # exhaustive (type, flag)^3 over the layouts
    lay = G.layouts3()
    if quick:
        lay = lay[:3] + [rng.choice(lay[3:])]
    n3 = 0
    for l in G.all_typed_lists(3, lay):
        if quick and rng.random() > 0.45:
            continue
        cases.append(("len3", l))
        n3 += 1
    ctx.extra["len3_lists"] = n3
    # random lists up to 6 (duplicates, ties, jitter)
    for _ in range(1500 if quick else 20000):
        n = rng.randint(2, 6)
        ty = types if (for_oracle or rng.random() < 0.85) else G.ALL_TYPES
        cases.append(("rand%d" % n, G.rand_list(rng, n, ty)))
    return cases


def gen_multisets(ctx):
    """multisets of length 2..4 whose every permutation is run"""
    rng = ctx.rng
    quick = ctx.tier == "quick"
    U = G.record_universe(loci=G.LOCI[:5])
    res = []
    for _ in range(350 if quick else 4000):
        n = rng.choice([2, 3, 3, 4, 4])
        if rng.random() < 0.5:
            # bias towards one class so that ties inside a class are frequent
            cls = rng.choice([G.CONSISTENT, G.INCONSISTENT, G.UNASSIGNED, G.UNASSIGNED])
            pool = [u for u in U if u[0] in cls]
        else:
            pool = U
        res.append(G.build([rng.choice(pool) for _ in range(n)]))
    for _ in range(150 if quick else 2000):
        res.append(G.rand_list(rng, rng.randint(2, 4), G.TYPES, dup_rate=0.35))
    return res


def perms_of(l):
    seen = set()
    for p in itertools.permutations(range(len(l))):
        q = [dict(l[i]) for i in p]
        sig = vlib.json.dumps(q, sort_keys=True)
        if sig in seen:
            continue
        seen.add(sig)
        yield q


# ------------------------------------------------------------------------------------------------
# correspondence

def _nontrivial_resolve(mo):
    if vlib.is_err(mo) or not isinstance(mo, list) or len(mo) < 2:
        return False
    ts = [r["atype"] for r in mo]
    return any(t == "suspended" for t in ts) and any(t != "suspended" for t in ts)


def correspondence(ctx):
    try:
        _correspondence(ctx)
    finally:
        cleanup()


def _run(ctx, cases, impl_fn, nontrivial):
    """cases: [(op, kwargs)]"""
    lines = [vlib.req("C08." + op, **kw) for op, kw in cases]
    outs = ctx.driver.run(lines)
    for (op, kw), mo in zip(cases, outs):
        ctx.evaluations += 1
        ctx.count("op:" + op)
        if isinstance(mo, dict) and "driver_error" in mo:
            ctx.disagree(op, kw, mo, None)
            continue
        io = vlib.canon(impl_fn(op, kw))
        ctx.traces_validated += 1
        if vlib.is_err(mo):
            ctx.count("model_error:" + op)
        if not vlib.same(mo, io):
            ctx.disagree(op, kw, mo, io)
        elif nontrivial(op, kw, mo):
            ctx.mark_nontrivial([op, kw])
        if len(ctx.samples) < 6 and ctx.rng.random() < 0.0005:
            ctx.sample({"op": op, "input": vlib.canon(kw), "model": mo, "impl": io})
    return outs


def _impl_dispatch(op, kw):
    if op == "resolve":
        return impl_resolve(kw["strategy"], kw["recs"])
    if op == "find_duplicates":
        return impl_find_duplicates(kw["recs"], kw["idx"])
    if op == "pickle_roundtrip":
        import pickle
        return G.from_basic(pickle.loads(pickle.dumps(G.to_basic(kw["rec"]))))
    if op == "set_size":
        return len(set(kw["l"]))
    if op == "compact_penalty":
        return impl_compact_penalty(kw["l"])
    raise RuntimeError("unknown op " + op)


def impl_compact_penalty(pens):
    """BasicReadAssignment.__init__ on a stub read assignment whose matches carry the given penalties"""
    MR, IA, LC = _impl()
    ra = _types.SimpleNamespace(assignment_id=1, read_id="r", chr_id="c", exons=[(1, 2)], genomic_region=(1, 2),
                                multimapper=False, polyA_found=False,
                                assignment_type=IA.ReadAssignmentType.inconsistent,
                                gene_assignment_type=IA.ReadAssignmentType.inconsistent,
                                isoform_matches=[_types.SimpleNamespace(penalty_score=float(p) / G.SHORT_FLOAT_MULTIPLIER,
                                                                        assigned_gene="g", assigned_transcript="t%d" % i)
                                                 for i, p in enumerate(pens)])
    b = IA.BasicReadAssignment(ra)
    v = b.penalty_score * G.SHORT_FLOAT_MULTIPLIER
    return int(v) if v == int(v) else v


def _correspondence(ctx):
    rng = ctx.rng
    quick = ctx.tier == "quick"
    # tables extracted by the translator vs the live objects
    tab = ctx.driver.run([vlib.req("C08.tables")])[0]
    ctx.evaluations += 1
    live = live_tables()
    for k, v in live.items():
        if tab.get(k) != v:
            ctx.disagree("tables:" + k, {}, tab.get(k), v)
        else:
            ctx.mark_nontrivial("tables:" + k)
    # 1. resolve on enumerated / random lists, take_best; the other strategies on a sample
    cases = []
    for tag, l in gen_lists(ctx):
        ctx.count("list:" + tag)
        cases.append(("resolve", {"strategy": "take_best", "recs": l}))
        if rng.random() < 0.08:
            cases.append(("resolve", {"strategy": "merge", "recs": l}))
            cases.append(("resolve", {"strategy": "ignore_multimapper", "recs": l}))
    # 2. every permutation of sampled multisets
    nperm = 0
    for ms in gen_multisets(ctx):
        for q in perms_of(ms):
            cases.append(("resolve", {"strategy": "take_best", "recs": q}))
            nperm += 1
    ctx.extra["permuted_lists"] = nperm
    # 3. find_duplicates on index lists (any order, any subset)
    for _ in range(600 if quick else 6000):
        l = G.rand_list(rng, rng.randint(1, 6), G.TYPES, dup_rate=0.5)
        idx = rng.sample(range(len(l)), rng.randint(0, len(l)))
        cases.append(("find_duplicates", {"recs": l, "idx": idx}))
    cases.append(("find_duplicates", {"recs": G.rand_list(rng, 2), "idx": [0, 5]}))
    # 3b. the pickle boundary (worker results under --high_memory --threads > 1): every field survives
    for u in G.record_universe()[::(3 if quick else 1)]:
        cases.append(("pickle_roundtrip", {"rec": G.build([u])[0]}))
    for _ in range(300 if quick else 3000):
        cases.append(("pickle_roundtrip", {"rec": G.rand_record(rng, rng.randrange(1, 10 ** 6), G.ALL_TYPES)}))
    for _ in range(200):
        cases.append(("set_size", {"l": [rng.randrange(4) for _ in range(rng.randint(0, 6))]}))
        cases.append(("compact_penalty", {"l": [rng.choice([0, 1, 3, -2]) * (G.SHORT_FLOAT_MULTIPLIER // 2)
                                                for _ in range(rng.randint(0, 4))]}))
    _run(ctx, cases, _impl_dispatch, lambda op, kw, mo: _nontrivial_resolve(mo) if op == "resolve" else not vlib.is_err(mo))
    # 4. count increments of the real counter vs featureWeight
    wcases = [(s, t, n) for s in COUNTING for t in G.ALL_TYPES for n in range(0, 4)]
    outs = ctx.driver.run([vlib.req("C08.feature_weight", strategy=s, atype=t, n=n) for s, t, n in wcases])
    for (s, t, n), mo in zip(wcases, outs):
        ctx.evaluations += 1
        ctx.count("op:feature_weight")
        io = impl_feature_weight(s, t, n)
        ctx.traces_validated += 1
        if isinstance(mo, dict) and "driver_error" in mo:
            ctx.disagree("feature_weight", [s, t, n], mo, io)
            continue
        exp = [] if mo["w"] is None or mo["w"][0] == 0 else [mo["w"][0] / mo["w"][1]] * mo["credited"]
        if vlib.is_err(io) or len(exp) != len(io) or any(abs(a - b) > 1e-9 for a, b in zip(exp, io)):
            ctx.disagree("feature_weight", [s, t, n], mo, io)
        elif exp:
            ctx.mark_nontrivial(["feature_weight", s, t, n])
    # 5. read totals (model's rational) vs the real counter on the resolver's real output
    tcases = []
    for _ in range(300 if quick else 3000):
        l = G.rand_list(rng, rng.randint(2, 5), G.TYPES, dup_rate=0.2)
        out = impl_resolve("take_best", l)
        if vlib.is_err(out):
            continue
        tcases.append((rng.choice(COUNTING), out))
    outs = ctx.driver.run([vlib.req("C08.read_total", strategy=s, recs=o) for s, o in tcases])
    for (s, o), mo in zip(tcases, outs):
        ctx.evaluations += 1
        ctx.count("op:read_total")
        tt, gg, _, _ = impl_read_total(s, o)
        ctx.traces_validated += 1
        if isinstance(mo, dict) and "driver_error" in mo:
            ctx.disagree("read_total", [s, o], mo, [tt, gg])
            continue
        mt = mo["transcript"][0] / mo["transcript"][1]
        mg = mo["gene"][0] / mo["gene"][1]
        if abs(mt - tt) > 1e-9 or abs(mg - gg) > 1e-9:
            ctx.disagree("read_total", {"strategy": s, "recs": o}, mo, [tt, gg])
        elif mt > 0:
            ctx.mark_nontrivial(["read_total", s, o])
    # 6. the flow around the resolver: list building in both memory modes, verdict files, loader, graph input
    from props import C08flow
    C08flow.correspondence(ctx)


def live_tables():
    """the facts Gen/Resolver.lean states, recomputed from the live objects / sources"""
    MR, IA, LC = _impl()
    import inspect
    import re
    res = {}
    # __eq__ fields: probe by flipping one field at a time
    base = G.rec(1, G.LOCI[0], "unique", False, [0])
    fields = []
    probes = [("read_id", {"read": 1}), ("chr_id", {"chr": 1}), ("start", {"start": 101}), ("end", {"end": 141}),
              ("isoforms", {"iso": [1]}), ("assignment_id", {"aid": 2}), ("genomic_region", {"region": [1, 2]}),
              ("multimapper", {"mm": True}), ("polyA_found", {"polya": True}), ("assignment_type", {"atype": "ambiguous"}),
              ("gene_assignment_type", {"gtype": "ambiguous"}), ("penalty_score", {"pen": 5}), ("genes", {"genes": [3]})]
    for name, ch in probes:
        d = dict(base)
        d.update(ch)
        if not (G.to_basic(base) == G.to_basic(d)):
            fields.append(name)
    res["basic_eq_fields"] = fields
    src = open(os.path.join(vlib.REPO, "isoquant.py")).read()
    m = re.findall(r"args\.multimap_strategy\s*=\s*\"(\w+)\"", src)
    res["cli_multimap_strategy"] = m[0] if len(m) == 1 else m
    return res


# ------------------------------------------------------------------------------------------------
# oracle: the property itself on the real code

def classes_of(l):
    """class of every record by the repo's own enum predicates"""
    MR, IA, LC = _impl()
    res = []
    for d in l:
        t = IA.ReadAssignmentType[d["atype"]]
        if t.is_inconsistent():
            res.append("inconsistent")
        elif t.is_consistent():
            res.append("consistent")
        else:
            res.append("uninformative")
    return res


def expected_keys(l):
    """the set of alignments the statement says must be retained; None where the statement leaves a choice
    (uninformative: exactly one of the best-overlapping ones)"""
    cl = classes_of(l)
    pu = [d for d, c in zip(l, cl) if c == "consistent" and not d["mm"] and d["atype"] != "ambiguous"]
    if pu:
        return set(G.key_of(d) for d in pu), "primary_unique"
    cons = [d for d, c in zip(l, cl) if c == "consistent"]
    if cons:
        return set(G.key_of(d) for d in cons), "consistent"
    inc = [d for d, c in zip(l, cl) if c == "inconsistent"]
    pinc = [d for d in inc if not d["mm"]]
    for grp, nm in ((pinc, "primary_inconsistent"), (inc, "inconsistent")):
        if grp:
            best = min(d["pen"] for d in grp)
            return set(G.key_of(d) for d in grp if d["pen"] == best), nm
    return None, "uninformative"


def check_list(l, out):
    """property clauses on one resolved list; returns [(kind, detail)]"""
    fails = []
    if vlib.is_err(out):
        return [("resolver_raises", "exception %s" % out.get("exc"))]
    if len(out) != len(l):
        return [("records_lost", "%d records in, %d out" % (len(l), len(out)))]
    for a, b in zip(l, out):
        for f in ("aid", "read", "chr", "start", "end", "region", "polya", "pen", "iso", "genes"):
            if a[f] != b[f]:
                fails.append(("record_changed", "field %s of record %d changed" % (f, a["aid"])))
    kept = [(a, b) for a, b in zip(l, out) if b["atype"] != "suspended"]
    lost = [(a, b) for a, b in zip(l, out) if b["atype"] == "suspended"]
    for a, b in lost:
        if b["gtype"] != "suspended":
            fails.append(("suspended_fields", "record %d: assignment_type suspended but gene type %s" % (a["aid"], b["gtype"])))
    exp, cls = expected_keys(l)
    got = set(G.key_of(b) for _, b in kept)
    if exp is not None:
        if got != exp:
            fails.append(("priority", "class %s: retained %s expected %s" % (cls, sorted(got), sorted(exp))))
    else:
        ov = lambda d: max(0, min(d["region"][1], d["end"]) - max(d["region"][0], d["start"]) + 1)
        best = max(ov(d) for d in l)
        if len(kept) != 1:
            fails.append(("priority", "uninformative only: %d records retained" % len(kept)))
        elif ov(kept[0][0]) != best:
            fails.append(("priority", "uninformative: retained record does not have the best overlap"))
        elif kept[0][0]["region"][0] != min(d["region"][0] for d in l if ov(d) == best):
            fails.append(("priority", "uninformative: retained record does not have the lowest region start"))
    # exact duplicates: exactly one survivor per alignment, and it is the first of its class in list order
    bykey = {}
    for a, b in kept:
        bykey.setdefault(G.key_of(a), []).append(a)
    for k, v in bykey.items():
        if len(v) > 1:
            fails.append(("dedup", "alignment %s retained %d times" % (k, len(v))))
    # the losers are suppressed everywhere, also in the winner's own record: a read retained on exactly ONE record is
    # not a tie between loci - that record comes out as it went in (types and multimapper flag), whatever it names at its
    # own locus (an `ambiguous` / `inconsistent_ambiguous` primary stays primary; IntronCollector / IntronGraph skip
    # records whose multimapper flag is set, so a flipped flag changes transcript discovery: audit-2 GAP C08-1)
    if len(kept) == 1:
        a, b = kept[0]
        ch = [f for f in ("atype", "gtype", "mm") if a[f] != b[f]]
        if ch:
            fails.append(("loser_changes_winner",
                          "record %d is the only retained record but came out with %s (went in with %s)"
                          % (a["aid"], ", ".join("%s=%s" % (f, b[f]) for f in ch), ", ".join("%s=%s" % (f, a[f]) for f in ch))))
    # ties flagged: several retained loci whose isoforms (genes) differ => every retained record is flagged ambiguous
    # (a single retained alignment that is ambiguous at its own locus is not a tie between loci)
    isoforms = set(i for _, b in kept for i in b["iso"])
    if len(kept) > 1 and len(isoforms) > 1:
        for a, b in kept:
            if b["atype"] not in ("ambiguous", "inconsistent_ambiguous") or not b["mm"]:
                fails.append(("ties_not_flagged", "record %d kept with type %s multimapper=%s although the read is kept on %d isoforms"
                              % (a["aid"], b["atype"], b["mm"], len(isoforms))))
    genes = set(g for _, b in kept for g in b["genes"])
    if len(kept) > 1 and len(genes) > 1:
        for a, b in kept:
            if b["gtype"] not in ("ambiguous", "inconsistent_ambiguous") or not b["mm"]:
                fails.append(("ties_not_flagged", "record %d kept with gene type %s multimapper=%s although the read is kept on %d genes"
                              % (a["aid"], b["gtype"], b["mm"], len(genes))))
    return fails


def check_totals(out, strategies=COUNTING):
    """read's total contribution to the transcript / gene table on the real counter; [(kind, detail)]"""
    fails = []
    kept = [b for b in out if b["atype"] != "suspended"]
    if not kept:
        return fails
    for s in strategies:
        tt, gg, t, g = impl_read_total(s, out)
        per_rec = [impl_read_total(s, [b])[:2] for b in kept]
        for b, (rt, rg) in zip(kept, per_rec):
            if rt > 1 + 1e-9 or rg > 1 + 1e-9:
                fails.append(("record_total_gt_one", "one record adds %.3f / %.3f under %s" % (rt, rg, s)))
        if tt > 1 + 1e-9 or gg > 1 + 1e-9:
            npos_t = sum(1 for rt, _ in per_rec if rt > 1e-9)
            npos_g = sum(1 for _, rg in per_rec if rg > 1e-9)
            fails.append(("read_total_gt_one",
                          {"strategy": s, "transcript_total": tt, "gene_total": gg, "retained": len(kept),
                           "weighted_records_transcript": npos_t, "weighted_records_gene": npos_g,
                           "transcript_table": t, "gene_table": g}))
    return fails


def oracle_list(ctx, l, all_perms, totals=True):
    """run the property on one multiset; returns list of failures as (kind, input, detail)"""
    res = []
    base_keys = None
    perms = list(perms_of(l)) if all_perms else [l]
    for q in perms:
        out = impl_resolve("take_best", q)
        for kind, detail in check_list(q, out):
            res.append((kind, {"recs": q}, detail))
        if vlib.is_err(out):
            continue
        # differential form of "the alignments that lose are suppressed everywhere": resolving the read WITHOUT the records
        # that lost gives the retained records exactly as the full resolution left them (all fields, flags included)
        sub = [a for a, b in zip(q, out) if b["atype"] != "suspended"]
        if sub and len(sub) < len(q):
            out2 = impl_resolve("take_best", sub)
            with_losers = [b for b in out if b["atype"] != "suspended"]
            if vlib.is_err(out2) or vlib.canon(out2) != vlib.canon(with_losers):
                res.append(("loser_changes_winner", {"recs": q},
                            {"retained_with_losers": with_losers, "resolved_without_losers": out2}))
        keys = sorted(set(G.key_of(b) for b in out if b["atype"] != "suspended"))
        if base_keys is None:
            base_keys = (keys, q)
        elif keys != base_keys[0]:
            res.append(("order_dependent", {"recs": base_keys[1], "perm": q},
                        "retained %s in one order, %s in another" % (base_keys[0], keys)))
        if totals and q is perms[0]:
            for kind, detail in check_totals(out, COUNTING if all_perms else [ctx.rng.choice(COUNTING)]):
                res.append((kind, {"recs": q, "strategy": detail["strategy"] if isinstance(detail, dict) else None}, detail))
    return res


WITNESS_ORDER = [G.rec(1, G.LOCI[0], "noninformative", False), G.rec(2, G.LOCI[1], "noninformative", True)]
WITNESS_TOTAL = [G.rec(1, G.LOCI[2], "inconsistent", False, [4]), G.rec(2, G.LOCI[0], "unique", True, [0]),
                 G.rec(3, G.LOCI[1], "unique", True, [2])]
WITNESS_TOTAL_SAME = [G.rec(1, G.LOCI[2], "inconsistent", False, [4]), G.rec(2, G.LOCI[0], "unique", True, [0]),
                      G.rec(3, G.LOCI[4], "unique", True, [0])]
# audit-2 GAP C08-1 (Lean: single_winner_witness): the typical read of a novel isoform - primary alignment inconsistent w.r.t. both
# annotated isoforms of its gene - plus a secondary alignment that loses; the pre-fix filter_assignments re-flagged the primary
WITNESS_SINGLE = [G.rec(1, G.LOCI[2], "inconsistent_ambiguous", False, [0, 1]), G.rec(2, G.LOCI[1], "intergenic", True)]
WITNESS_SINGLE_AMB = [G.rec(1, G.LOCI[2], "ambiguous", False, [0, 1]), G.rec(2, G.LOCI[1], "noninformative", True)]


def oracle(ctx, disagreements, broken):
    try:
        _oracle(ctx, disagreements, broken)
    finally:
        cleanup()


def _oracle(ctx, disagreements, broken):
    n = 0
    seen = set()

    per_kind = {}

    def report(fs):
        for kind, inp, detail in fs:
            per_kind[kind] = per_kind.get(kind, 0) + 1
            if per_kind[kind] > 12:          # a dozen examples per failure class is enough for the replay file
                continue
            sig = (kind, vlib.json.dumps(inp, sort_keys=True, default=str)[:400])
            if kind == "read_total_gt_one":
                sig = (kind, detail["retained"], detail["strategy"])     # one example per (size, strategy) is enough
            if sig in seen:
                continue
            seen.add(sig)
            ctx.fail(kind, inp, detail)

    def in_domain(l):
        return (isinstance(l, list) and len(l) >= 1 and all(isinstance(d, dict) and d.get("atype") in G.TYPES for d in l)
                and len(set(d["read"] for d in l)) == 1)

    # 0. the Lean witnesses replayed on the real code (regression of the fix / the known finding)
    report(oracle_list(ctx, WITNESS_ORDER, True))
    report(oracle_list(ctx, WITNESS_TOTAL, True))
    report(oracle_list(ctx, WITNESS_TOTAL_SAME, True))
    report(oracle_list(ctx, WITNESS_SINGLE, True))
    report(oracle_list(ctx, WITNESS_SINGLE_AMB, True))
    # 1. the disagreeing inputs first
    for d in disagreements:
        inp = d.get("input")
        if isinstance(inp, dict) and "recs" in inp and d["op"] == "resolve" and inp.get("strategy", "take_best") == "take_best":
            if in_domain(inp["recs"]) and len(inp["recs"]) <= 6:
                report(oracle_list(ctx, inp["recs"], True))
                n += 1
    # 2. the normal generator: clause checks on every list, every permutation of the multisets
    lists = gen_lists(ctx, for_oracle=True)
    if ctx.tier == "quick" and not broken:
        lists = ctx.rng.sample(lists, min(len(lists), 9000))
    for tag, l in lists:
        report(oracle_list(ctx, l, False, totals=(n % 7 == 0)))
        n += 1
        if len(ctx.failures) > 40:
            break
    for ms in gen_multisets(ctx):
        report(oracle_list(ctx, ms, True, totals=(n % 5 == 0)))
        n += 1
        if len(ctx.failures) > 40:
            break
    ctx.extra["oracle_lists"] = n
    # 3. the flow around the resolver and the real pipeline
    from props import C08flow
    C08flow.oracle(ctx, disagreements, broken)


def matches_finding(failure, entry):
    """multilocus_tie_weight: a read retained on >= 2 alignment records, >= 2 of which carry weight, sums to more than one.
    A single record weighing more than one, or a total above one with fewer than two weighted records, is NOT that class."""
    if entry.get("id") == "multilocus_tie_weight":
        if failure["kind"] != "read_total_gt_one":
            return False
        d = failure.get("detail")
        if not isinstance(d, dict):
            return False
        tt_ok = d["transcript_total"] <= 1 + 1e-9 or d["weighted_records_transcript"] >= 2
        gg_ok = d["gene_total"] <= 1 + 1e-9 or d["weighted_records_gene"] >= 2
        # the third table, transcript_model_counts.tsv (pipeline level only): one GraphBasedModelConstructor per locus counts
        # the retained record it loads on its own - the same defect seen through another counter (audit-2, C08/p01)
        mm_ok = d.get("model_total", 0.0) <= 1 + 1e-9 or d.get("weighted_records_model", 0) >= 2
        bound = max(d["transcript_total"], d["gene_total"], d.get("model_total", 0.0)) <= d["retained"] + 1e-9
        return d["retained"] >= 2 and tt_ok and gg_ok and mm_ok and bound
    return failure["kind"] == entry.get("kind") and entry.get("id") != "multilocus_tie_weight"


def replay(ctx, failure):
    try:
        kind = failure["kind"]
        inp = failure["input"]
        if kind.startswith("pipeline:") or kind.startswith("flow:") or "dataset_seed" in inp:
            from props import C08flow
            return C08flow.replay(ctx, failure)
        fs = oracle_list(ctx, inp["recs"], kind == "order_dependent", totals=True) if "perm" not in inp \
            else oracle_list(ctx, inp["recs"], True, totals=False)
        if kind == "read_total_gt_one" and inp.get("strategy"):
            out = impl_resolve("take_best", inp["recs"])
            return any(k == kind for k, _ in check_totals(out, [inp["strategy"]]))
        return any(k == kind for k, _, _ in fs)
    finally:
        cleanup()
