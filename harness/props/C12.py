"""C12 — equivalent representations of the same input give identical results (claimed PARTIAL).

Theorem level : the BAM-partition clause (k-way merge, region clusters, per-alignment map, additive tables; END TO END
                through multimapper resolution, loader, counters, merge and TPM: Props/C12EndToEnd.lean, correspondence
                and search in harness/props/C12e2e.py) and the cache-lookup clause (find_converted_db / convert_db over
                all file-system histories).
Search only   : the format-equivalence clause (.gtf = .gtf.gz = .db, with / without --complete_genedb) - a fact about
                gffutils / gzip with no IsoQuant logic in between; exercised by differential pipeline runs.
"""
import collections
import concurrent.futures
import gzip
import json
import os
import shutil
import types

import vlib
from gen import bamparts as B

ID = "C12"
PROPS = ["IsoVerif/Props/C12.lean", "IsoVerif/Props/C12Cache.lean", "IsoVerif/Props/C12EndToEnd.lean",
         "IsoVerif/Props/C12Ids.lean", "IsoVerif/Props/C05Headers.lean"]
TARGETS = ["IsoVerif.Props.C12", "IsoVerif.Props.C12Cache", "IsoVerif.Props.C12EndToEnd", "IsoVerif.Props.C12Ids",
           "IsoVerif.Props.C05Headers"]
GEN_DEPS = ["Prims", "Constants", "AnnotationTypes"]
LEVEL = "proof"
RULE = ("merge / forwarded: exhaustive multisets of <=3 records over coordinates 0..3 x every assignment to <=3 files "
        "(sampled in the quick tier) + seeded random and clustered record sets (<=60 records, many start ties) split "
        "over 1..4 files, on in-process pysam stand-ins and on real BAM files written with pysam, both memory modes, "
        "real and lowered split thresholds; cache: exhaustive one-entry universe + random (malformed) dictionaries on "
        "real files with controlled mtimes; histories of writes / removals / conversions through the real convert_db "
        "with a token-writing converter; downstream (end to end): seeded record streams over 1..3 chromosomes (reads with "
        "1..4 records, `__eq__`-duplicates with equal and with conflicting content, all assignment types, matches "
        "without transcript, missing intron keys), both memory modes, all counting strategies and normalisations, "
        "non-consecutive assignment ids colliding across chromosomes, 1..3 files with unaligned reads, chromosome names "
        "whose natural order differs from their string order - through the real collect_reads / verdict files / "
        "ReadAssignmentLoader / counters / merge_counts / convert_counts_to_tpm. Non-trivial: the model value is not an "
        "error, model == implementation, and (merge) >=2 non-empty files, (forwarded) >=2 files and >=1 region, (cache) a "
        "hit, (history) >=1 cached hit, (downstream) some record dropped, some kept and a non-zero count")
TRUSTED = ["pysam fetch(chr, a, b) yields exactly the records overlapping [a, b) in file order (modelled by `fetch`)",
           "split_coverage_regions enters the model as a parameter (its values are read off the implementation); C05 owns it",
           "the InMemoryAlignmentStorage bin-index slice is modelled by what it selects (C05 owns the index arithmetic)",
           "gffutils / gzip / sqlite: .gtf = .gtf.gz = .db and inferred = declared gene/transcript records are searched, not proved",
           "cache histories: every write gives the file a fresh mtime (mtime-faithful file system)",
           "end to end: the per-alignment function (filters, profiles, LongReadAssigner, exon correction, polyA, strand) and "
           "split_coverage_regions are parameters of the model; the loop of construct_models_in_parallel that reads a verdict "
           "file back is re-stated in the harness (C08flow.read_verdict_file); collect_reads_in_parallel, "
           "BasicReadAssignmentLoader and pysam.AlignmentFile(...).unmapped are stubbed in the in-process correspondence "
           "(the real ones run in the pipeline oracle)",
           "end to end: chromosome ids and feature ids are interned order-preservingly (chromosome index = rank of its name); "
           "C08's and C02's models and their own correspondence checks are reused unchanged"]
ASSUMPTIONS = ["CPython int = Lean Int; tuple comparison of (start, end, bam_index, record) never reaches the record "
               "(theorem queue_indices_nodup)",
               "mtimes are compared for equality only; the harness uses integral mtimes so float == is exact",
               "grouping by file name (switched on automatically for several BAM files) only adds grouped tables; "
               "the ungrouped outputs named by the statement are compared",
               "end to end: records handed to the resolver never carry type `suspended`; assignment ids are pairwise "
               "different within one chromosome (drawn from a counter) - both MONITORED on the kept S.save_<chr> dumps of the "
               "partition scenarios of the pipeline oracle (harness/gen/savedumps.py); the feature-id order is a total order; inside one "
               "forwarded (sub-)region two records that BasicReadAssignment.__eq__ identifies are identical "
               "(NoConflictingDuplicates - outside it the statement is false of model and code: known finding "
               "eq_duplicate_file_order)",
               "end to end: printed TPM values are compared to the model's exact fraction within half a unit of the last "
               "printed digit (as in C02)"]


# ------------------------------------------------------------------------------------------------
# implementation adapters

def _ap():
    vlib.repo_on_path()
    import src.alignment_processor as AP
    return AP


def _g2d():
    vlib.repo_on_path()
    import src.gtf2db as G
    return G


def _files_json(files):
    return [[[s, e, t] for s, e, t in f] for f in files]


def impl_merge(pairs, length):
    AP = _ap()
    m = AP.BAMOnlineMerger(pairs, "chr1", 0, length, multiple_iterators=False)
    return [[i, B.tag_of(a)] for i, a in m.get()]


def _params(mem):
    return types.SimpleNamespace(high_memory=mem, polya_window=16, polya_fraction=0.75, cage=None, cage_shift=50,
                                 no_secondary=False, min_mapq=0)


def impl_forwarded(pairs, mem, small):
    """real AlignmentCollector.process / forward_alignments / storages / split_coverage_regions; only the per-region
    worker is replaced by a recorder.  Returns (forwarded list, split table)."""
    AP = _ap()
    C = AP.AlignmentCollector
    saved = (C.MAX_REGION_LEN, C.MIN_READS_TO_SPLIT, C.__dict__["split_coverage_regions"])
    orig = C.split_coverage_regions
    table = []

    def wrapped(genomic_region, storage):
        res = orig(genomic_region, storage)
        table.append([list(genomic_region), [list(r) for r in res]])
        return res
    try:
        C.split_coverage_regions = staticmethod(wrapped)
        if small:
            C.MAX_REGION_LEN = small[0]
            C.MIN_READS_TO_SPLIT = small[1]
        col = C("chr1", pairs, _params(mem), None, None, None)
        col.process_alignments_in_region = lambda region, alns, gene_region=None: (region, [[i, B.tag_of(a)] for i, a in alns])
        out = [[list(region), lst] for region, lst in col.process()]
    finally:
        C.MAX_REGION_LEN, C.MIN_READS_TO_SPLIT = saved[0], saved[1]
        C.split_coverage_regions = saved[2]
    return out, table


def guarded(fn, *a):
    try:
        return fn(*a)
    except (IndexError, AssertionError, ZeroDivisionError, KeyError, ValueError, TypeError, AttributeError) as ex:
        return {"error": "error", "exc": type(ex).__name__}


class CacheBox:
    """real files with controlled mtimes under one scratch directory"""

    def __init__(self):
        self.root = vlib.scratch_dir("isoverif_c12cache_")
        for d in ("o1", "o2"):
            os.makedirs(os.path.join(self.root, d), exist_ok=True)

    def p(self, rel):
        return os.path.join(self.root, rel)

    def rel(self, path):
        return os.path.relpath(path, self.root) if isinstance(path, str) and path.startswith(self.root) else path

    def set_fs(self, fs):
        for d, _, fns in os.walk(self.root):
            for fn in fns:
                os.remove(os.path.join(d, fn))
        for rel, mt in fs.items():
            self.write(rel, 0, mt)

    def write(self, rel, data, mt):
        with open(self.p(rel), "w") as f:
            f.write(str(data))
        os.utime(self.p(rel), (mt, mt))

    def data(self, rel):
        try:
            with open(self.p(rel)) as f:
                return int(f.read())
        except FileNotFoundError:
            return None

    def cache_dict(self, cache):
        d = {}
        for k, e in cache:
            e2 = dict(e)
            if e2.get("genedb") is not None:
                e2["genedb"] = self.p(e2["genedb"])
            d[self.p(k)] = e2
        return d

    def close(self):
        shutil.rmtree(self.root, ignore_errors=True)


def _cache_json(cache):
    return [[k, e] for k, e in cache]


def impl_find(box, cache, fs, gtf, complete):
    G = _g2d()
    box.set_fs(fs)
    try:
        r = G.find_converted_db(box.cache_dict(cache), box.p(gtf), complete)
    except TypeError:
        return {"error": "TypeError"}
    return "miss" if r is None else {"hit": box.rel(r)}


def impl_compare(box, cache, fs, gtf, db):
    G = _g2d()
    box.set_fs(fs)
    try:
        return bool(G.compare_stored_gtf(box.cache_dict(cache), box.p(gtf), box.p(db)))
    except TypeError:
        return {"error": "TypeError"}


def conv_tok(g, c):
    return 2 * g + (1 if c else 0)


def back_tok(d):
    return 3 * d + 1


def impl_history(ops):
    """the real convert_db driven through a history; the two converters are replaced by token writers (the module
    globals gtf2db / db2gtf are what convert_db compares its argument with).  Returns the model-shaped answer plus
    the per-conversion freshness facts used by the oracle."""
    G = _g2d()
    box = CacheBox()
    cfg = box.p("db_config.json")
    with open(cfg, "w") as f:
        json.dump({}, f)
    state = {"clock": 1, "calls": 0}
    saved = (G.gtf2db, G.db2gtf)

    def stub_gtf2db(gtf, db, complete_db=False, check_gtf=True):
        g = box.data(box.rel(gtf))
        if g is None:
            raise FileNotFoundError(gtf)
        box.write(box.rel(db), conv_tok(g, complete_db), state["clock"])
        state["clock"] += 1
        state["calls"] += 1

    def stub_db2gtf(db, gtf, _=None):
        d = box.data(box.rel(db))
        if d is None:
            raise FileNotFoundError(db)
        box.write(box.rel(gtf), back_tok(d), state["clock"])
        state["clock"] += 1
        state["calls"] += 1
    results, facts = [], []
    try:
        G.gtf2db, G.db2gtf = stub_gtf2db, stub_db2gtf
        for op in ops:
            if op[0] == "write":
                box.write(op[1], op[2], state["clock"])
                state["clock"] += 1
            elif op[0] == "remove":
                if os.path.exists(box.p(op[1])):
                    os.remove(box.p(op[1]))
            else:
                kind, g, d, c, cl = op
                args = types.SimpleNamespace(db_config_path=cfg, clean_start=cl, complete_genedb=c, gtf_check=False)
                calls = state["calls"]
                try:
                    rg, rd = G.convert_db(box.p(g), box.p(d), G.gtf2db if kind == "gtf2db" else G.db2gtf, args)
                except (TypeError, FileNotFoundError) as ex:
                    results.append({"error": type(ex).__name__})
                    facts.append(None)
                    continue
                res = {"gtf": box.rel(rg), "db": box.rel(rd), "gtf_data": box.data(box.rel(rg)),
                       "db_data": box.data(box.rel(rd)), "converted": state["calls"] != calls}
                results.append(res)
                facts.append({"kind": kind, "gtf": g, "complete": c, "gtf_now": box.data(g), "res": res})
        with open(cfg) as f:
            raw = json.load(f)
        cache = []
        for k, e in raw.items():
            cache.append([box.rel(k), {"genedb": box.rel(e.get("genedb")), "gtf_mtime": _as_int(e.get("gtf_mtime")),
                                       "db_mtime": _as_int(e.get("db_mtime")), "complete_db": e.get("complete_db")}])
    finally:
        G.gtf2db, G.db2gtf = saved
        box.close()
    return {"results": results, "cache": cache}, facts


def _as_int(x):
    return int(x) if isinstance(x, float) and x == int(x) else x


# ------------------------------------------------------------------------------------------------
# correspondence

def merge_cases(ctx):
    rng = ctx.rng
    quick = ctx.tier == "quick"
    cases = []
    uni = []
    for n in (1, 2, 3):
        for ms in B.small_universe(3 if quick else 4, n):
            recs = [(s, e, t) for t, (s, e) in enumerate(ms)]
            for k in (1, 2, 3):
                uni += B.all_partitions(recs, k)
    ctx.extra["merge_small_universe"] = len(uni)
    if quick:
        uni = rng.sample(uni, min(len(uni), 2500))
    cases += uni
    for _ in range(250 if quick else 2500):
        recs = B.rand_records(rng, rng.randint(1, 60), rng.choice([5, 30, 1000, 10 ** 6]), rng.choice([1, 3, 40, 5000]))
        cases.append(B.partition(rng, recs, rng.randint(1, 4)))
    for _ in range(100 if quick else 1000):
        recs = B.clustered_records(rng, rng.randint(1, 6), rng.randint(1, 6), 50, 30)
        cases.append(B.partition(rng, recs, rng.randint(1, 4)))
    cases.append([])
    cases.append([[], []])
    return cases


def _length_of(files):
    return max([r[1] for f in files for r in f] + [1]) + 10


def corr_merge(ctx):
    cases = merge_cases(ctx)
    outs = ctx.driver.run([vlib.req("C12.merge", files=_files_json(f)) for f in cases])
    for files, mo in zip(cases, outs):
        ctx.evaluations += 1
        ctx.count("op:merge")
        ctx.count("merge:files=%d" % len(files))
        if isinstance(mo, dict) and "driver_error" in mo:
            ctx.disagree("merge", {"files": _files_json(files)}, mo, None)
            continue
        L = _length_of(files)
        io = guarded(impl_merge, B.fake_pairs(files, L), L)
        ctx.traces_validated += 1
        if not vlib.same(mo, io):
            ctx.disagree("merge", {"files": _files_json(files)}, mo, io)
        elif sum(1 for f in files if f) >= 2:
            ctx.mark_nontrivial(["merge", _files_json(files)])
            starts = [r[0] for f in files for r in f]
            if len(set(starts)) < len(starts):
                ctx.count("merge:with_start_ties")
        if len(ctx.samples) < 2 and len(files) >= 2 and ctx.rng.random() < 0.01:
            ctx.sample({"op": "merge", "input": _files_json(files), "model": mo, "impl": io})


SMALL_CONSTS = (600, 6)    # lowered (MAX_REGION_LEN, MIN_READS_TO_SPLIT): region splitting on small inputs


def forwarded_cases(ctx):
    rng = ctx.rng
    quick = ctx.tier == "quick"
    cases = []
    for _ in range(120 if quick else 1200):
        recs = B.clustered_records(rng, rng.randint(1, 6), rng.randint(1, 8), 40, rng.choice([5, 30, 200]))
        cases.append((B.partition(rng, recs, rng.randint(1, 4)), None))
    for _ in range(120 if quick else 1200):
        # wide clusters (several 256-bp bins) under lowered thresholds: sub-regions, records spanning two sub-regions
        recs = B.clustered_records(rng, rng.randint(1, 3), rng.randint(4, 14), 700, rng.choice([100, 400, 900]))
        cases.append((B.partition(rng, recs, rng.randint(1, 4)), SMALL_CONSTS))
    for _ in range(6 if quick else 40):
        # real thresholds: a cluster longer than MAX_REGION_LEN built from long records
        recs = []
        pos = rng.randint(0, 300)
        for t in range(rng.randint(8, 30)):
            ln = rng.randint(2000, 9000)
            recs.append((pos, pos + ln, t))
            pos += rng.randint(0, ln - 1)
        cases.append((B.partition(rng, recs, rng.randint(1, 4)), None))
    # parts that do not share a header (seed C12_a4): own length per part, a part without records that does not list the
    # sequence.  The model op takes the record lists only: by Props/C05Headers.headers_as_common_header the collector
    # forwards on such parts what it forwards under one common header, so the SAME model value must come out
    res = []
    for files, small in cases:
        hd = None
        if len(files) >= 2 and rng.random() < 0.4:
            if all(files) and rng.random() < 0.6:
                # empty one part: its records go to a neighbour (still sorted by start)
                files = [list(f) for f in files]
                j = rng.randrange(len(files))
                k = (j + 1) % len(files)
                files[k] = sorted(files[k] + files[j], key=lambda r: r[0])
                files[j] = []
            hd = B.own_headers(rng, files)
        res.append((files, small, hd))
    return res


def corr_forwarded(ctx, real_dir):
    cases = forwarded_cases(ctx)
    jobs = []
    n_real = 0
    for ci, (files, small, hd) in enumerate(cases):
        for mem in (False, True):
            use_real = (ci % (12 if ctx.tier == "quick" else 6) == 0) or (hd is not None and ci % 5 == 0)
            pairs = None
            try:
                if use_real:
                    pairs = B.write_real_bams(os.path.join(real_dir, "c%d_%d" % (ci, int(mem))), files, _length_of(files), headers=hd)
                    n_real += 1
                else:
                    pairs = B.fake_pairs(files, _length_of(files), headers=hd)
                r = guarded(impl_forwarded, pairs, mem, small)
            finally:
                if use_real and pairs:
                    for bp in pairs:
                        bp[0].close()
            if isinstance(r, dict):
                io, table = r, []
            else:
                io, table = r
            jobs.append((files, small, mem, use_real, io, table, hd))
    ctx.count("forwarded:on_real_bam_files", n_real)
    outs = ctx.driver.run([vlib.req("C12.forwarded", files=_files_json(f), splits=t, mem=m) for f, _, m, _, _, t, _ in jobs])
    for (files, small, mem, use_real, io, table, hd), mo in zip(jobs, outs):
        ctx.evaluations += 1
        ctx.count("op:forwarded")
        ctx.count("forwarded:%s:%s" % ("high_memory" if mem else "default", "lowered_thresholds" if small else "real_thresholds"))
        inp = {"files": _files_json(files), "mem": mem, "small": list(small) if small else None, "real_bam": use_real}
        if hd is not None:
            inp["headers"] = hd
            ctx.count("forwarded:parts_with_own_headers")
            if any(h is None for h in hd):
                ctx.count("forwarded:part_not_listing_the_sequence")
        if isinstance(mo, dict) and "driver_error" in mo:
            ctx.disagree("forwarded", inp, mo, None)
            continue
        ctx.traces_validated += 1
        if any(len(s) > 1 for _, s in table):
            ctx.count("forwarded:with_region_split")
        if not vlib.same(mo, io):
            ctx.disagree("forwarded", inp, mo, io)
        elif len(files) >= 2 and mo:
            ctx.mark_nontrivial(["forwarded", inp])
        if len(ctx.samples) < 4 and ctx.rng.random() < 0.01:
            ctx.sample({"op": "forwarded", "input": inp, "model": mo, "impl": io})


def cache_cases(ctx):
    rng = ctx.rng
    cases = B.all_cache_cases()
    ctx.extra["cache_exhaustive_universe"] = len(cases)
    if ctx.tier == "quick":
        cases = rng.sample(cases, min(len(cases), 1500))
    for _ in range(400 if ctx.tier == "quick" else 4000):
        cases.append(B.rand_cache_case(rng, malformed=rng.random() < 0.3))
    return cases


def corr_cache(ctx):
    cases = cache_cases(ctx)
    box = CacheBox()
    try:
        lines = []
        for cache, fs, gtf, db, c in cases:
            fsl = [[p, m] for p, m in fs.items()]
            lines.append(vlib.req("C12.find_converted_db", cache=_cache_json(cache), fs=fsl, gtf=gtf, complete=c))
            lines.append(vlib.req("C12.compare_stored_gtf", cache=_cache_json(cache), fs=fsl, gtf=gtf, db=db))
        outs = ctx.driver.run(lines)
        for i, (cache, fs, gtf, db, c) in enumerate(cases):
            for j, op in enumerate(("find_converted_db", "compare_stored_gtf")):
                mo = outs[2 * i + j]
                ctx.evaluations += 1
                ctx.count("op:" + op)
                inp = {"cache": _cache_json(cache), "fs": fs, "gtf": gtf, "db": db, "complete": c}
                if isinstance(mo, dict) and "driver_error" in mo:
                    ctx.disagree(op, inp, mo, None)
                    continue
                io = impl_find(box, cache, fs, gtf, c) if j == 0 else impl_compare(box, cache, fs, gtf, db)
                ctx.traces_validated += 1
                if vlib.is_err(mo):
                    ctx.count("model_error")
                if not vlib.same(mo, io):
                    ctx.disagree(op, inp, mo, io)
                elif (isinstance(mo, dict) and "hit" in mo) or mo is True:
                    ctx.mark_nontrivial([op, inp])
                    ctx.count(op + ":hit")
    finally:
        box.close()


def corr_history(ctx):
    rng = ctx.rng
    hs = [B.rand_history(rng, rng.randint(2, 14)) for _ in range(150 if ctx.tier == "quick" else 1500)]
    outs = ctx.driver.run([vlib.req("C12.history", ops=h) for h in hs])
    for h, mo in zip(hs, outs):
        ctx.evaluations += 1
        ctx.count("op:history")
        if isinstance(mo, dict) and "driver_error" in mo:
            ctx.disagree("history", {"ops": h}, mo, None)
            continue
        io, _ = impl_history(h)
        ctx.traces_validated += 1
        mo_c = _canon_hist(mo)
        io_c = _canon_hist(io)
        if mo_c != io_c:
            ctx.disagree("history", {"ops": h}, mo, io)
        elif any(isinstance(r, dict) and r.get("converted") is False for r in mo["results"]):
            ctx.mark_nontrivial(["history", h])
            ctx.count("history:with_cached_hit")
        if len(ctx.samples) < 6 and ctx.rng.random() < 0.02:
            ctx.sample({"op": "history", "input": h, "model": mo, "impl": io})


def _canon_hist(x):
    res = []
    for r in x["results"]:
        res.append("error" if vlib.is_err(r) else r)
    return {"results": res, "cache": x["cache"]}


def monitor_pysam(ctx, real_dir):
    """assumption monitor: records returned by pysam cover at least one reference base (reference_end >
    reference_start, also for CIGARs without a reference-consuming operation) and fetch(a, b) = overlap with [a, b)"""
    import pysam
    os.makedirs(real_dir, exist_ok=True)
    path = os.path.join(real_dir, "monitor.bam")
    hdr = {"HD": {"VN": "1.6", "SO": "coordinate"}, "SQ": [{"SN": "chr1", "LN": 1000}]}
    recs = [("ins", 100, "10I", 10), ("clip", 100, "10S", 10), ("m", 100, "10M", 10), ("n", 105, "5M20N5M", 10),
            ("d", 140, "3M2D3M", 6)]
    with pysam.AlignmentFile(path, "wb", header=hdr) as out:
        for name, pos, cig, l in recs:
            a = pysam.AlignedSegment()
            a.query_name, a.flag, a.reference_id, a.reference_start, a.mapping_quality = name, 0, 0, pos, 60
            a.cigarstring = cig
            a.query_sequence = "A" * l
            a.query_qualities = pysam.qualitystring_to_array("I" * l)
            out.write(a)
    pysam.index(path)
    ok = True
    with pysam.AlignmentFile(path, "rb", require_index=True) as b:
        allr = list(b.fetch("chr1", 0, 1001))
        for a in allr:
            if a.reference_end is None or a.reference_end <= a.reference_start:
                ok = False
                ctx.disagree("pysam_wf", {"name": a.query_name, "cigar": a.cigarstring},
                             "reference_end > reference_start", [a.reference_start, a.reference_end])
        for lo, hi in [(0, 100), (0, 101), (100, 101), (101, 102), (109, 110), (110, 111), (134, 135), (135, 136), (140, 148), (148, 149)]:
            got = sorted(a.query_name for a in b.fetch("chr1", lo, hi))
            exp = sorted(a.query_name for a in allr if a.reference_start < hi and a.reference_end > lo)
            ctx.evaluations += 1
            ctx.count("op:pysam_fetch_monitor")
            if got != exp:
                ok = False
                ctx.disagree("pysam_fetch", {"lo": lo, "hi": hi}, exp, got)
    ctx.extra["pysam_assumptions_hold"] = ok


def correspondence(ctx):
    real_dir = vlib.scratch_dir("isoverif_c12bam_")
    try:
        monitor_pysam(ctx, real_dir)
        corr_merge(ctx)
        corr_forwarded(ctx, real_dir)
    finally:
        shutil.rmtree(real_dir, ignore_errors=True)
    corr_cache(ctx)
    corr_history(ctx)
    from props import C12e2e
    C12e2e.correspondence(ctx)
    corr_isoforms(ctx)


# ---- which records of a GTF file become transcripts of the gene database (Model/GtfIds.lean, Props/C12Ids.lean) -------


def gtf_record_case(rng):
    """records of a small GTF file with gene records: transcript records typed `transcript` / `mRNA` (mixed), exon, CDS and
    codon records, a transcript record without exons now and then, records of a type that nobody keys"""
    recs = []
    ng = rng.randint(1, 3)
    pos = 100
    for g in range(ng):
        gid = "G%d" % g
        ntx = rng.randint(1, 3)
        start = pos
        body = []
        for t in range(ntx):
            tid = "%s.t%d" % (gid, t)
            ty = rng.choice(["transcript", "mRNA", "mRNA"])
            p = start + rng.randint(0, 30)
            ex = []
            for _ in range(rng.choice([0, 1, 2, 2, 3, 4])):
                ln = rng.randint(5, 200)
                ex.append((p, p + ln))
                p += ln + rng.randint(20, 300)
            span = (ex[0][0], ex[-1][1]) if ex else (start, start + 50)
            body.append({"ftype": ty, "gid": gid, "tid": tid, "span": span})
            for e in ex:
                body.append({"ftype": "exon", "gid": gid, "tid": tid, "span": e})
                if rng.random() < 0.3:
                    body.append({"ftype": "CDS", "gid": gid, "tid": tid, "span": (e[0], e[0] + 3)})
            if ex and rng.random() < 0.3:
                body.append({"ftype": rng.choice(["start_codon", "five_prime_utr"]), "gid": gid, "tid": tid, "span": (ex[0][0], ex[0][0] + 2)})
            pos = max(pos, p)
        lo = min(r["span"][0] for r in body)
        hi = max(r["span"][1] for r in body)
        recs.append({"ftype": "gene", "gid": gid, "tid": None, "span": (lo, hi)})
        recs += body
        pos = hi + rng.randint(50, 500)
    return recs


def gtf_of_records(recs):
    out = []
    for r in recs:
        attr = 'gene_id "%s";' % r["gid"] + (' transcript_id "%s";' % r["tid"] if r["tid"] is not None else "")
        out.append("c1\tsyn\t%s\t%d\t%d\t.\t+\t.\t%s" % (r["ftype"], r["span"][0], r["span"][1], attr))
    return "\n".join(out) + "\n"


def real_isoforms(recs, scratch, n):
    """the REAL gtf2db (its id_spec, --complete_genedb, no input check) + the REAL GeneInfo on the database it wrote:
    per gene (transcript ids of gene_id_map sorted, [tid, exons] of all_isoforms_exons)"""
    import gffutils
    import logging
    vlib.repo_on_path()
    import src.gtf2db as G2
    import src.gene_info as GI
    gtf = os.path.join(scratch, "r%d.gtf" % n)
    db = os.path.join(scratch, "r%d.db" % n)
    with open(gtf, "w") as f:
        f.write(gtf_of_records(recs))
    logging.getLogger("IsoQuant").setLevel(logging.CRITICAL)
    G2.gtf2db(gtf, db, True, False)
    fdb = gffutils.FeatureDB(db)
    res = []
    for g in fdb.features_of_type("gene", order_by="start"):
        gi = GI.GeneInfo([g], fdb, prepare_profiles=False)
        res.append([g.id, sorted(gi.gene_id_map.keys()), sorted([t, [list(e) for e in ex]] for t, ex in gi.all_isoforms_exons.items())])
    os.remove(gtf)
    os.remove(db)
    return res


def corr_isoforms(ctx):
    rng = ctx.rng
    scratch = vlib.scratch_dir("isoverif_c12ids_")
    try:
        tab = ctx.driver.run([vlib.req("C12I.tables")])[0]
        ctx.extra["annotation_types"] = tab
        witness = [{"ftype": "gene", "gid": "G1", "tid": None, "span": (1000, 2300)}]
        for tid, ex in (("T1", [(1000, 1200), (1500, 1700), (2000, 2300)]), ("T2", [(1000, 1200), (2000, 2300)])):
            witness.append({"ftype": "mRNA", "gid": "G1", "tid": tid, "span": (1000, 2300)})
            witness += [{"ftype": "exon", "gid": "G1", "tid": tid, "span": e} for e in ex]
        for k in range(60 if ctx.tier == "quick" else 600):
            recs = witness if k == 0 else gtf_record_case(rng)
            genes = [r["gid"] for r in recs if r["ftype"] == "gene"]
            mo = ctx.driver.run([vlib.req("C12I.isoforms", recs=[dict(r, span=list(r["span"])) for r in recs], genes=genes)])[0]
            ctx.evaluations += 1
            ctx.count("op:isoforms")
            model = [[g, sorted(i for i, _ in iso), sorted([i, ex] for i, ex in iso if ex)] for g, iso in mo]
            try:
                real = real_isoforms(recs, scratch, k)
            except Exception as ex:
                real = {"error": "error", "exc": "%s: %s" % (type(ex).__name__, ex)}
            if any(r["ftype"] == "mRNA" for r in recs):
                ctx.count("isoforms:file_with_mRNA_records")
            if vlib.canon(model) != vlib.canon(real):
                ctx.disagree("isoforms", {"recs": recs, "gtf": gtf_of_records(recs)}, model, real)
            elif any(x[2] for x in model):
                ctx.mark_nontrivial(["isoforms", gtf_of_records(recs)])
    finally:
        shutil.rmtree(scratch, ignore_errors=True)


# ------------------------------------------------------------------------------------------------
# oracle: the property itself on the real code

def forwarded_multiset(out):
    """{region: sorted tags} and the multiset of (region, tag) pairs - what a partition must not change"""
    if isinstance(out, dict):
        return out
    d = collections.Counter()
    for region, lst in out:
        for _, t in lst:
            d[(tuple(region), t)] += 1
    return d


def partition_check(files_a, files_b, mem, small, real_dir=None, headers_b=None):
    """(verdict, detail) for the real intake on two representations of the same records:
       ("same", None)     the same (region, alignment) multiset is forwarded
       ("lost", text)     an alignment reaches the per-alignment worker in one representation only: its record is
                          in one run's read assignments and not in the other's - the property fails
       ("differs", text)  same alignments but cut into other regions / forwarded another number of times: whether
                          the output records differ is decided by a pipeline run on these records"""
    res = []
    for idx, files in enumerate((files_a, files_b)):
        L = max(_length_of(files_a), _length_of(files_b))
        hd = headers_b if idx == 1 else None          # the parts of the second representation do not share a header
        if real_dir:
            pairs = B.write_real_bams(os.path.join(real_dir, "o%d" % idx), files, L, headers=hd)
        else:
            pairs = B.fake_pairs(files, L, headers=hd)
        try:
            r = guarded(impl_forwarded, pairs, mem, small)
        finally:
            if real_dir:
                for bp in pairs:
                    bp[0].close()
        res.append(r if isinstance(r, dict) else forwarded_multiset(r[0]))
    a, b = res
    ea, eb = vlib.is_err(a), vlib.is_err(b)
    if ea or eb:
        if ea and eb:
            return "same", None
        return "lost", "the intake raises in one representation only: %s vs %s" % (str(a)[:80], str(b)[:80])
    if a == b:
        return "same", None
    ta, tb = {t for (_, t) in a}, {t for (_, t) in b}
    if ta != tb:
        return "lost", "alignments forwarded in one representation only: first-only %s, second-only %s" % (
            sorted(ta - tb)[:5], sorted(tb - ta)[:5])
    only_a = list((a - b).items())[:3]
    only_b = list((b - a).items())[:3]
    return "differs", "forwarded (region, record) multisets differ: only in first %s, only in second %s" % (only_a, only_b)


def pipeline_from_records(files_a, files_b, high_memory=False):
    """None or the first difference of the output records of two real pipeline runs whose BAM files hold the given
    records as unspliced alignments on a synthetic chromosome with a small annotation"""
    from gen import synth
    root = vlib.scratch_dir("isoverif_c12rec_")
    try:
        recs = [r for f in files_a for r in f]
        L = max([r[1] for r in recs] + [1]) + 2000
        ds = synth.Dataset(seed=len(recs))
        ds.add_chrom("chr1", L)
        lo, hi = min(r[0] for r in recs) + 1, max(r[1] for r in recs)
        # mono-exon genes tiling the span: the gene set seen by a read depends on the region it is processed in
        step = max(12, (hi - lo) // 24)
        pos, gi = lo, 0
        while pos < hi:
            ds.add_gene("chr1", "G%d" % gi, "+-"[gi % 2], [("T%d" % gi, [(pos, pos + step // 2)])], plant=False)
            pos += step
            gi += 1
        d = os.path.join(root, "data")
        paths = ds.write(d)

        def reads_of(f):
            return [{"name": "t%d" % t, "chr": "chr1", "start0": s, "cigar": "%dM" % (e - s), "flag": 0, "mapq": 60,
                     "tags": [], "seq": None} for s, e, t in f]
        runs = []
        for name, files in (("a", files_a), ("b", files_b)):
            bams = [ds.write(d, bam_name="%s%d.bam" % (name, i), reads=reads_of(f), write_ref=False)["bam"]
                    for i, f in enumerate(files)]
            runs.append(run_one(root, name, bams, paths["ref"], paths["gtf"], True,
                                extra=["--high_memory"] if high_memory else []))
        if runs[0]["rc"] != 0 and runs[1]["rc"] != 0:
            return None
        return compare_runs(runs[0], runs[1], PARTITION_OUTPUTS)
    finally:
        shutil.rmtree(root, ignore_errors=True)


def _judge_partition(ctx, a, b, mem, small, escalated, headers_b=None):
    """evaluates one pair of representations; reports failures; returns the verdict"""
    verdict, detail = partition_check(a, b, mem, small, headers_b=headers_b)
    if verdict == "lost":
        ctx.fail("partition:alignment_lost", {"a": a, "b": b, "mem": mem, "small": small, "headers_b": headers_b},
                 detail + (" (headers of the parts: %s)" % headers_b if headers_b else ""))
    elif verdict == "differs":
        ctx.count("oracle:intake_differs")
        if escalated[0] < 6:
            escalated[0] += 1
            r = pipeline_from_records(a, b, high_memory=mem)
            if r:
                ctx.fail("pipeline:bam_partition_records", {"a": a, "b": b, "mem": mem}, detail + " | outputs: " + r)
            else:
                ctx.notes.append("intake cut differently for two representations but the output records are equal: " + detail[:300])
    return verdict


def oracle_partition(ctx, disagreements, broken):
    rng = ctx.rng
    n = 0
    escalated = [0]
    # the disagreeing inputs first: the given partition against the same records in one file
    for d in disagreements:
        if d["op"] not in ("merge", "forwarded"):
            continue
        files = [[tuple(r) for r in f] for f in d["input"]["files"]]
        recs = sorted([r for f in files for r in f], key=lambda r: r[0])
        if not recs:
            continue
        for mem in (False, True):
            for small in (None, SMALL_CONSTS):
                _judge_partition(ctx, [recs], files, mem, small, escalated, d["input"].get("headers"))
                n += 1
        if len(ctx.failures) > 10:
            break
    budget = (300 if ctx.tier == "quick" else 3000) * (3 if broken else 1)
    for i in range(budget):
        x = rng.random()
        if x < 0.4:
            recs = B.clustered_records(rng, rng.randint(1, 5), rng.randint(1, 8), 40, rng.choice([5, 30, 200]))
            small = None
        elif x < 0.8:
            recs = B.clustered_records(rng, rng.randint(1, 3), rng.randint(4, 14), 700, rng.choice([100, 400, 900]))
            small = SMALL_CONSTS
        else:
            recs = B.rand_records(rng, rng.randint(2, 40), rng.choice([5, 30, 1000]), rng.choice([1, 3, 40]))
            small = rng.choice([None, SMALL_CONSTS])
        a = B.one_file(rng, recs)
        b = B.partition(rng, recs, rng.randint(2, 4))
        mem = rng.random() < 0.5
        hd = None
        if i % 3 == 0:
            # parts with their own headers; every second time one part holds no record (its header may lack the sequence)
            if i % 6 == 0 and all(b):
                j = rng.randrange(len(b))
                k = (j + 1) % len(b)
                b = [list(f) for f in b]
                b[k] = sorted(b[k] + b[j], key=lambda r: r[0])
                b[j] = []
            hd = B.own_headers(rng, b)
            ctx.count("oracle:partition_inprocess_own_headers")
            if any(h is None for h in hd):
                ctx.count("oracle:partition_inprocess_part_not_listing_the_sequence")
        _judge_partition(ctx, a, b, mem, small, escalated, hd)
        n += 1
        ctx.count("oracle:partition_inprocess")
        if len(ctx.failures) > 10:
            break
    ctx.extra["oracle_partition_cases"] = n


def lookup_sound_check(box, cache, fs, gtf, complete):
    """the lookup clause on the real find_converted_db: a returned database is the one stored for this key, with
    both mtimes and the flag matching"""
    G = _g2d()
    box.set_fs(fs)
    try:
        r = G.find_converted_db(box.cache_dict(cache), box.p(gtf), complete)
    except TypeError:
        return None
    if r is None:
        return None
    e = dict(cache).get(gtf)
    rel = box.rel(r)
    if e is None:
        return "hit %s for a key that is not in the cache" % rel
    if e.get("genedb") != rel:
        return "hit %s but the stored database is %s" % (rel, e.get("genedb"))
    if fs.get(gtf) is None or fs.get(gtf) != e.get("gtf_mtime"):
        return "hit although the GTF mtime %s != stored %s" % (fs.get(gtf), e.get("gtf_mtime"))
    if fs.get(rel) is None or fs.get(rel) != e.get("db_mtime"):
        return "hit although the database mtime %s != stored %s" % (fs.get(rel), e.get("db_mtime"))
    if e.get("complete_db") is not complete:
        return "hit although complete_db %s != requested %s" % (e.get("complete_db"), complete)
    return None


def history_check(ops):
    """cached = fresh on the real convert_db: the database it returns for (gtf, complete) holds what a fresh
    conversion of the GTF's current content with that flag would produce"""
    try:
        _, facts = impl_history(ops)
    except Exception as ex:    # the harness itself must not hide a crash of the real code
        return "convert_db raised %s: %s" % (type(ex).__name__, str(ex)[:200])
    for i, f in enumerate(facts):
        if f is None or f["kind"] != "gtf2db":
            continue
        want = conv_tok(f["gtf_now"], f["complete"]) if f["gtf_now"] is not None else None
        got = f["res"]["db_data"]
        if got != want:
            return ("conversion #%d of %s (complete=%s) returned %s holding %s, a fresh conversion gives %s%s"
                    % (i, f["gtf"], f["complete"], f["res"]["db"], got, want,
                       "" if f["res"]["converted"] else " (served from the cache)"))
    return None


def oracle_cache(ctx, disagreements, broken):
    rng = ctx.rng
    box = CacheBox()
    n = 0
    try:
        for d in disagreements:
            if d["op"] == "find_converted_db":
                i = d["input"]
                cache = [(k, e) for k, e in i["cache"]]
                r = lookup_sound_check(box, cache, i["fs"], i["gtf"], i["complete"])
                n += 1
                if r:
                    ctx.fail("cache:unsound_hit", {"cache": i["cache"], "fs": i["fs"], "gtf": i["gtf"], "complete": i["complete"]}, r)
            elif d["op"] == "history":
                r = history_check(d["input"]["ops"])
                n += 1
                if r:
                    ctx.fail("cache:stale_or_foreign_db", {"ops": d["input"]["ops"]}, r)
        cases = B.all_cache_cases()
        if ctx.tier == "quick" and not broken:
            cases = rng.sample(cases, min(len(cases), 1200))
        for cache, fs, gtf, db, c in cases:
            r = lookup_sound_check(box, cache, fs, gtf, c)
            n += 1
            if r:
                ctx.fail("cache:unsound_hit", {"cache": _cache_json(cache), "fs": fs, "gtf": gtf, "complete": c}, r)
                if len(ctx.failures) > 10:
                    break
    finally:
        box.close()
    for _ in range((120 if ctx.tier == "quick" else 1500) * (3 if broken else 1)):
        h = B.rand_history(rng, rng.randint(3, 14))
        r = history_check(h)
        n += 1
        ctx.count("oracle:cache_history")
        if r:
            ctx.fail("cache:stale_or_foreign_db", {"ops": h}, r)
            if len(ctx.failures) > 10:
                break
    ctx.extra["oracle_cache_cases"] = n


# ---- pipeline level ----------------------------------------------------------------------------

PARTITION_OUTPUTS = ["read_assignments.tsv", "corrected_reads.bed", "gene_counts.tsv", "transcript_counts.tsv",
                     "gene_tpm.tsv", "transcript_tpm.tsv", "exon_counts.tsv", "intron_counts.tsv"]


def _pipeline():
    import pipeline as P
    return P


def _records(path):
    P = _pipeline()
    with open(path) as f:
        return collections.Counter(l for l in P.strip_cmdline(f.read()).split("\n") if l)


def run_one(root, name, bams, ref, genedb, complete, home=None, extra=(), threads=1):
    P = _pipeline()
    out = os.path.join(root, name)
    a = ["--threads", str(threads), "--bam"] + list(bams) + ["--reference", ref, "--data_type", "nanopore", "-p", "S", "--no_gzip",
                                                     "--count_exons", "--genedb", genedb]
    if complete:
        a.append("--complete_genedb")
    rc, log = P.run_isoquant(out, a + list(extra), home=home or os.path.join(root, "home_" + name))
    files = P.out_files(out)
    return {"rc": rc, "log": log, "files": {k[2:] if k.startswith("S.") else k: v for k, v in files.items()}}


def compare_runs(a, b, names=None, as_multiset=True):
    """None or a description of the first difference between two runs"""
    if a["rc"] != 0 or b["rc"] != 0:
        if a["rc"] == b["rc"]:
            return None
        return "exit codes differ: %s vs %s; %s" % (a["rc"], b["rc"], (a["log"] if a["rc"] else b["log"])[-300:])
    keys = names if names is not None else sorted(k for k in set(a["files"]) | set(b["files"]) if not k.endswith(".log"))
    for k in keys:
        if (k in a["files"]) != (k in b["files"]):
            return "%s produced by one run only" % k
        if k not in a["files"]:
            continue
        if as_multiset:
            ra, rb = _records(a["files"][k]), _records(b["files"][k])
            if ra != rb:
                return "%s differs: only in first %s | only in second %s" % (k, list((ra - rb).items())[:2], list((rb - ra).items())[:2])
        else:
            P = _pipeline()
            with open(a["files"][k]) as f1, open(b["files"][k]) as f2:
                t1, t2 = P.strip_cmdline(f1.read()), P.strip_cmdline(f2.read())
            if t1 != t2:
                l1, l2 = t1.split("\n"), t2.split("\n")
                for x, y in zip(l1, l2):
                    if x != y:
                        return "%s differs: %r vs %r" % (k, x[:200], y[:200])
                return "%s differs in length: %d vs %d lines" % (k, len(l1), len(l2))
    return None


def pipeline_partition(root, seed, scenario, k, part_seed, high_memory=False, threads=1, own_headers=False):
    """(1) one BAM vs the same records split over k BAM files of one experiment.  own_headers: the parts do not share a
    header - part 0 holds no read of the last chromosome and does not list it (a part made by subsetting), part 1 lists the
    chromosomes in reverse order, the other parts keep the header of the whole file"""
    import random
    ds = B.make_dataset(seed, scenario)
    d = os.path.join(root, "data")
    paths = ds.write(d)
    rng = random.Random(part_seed)
    parts = B.split_reads(rng, ds.reads, k)
    headers = [None] * k
    if own_headers:
        names = list(ds.chroms)
        full = [(n, len(ds.chroms[n])) for n in names]
        last = names[-1]
        moved = [r for r in parts[0] if r["chr"] == last]
        parts[0] = [r for r in parts[0] if r["chr"] != last]
        parts[1] = parts[1] + moved
        headers[0] = [h for h in full if h[0] != last]
        headers[1] = list(reversed(full))
    bams = [ds.write(d, bam_name="part%d.bam" % i, reads=p, write_ref=False, header=headers[i])["bam"] for i, p in enumerate(parts)]
    # --keep_tmp: the per-chromosome dumps of both runs stay on disk for the hypothesis monitor below
    extra = (["--high_memory"] if high_memory else []) + ["--keep_tmp"]
    one = run_one(root, "one", [paths["bam"]], paths["ref"], paths["gtf"], True, extra=extra, threads=threads)
    spl = run_one(root, "split", bams, paths["ref"], paths["gtf"], True, extra=extra, threads=threads)
    if one["rc"] != 0 and spl["rc"] == one["rc"]:
        # both representations fail alike: nothing to compare; one failing alone is a difference (compare_runs below)
        return "infra", "single-BAM run and split run failed with exit code %s: %s" % (one["rc"], one["log"][-400:]), 0
    n = sum(_records(one["files"]["read_assignments.tsv"]).values()) if "read_assignments.tsv" in one["files"] else 0
    r = compare_runs(one, spl, PARTITION_OUTPUTS)
    if r is None:
        r = dump_hypotheses(root, ["one"] + (["split"] if spl["rc"] == 0 else []))
    return "ok", r, n


DUMP_STATS = {"files": 0, "records": 0}


def dump_hypotheses(root, names):
    """G6 (hypothesis audit): `hNS` (no record of the collecting stage carries type `suspended`) and `hinj` (assignment ids
    pairwise different per chromosome) of `end_to_end_partition_invariant`, evaluated on the kept `S.save_<chr>` dumps of
    the real runs -> None or the description of the first violated hypothesis"""
    from gen import savedumps
    for name in names:
        st, probs = savedumps.check_dumps(os.path.join(root, name, "S", "aux"), "S.save")
        DUMP_STATS["files"] += st["files"]
        DUMP_STATS["records"] += st["records"]
        if probs:
            return "run `%s`: %s: %s" % (name, probs[0][0], probs[0][1])
    return None


def enrich_gtf(path, style=None):
    """GENCODE-like attributes (names, types, repeated `tag` keys, exon numbers / ids) and CDS records, so that a
    representation that loses or reorders attributes or records shows in the reference part of the outputs.
    `style` (audit2-C C12 GAP-1/2): other spellings of the SAME annotation that the input check accepts -
      mrna       transcript records typed `mRNA` (all of them, or every second one with 'some')
      blank_ids  gene / transcript ids that hold a blank (`gene_id "G1 x"`)
      comments   `#` lines and empty lines between the records
      crlf       CRLF line ends"""
    style = style or {}
    out = []
    n_exon = {}
    n_tx = 0
    retype = {}

    def bl(i):
        return i + " x" if style.get("blank_ids") else i

    with open(path) as f:
        for l in f:
            l = l.rstrip("\n")
            if not l or l.startswith("#"):
                out.append(l)
                continue
            v = l.split("\t")
            gid = v[8].split('gene_id "')[1].split('"')[0]
            tid = None
            if v[2] != "gene":
                tid = v[8].split('transcript_id "')[1].split('"')[0]
            if style.get("blank_ids"):
                v[8] = v[8].replace('gene_id "%s"' % gid, 'gene_id "%s"' % bl(gid))
                if tid is not None:
                    v[8] = v[8].replace('transcript_id "%s"' % tid, 'transcript_id "%s"' % bl(tid))
            if v[2] == "gene":
                v[8] += ' gene_name "N_%s"; gene_type "protein_coding"; level "2";' % gid
                if style.get("comments"):
                    out += ["", "# gene %s" % gid]
            else:
                if v[2] == "transcript":
                    v[8] += ' gene_name "N_%s"; transcript_name "N_%s-201"; tag "basic"; tag "CCDS"; tag "appris";' % (gid, tid)
                    n_tx += 1
                    if style.get("mrna") and (style["mrna"] != "some" or n_tx % 2 == 1):
                        v[2] = "mRNA"
                elif v[2] == "exon":
                    n_exon[tid] = n_exon.get(tid, 0) + 1
                    v[8] += ' exon_number "%d"; exon_id "E_%s_%s";' % (n_exon[tid], v[3], v[4])
            out.append("\t".join(v))
            if v[2] == "exon" and n_exon.get(tid) == 1 and int(v[4]) - int(v[3]) > 30:
                c = list(v)
                c[2], c[3], c[7] = "CDS", str(int(v[3]) + 10), "0"
                out.append("\t".join(c))
    if style.get("comments"):
        out = ["##description: synthetic annotation", "#!genome-build none"] + out + ["", "# end"]
    eol = "\r\n" if style.get("crlf") else "\n"
    with open(path, "w", newline="") as f:
        f.write(eol.join(out) + eol)


def pipeline_formats(root, seed, scenario, style=None):
    """(2) .gtf / .gtf.gz / pre-built .db, with and without --complete_genedb: every output file identical.
    `style`: spelling of the annotation (enrich_gtf) and, with `gzx`, one more compressed copy under another of the names the
    input check takes for compressed (.gtf.gzip / .gtf.bgz / .GTF.GZ)"""
    style = style or {}
    ds = B.make_dataset(seed, scenario)
    d = os.path.join(root, "data")
    paths = ds.write(d)
    enrich_gtf(paths["gtf"], style)
    gz = paths["gtf"] + ".gz"
    with open(paths["gtf"], "rb") as f, gzip.open(gz, "wb") as g:
        g.write(f.read())
    import subprocess
    dbc, dbi = os.path.join(d, "prebuilt_complete.db"), os.path.join(d, "prebuilt_inferred.db")
    for db, flag in ((dbc, "True"), (dbi, "False")):
        # the way a user pre-builds the database: IsoQuant's own gtf2db (separate process: gffutils is chatty)
        p = subprocess.run([vlib.PY, "-c", "import sys; sys.path.insert(0, %r); from src.gtf2db import gtf2db; "
                            "gtf2db(%r, %r, %s, False)" % (vlib.REPO, paths["gtf"], db, flag)],
                           capture_output=True, text=True)
        if p.returncode != 0:
            return "infra", "pre-building the database failed: " + (p.stdout + p.stderr)[-300:]
    variants = [("gtf_complete", paths["gtf"], True), ("gtf_inferred", paths["gtf"], False), ("gz_complete", gz, True),
                ("gz_inferred", gz, False), ("db_complete", dbc, True), ("dbi_inferred", dbi, False), ("db_noflag", dbc, False)]
    if style.get("gzx"):
        gzx = os.path.join(d, {".gtf.gzip": "ann.gtf.gzip", ".gtf.bgz": "ann.gtf.bgz", ".GTF.GZ": "ANN.GTF.GZ"}[style["gzx"]])
        shutil.copy(gz, gzx)
        variants.append(("gzx_complete", gzx, True))
    runs = {}
    for name, g, c in variants:
        runs[name] = run_one(root, name, [paths["bam"]], paths["ref"], g, c)
    base = runs["gtf_complete"]
    if base["rc"] != 0 and all(r["rc"] == base["rc"] for r in runs.values()):
        # no representation runs: nothing to compare (a representation that runs while the baseline does not IS a
        # difference between representations - audit2-C GAP-2 - and is reported by compare_runs below)
        return "infra", "every representation failed with exit code %s: %s" % (base["rc"], base["log"][-400:])
    for name, _, _ in variants[1:]:
        r = compare_runs(base, runs[name], None, as_multiset=False)
        if r:
            return "ok", "gtf_complete vs %s: %s" % (name, r)
    return "ok", None


def pipeline_cache(root, seed, scenario):
    """(3) cached vs fresh conversion under one HOME: same GTF again (cache hit), GTF rewritten, flag flipped"""
    ds = B.make_dataset(seed, scenario)
    d = os.path.join(root, "data")
    paths = ds.write(d)
    home = os.path.join(root, "home_shared")
    first = run_one(root, "first", [paths["bam"]], paths["ref"], paths["gtf"], True, home=home)
    if first["rc"] != 0:
        return "infra", "first run failed: " + first["log"][-400:], False
    again = run_one(root, "again", [paths["bam"]], paths["ref"], paths["gtf"], True, home=home)
    hit = "Gene annotation file found" in again["log"]
    r = compare_runs(first, again, None, as_multiset=False)
    if r:
        return "ok", "same GTF, second run under the same HOME (cache %s): %s" % ("hit" if hit else "miss", r), hit
    flipped = run_one(root, "flipped", [paths["bam"]], paths["ref"], paths["gtf"], False, home=home)
    fresh_flipped = run_one(root, "fresh_flipped", [paths["bam"]], paths["ref"], paths["gtf"], False)
    r = compare_runs(fresh_flipped, flipped, None, as_multiset=False)
    if r:
        return "ok", "flag flipped under the same HOME vs fresh HOME: %s" % r, hit
    # rewrite the annotation in place (one transcript removed), new mtime
    lines = [l for l in ds.gtf_lines()]
    victim = ds.genes[0]["transcripts"][-1][0]
    if len(ds.genes[0]["transcripts"]) > 1:
        lines = [l for l in lines if ('transcript_id "%s"' % victim) not in l]
    st = os.stat(paths["gtf"])
    with open(paths["gtf"], "w") as f:
        f.write("\n".join(lines) + "\n")
    os.utime(paths["gtf"], (st.st_mtime + 10, st.st_mtime + 10))
    changed = run_one(root, "changed", [paths["bam"]], paths["ref"], paths["gtf"], True, home=home)
    fresh_changed = run_one(root, "fresh_changed", [paths["bam"]], paths["ref"], paths["gtf"], True)
    r = compare_runs(fresh_changed, changed, None, as_multiset=False)
    if r:
        return "ok", "GTF rewritten, run under the old HOME vs fresh HOME: %s" % r, hit
    return "ok", None, hit


def _job(spec):
    root = vlib.scratch_dir("isoverif_c12pipe_")
    try:
        if spec["kind"] == "partition":
            st, r, n = pipeline_partition(root, spec["seed"], spec["scenario"], spec["k"], spec["part_seed"],
                                          spec.get("high_memory", False), spec.get("threads", 1), spec.get("own_headers", False))
            return spec, st, r, {"records": n}
        if spec["kind"] == "formats":
            st, r = pipeline_formats(root, spec["seed"], spec["scenario"], spec.get("style"))
            return spec, st, r, {}
        st, r, hit = pipeline_cache(root, spec["seed"], spec["scenario"])
        return spec, st, r, {"cache_hit": hit}
    finally:
        shutil.rmtree(root, ignore_errors=True)


KIND = {"partition": "pipeline:bam_partition", "formats": "pipeline:annotation_format", "cache": "pipeline:cached_conversion"}


def pipeline_specs(ctx, broken):
    rng = ctx.rng
    quick = ctx.tier == "quick"
    specs = []
    scen = ["basic", "multimap", "long"]
    for i in range(3 if quick else 16):
        for sc in scen:
            specs.append({"kind": "partition", "seed": rng.randint(1, 10 ** 6), "scenario": sc, "k": rng.randint(2, 4),
                          "part_seed": rng.randint(1, 10 ** 6), "high_memory": rng.random() < 0.3,
                          "threads": rng.choice([1, 1, 2]), "own_headers": i % 2 == 0})
    if not quick:
        for i in range(3):
            specs.append({"kind": "partition", "seed": rng.randint(1, 10 ** 6), "scenario": "deep", "k": rng.randint(2, 4),
                          "part_seed": rng.randint(1, 10 ** 6), "high_memory": i == 2, "threads": 1})
    # spellings of the annotation (enrich_gtf): the quick tier always has one mRNA-typed file and one with blank ids + CRLF +
    # another compressed name; thorough draws the dimensions independently
    styles = [{"mrna": "all", "comments": True}, {"blank_ids": True, "crlf": True, "gzx": ".gtf.gzip"}]
    for i in range(2 if quick else 8):
        if i < len(styles):
            st = styles[i]
        else:
            st = {"mrna": rng.choice([None, "all", "some"]), "blank_ids": rng.random() < 0.4, "comments": rng.random() < 0.5,
                  "crlf": rng.random() < 0.3, "gzx": rng.choice([None, ".gtf.gzip", ".gtf.bgz", ".GTF.GZ"])}
        specs.append({"kind": "formats", "seed": rng.randint(1, 10 ** 6), "scenario": rng.choice(scen), "style": st})
    for i in range(2 if quick else 8):
        specs.append({"kind": "cache", "seed": rng.randint(1, 10 ** 6), "scenario": rng.choice(scen)})
    return specs


def oracle_pipeline(ctx, broken):
    specs = pipeline_specs(ctx, broken)
    workers = min(8, max(2, (os.cpu_count() or 4) // 2))
    with concurrent.futures.ThreadPoolExecutor(max_workers=workers) as ex:
        results = list(ex.map(_job, specs))
    for spec, st, r, info in results:
        ctx.count("oracle:pipeline_" + spec["kind"])
        if spec.get("own_headers"):
            ctx.count("oracle:pipeline_partition_parts_with_own_headers")
        if st == "infra":
            ctx.notes.append("pipeline %s: %s" % (spec, r))
            ctx.count("oracle:pipeline_infra_failure")
            continue
        if info.get("cache_hit"):
            ctx.count("oracle:pipeline_cache_hit_observed")
        if info.get("records"):
            ctx.count("oracle:pipeline_partition_read_records", info["records"])
        if r:
            ctx.fail("pipeline:dump_hypothesis" if ": hyp_" in r[:60] else KIND[spec["kind"]], spec, r)
    ctx.count("oracle:pipeline_dump_hypotheses_files", DUMP_STATS["files"])
    ctx.count("oracle:pipeline_dump_hypotheses_records", DUMP_STATS["records"])
    from gen import savedumps
    st_ = savedumps.selftest()
    if st_:
        ctx.fail("monitor_selftest", {"kind": "monitor_selftest"}, st_)
    if specs and all(st == "infra" for _, st, _, _ in results):
        raise RuntimeError("every pipeline scenario failed before the comparison: " + str(ctx.notes[-1])[:500])
    ctx.extra["search_only_clause"] = ("annotation format equivalence (.gtf/.gtf.gz/.db x --complete_genedb): %d differential "
                                       "pipeline scenarios, no theorem" % sum(1 for s in specs if s["kind"] == "formats"))


def oracle(ctx, disagreements, broken):
    from props import C12e2e
    oracle_partition(ctx, disagreements, broken)
    oracle_cache(ctx, disagreements, broken)
    C12e2e.oracle_downstream(ctx, disagreements)
    C12e2e.oracle_known_finding(ctx)
    oracle_pipeline(ctx, broken)


def replay(ctx, failure):
    kind, inp = failure["kind"], failure["input"]
    if kind == "partition:alignment_lost":
        a = [[tuple(r) for r in f] for f in inp["a"]]
        b = [[tuple(r) for r in f] for f in inp["b"]]
        small = tuple(inp["small"]) if inp.get("small") else None
        return partition_check(a, b, inp["mem"], small, headers_b=inp.get("headers_b"))[0] == "lost"
    if kind == "pipeline:bam_partition_records":
        a = [[tuple(r) for r in f] for f in inp["a"]]
        b = [[tuple(r) for r in f] for f in inp["b"]]
        return pipeline_from_records(a, b, high_memory=inp.get("mem", False)) is not None
    if kind == "cache:unsound_hit":
        box = CacheBox()
        try:
            return lookup_sound_check(box, [(k, e) for k, e in inp["cache"]], inp["fs"], inp["gtf"], inp["complete"]) is not None
        finally:
            box.close()
    if kind == "cache:stale_or_foreign_db":
        return history_check(inp["ops"]) is not None
    if kind == "downstream:order_dependent":
        from props import C12e2e
        return C12e2e.order_check(inp["a"], inp["b"]) is not None
    if kind == "pipeline:eq_duplicate_file_order":
        from props import C12e2e
        r = C12e2e.dup_file_order_probe()
        return bool(r) and not r.startswith("infra")
    if kind == "monitor_selftest":
        from gen import savedumps
        return savedumps.selftest() is not None
    if kind.startswith("pipeline:"):
        _, st, r, _ = _job(inp)
        return bool(r) and st == "ok"
    return False
