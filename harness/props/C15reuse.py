"""C15, reuse clause — correspondence of Model/Reuse.lean (`collectReads`, `processSaved`, `savingRun`, `restartRun`)
with the real code, and the clause itself on the real code, IN-PROCESS on generated saved files.

Real code that runs (nothing of /repo is edited; stubs are installed on module attributes and removed again):
  * SAVING run: the real command line goes through the real `parse_args` / `check_and_load_args` /
    `set_additional_params` / `run_pipeline` -> `DatasetProcessor.process_sample` of a BAM experiment.  Only
    `collect_reads_in_parallel` is replaced (the BAM intake and the assigner are other properties' subject): the stub
    feeds generated `GeneInfo` / `ReadAssignment` objects through the REAL `TmpFileAssignmentPrinter` and returns
    `processed_reads` the way the real function does in either memory mode; `pysam.AlignmentFile` is replaced for
    `count_unaligned_reads` (generated numbers of unaligned reads).  Everything else is real: `collect_reads` (list
    building of both memory modes, `prepare_multimapper_dict` over the REAL `BasicReadAssignmentLoader`,
    `resolve_multimappers`, the `_info` file), `load_read_info`, `process_assigned_reads` -> `construct_models_in_parallel`
    (multimapper reading loop, REAL `ReadAssignmentLoader` with `GeneInfo.deserialize` against a REAL gffutils
    database, printers, counters), `merge_assignments`.
  * RESTART: the real command line `--read_assignments <prefix>` through the same real entry points; nothing is stubbed.
The generated records are the records of a real pipeline run (synthetic 3-chromosome data set) with read ids, assignment
ids, multimapper / polyA flags, assignment types, isoform matches (within the genes of the record's gene info) and
penalties (not multiples of 2^-20) re-drawn, so that reads have several records on one and on several chromosomes.
"""
import collections
import copy
import logging
import os
import shutil
import types as _types
from fractions import Fraction

import vlib
from gen import serial as G
from props import C02
from props import C15print

NOT_ALIGNED_KIND = "reuse:not_aligned_lost"
COUNTING = ["unique_only", "with_ambiguous", "unique_splicing_consistent", "unique_inconsistent", "all"]
NORMS = ["simple", "usable_reads"]
UNASSIGNED = ("noninformative", "intergenic", "empty")
INCONSISTENT = ("inconsistent", "inconsistent_non_intronic", "inconsistent_ambiguous")
PENALTIES = [0.0, 0.1, 0.7, 1.5, 0.30000000000000004, 2.0000001, 0.5]

_B = {}


def _c15():
    from props import C15
    return C15


def _mods():
    C15 = _c15()
    m = C15._impl()
    vlib.repo_on_path()
    import warnings
    with warnings.catch_warnings():
        warnings.simplefilter("ignore")
        import isoquant
    import src.stats as ST
    lg = logging.getLogger("IsoQuant")
    if not getattr(lg, "_c15reuse_quiet", False):
        lg.addHandler(logging.NullHandler())
        lg.propagate = False
        lg.setLevel(logging.CRITICAL + 1)
        lg._c15reuse_quiet = True
    return m, isoquant, ST


# ------------------------------------------------------------------------------------------------
# the base: one real pipeline run on synthetic data (annotation database, reference, realistic records)

def base(ctx_seed):
    if "dir" in _B:
        return _B
    import pipeline as P
    from gen import synth
    C15 = _c15()
    m, isoquant, ST = _mods()
    d = P.scratch("isoverif_c15r_")
    _B["dir"] = d
    ds = synth.simple_dataset(seed=ctx_seed % 1000 + 11, n_chroms=3, genes_per_chrom=2, reads_per_tx=4)
    paths = ds.write(os.path.join(d, "data"))
    outA = os.path.join(d, "base")
    rc, log = P.run_isoquant(outA, P.std_args(paths, extra=["--keep_tmp", "--no_model_construction"]),
                             home=os.path.join(d, "home"), timeout=200)
    _B.update(rc=rc, log=log[-800:], paths=paths, ds=ds)
    if rc != 0:
        return _B
    db = os.path.join(outA, "ann.db")
    if not os.path.exists(db):
        cands = [os.path.join(r, f) for r, _, fs in os.walk(d) for f in fs if f.endswith(".db")]
        db = cands[0] if cands else None
    _B["db"] = db
    names = list(ds.chroms)
    _B["names"] = names
    groups = {}
    for nm in names:
        path = os.path.join(outA, "S", "aux", "S.save_" + nm)
        g = C15.impl_load_stream(path, False)
        groups[nm] = [] if vlib.is_err(g) else g
    _B["groups"] = groups
    # the annotation as the gene database presents it: gene -> [(transcript, number of introns)], chromosome -> genes
    tx_of, genes_of, tr_chr = {}, collections.defaultdict(list), collections.defaultdict(list)
    for g in ds.genes:
        tx_of[g["gene_id"]] = [(tid, len(ex) - 1) for tid, ex in g["transcripts"]]
        genes_of[g["chr"]].append(g["gene_id"])
        tr_chr[g["chr"]] += [tid for tid, _ in g["transcripts"]]
    _B.update(tx_of=tx_of, genes_of=dict(genes_of), tr_chr=dict(tr_chr))
    return _B


def cleanup():
    C15print.reset_cache()
    d = _B.pop("dir", None)
    _B.clear()
    if d:
        shutil.rmtree(d, ignore_errors=True)


# ------------------------------------------------------------------------------------------------
# case generation

def _etype(E, name):
    m, _, _ = _mods()
    return m.IA.ReadAssignmentType[name].value


def gen_matches(rng, B, template, genes, atype):
    """isoform matches consistent with the assignment type, inside the genes of the record's gene info"""
    txs = [(g, t) for g in genes for t, _ in B["tx_of"].get(G.from_cps(g) if isinstance(g, list) else g, [])]
    base_m = template[0] if template else None

    def mk(g, t, pen):
        x = copy.deepcopy(base_m) if base_m else {"strand": G.cps("+"), "cls": 0, "events": []}
        x.update(gene=None if g is None else G.cps(g), tr=None if t is None else G.cps(t), pen=G.frac_of_float(pen))
        return x
    if atype in UNASSIGNED or not txs:
        return [] if rng.random() < 0.4 else [mk(None, None, 0.0)]
    pen = rng.choice(PENALTIES) if atype in INCONSISTENT else rng.choice([0.0, 0.1])
    if atype in ("ambiguous", "inconsistent_ambiguous") and len(txs) > 1:
        ch = rng.sample(txs, min(len(txs), rng.choice([2, 2, 3])))
    else:
        ch = [rng.choice(txs)]
    return [mk(g, t, pen) for g, t in ch]


def gtype_for(atype, ms):
    genes = {tuple(x["gene"]) for x in ms if x["gene"]}
    if atype in ("ambiguous",):
        return "unique" if len(genes) == 1 else "ambiguous"
    if atype == "inconsistent_ambiguous":
        return "inconsistent" if len(genes) == 1 else "inconsistent_ambiguous"
    return atype


def gen_case(rng, B, cid):
    m, _, _ = _mods()
    RAT = m.IA.ReadAssignmentType
    names = B["names"]
    pool = ["rd%d" % i for i in range(rng.randint(2, 14))] + (["réad"] if rng.random() < 0.3 else [])
    aid = rng.randint(1, 40)
    chroms = []
    n_rec = 0
    for nm in names:
        groups = []
        src = B["groups"][nm]
        for g in src:
            if rng.random() < 0.25:
                continue
            reads = []
            cand = list(g["reads"])
            rng.shuffle(cand)
            for j in cand[:rng.choice([0, 1, 2, 3, 4])]:
                r = copy.deepcopy(j)
                aid += rng.choice([1, 1, 2, 7])
                genes = [G.from_cps(x) for x in g["gene"]["genes"]]
                tname = rng.choice(["unique", "unique", "unique_minor_difference", "ambiguous", "inconsistent",
                                    "inconsistent_non_intronic", "inconsistent_ambiguous", "noninformative",
                                    "intergenic"])
                if not genes:
                    tname = rng.choice(["noninformative", "intergenic"])
                ms = gen_matches(rng, B, j["matches"], genes, tname)
                if tname in ("ambiguous", "inconsistent_ambiguous") and len(ms) < 2:
                    tname = "unique" if tname == "ambiguous" else "inconsistent"
                r.update(id=aid, read_id=G.cps(rng.choice(pool)), chr=G.cps(nm), atype=RAT[tname].value,
                         gtype=RAT[gtype_for(tname, ms)].value, matches=ms, group=G.cps("NA"),
                         flags=[rng.random() < 0.5, rng.random() < 0.3, bool(j["flags"][2])])
                if rng.random() < 0.2 and len(r["cexons"]) > 1:
                    r["cexons"] = r["cexons"][:1]           # unspliced corrected alignment: not confirming
                    r["cintrons"] = []
                if aid % 5 == 0 and r["exons"][0][0] > 600 and r["cexons"][0][0] > 600:
                    # a read reaching beyond the annotated gene (no rng draw): one more exon and intron upstream of the
                    # saved gene span - the loader has to widen the reference window (extend_reference_region, f48e223)
                    s0 = min(r["exons"][0][0], r["cexons"][0][0])
                    r["exons"] = [[s0 - 500, s0 - 400]] + r["exons"]
                    r["cexons"] = [[s0 - 500, s0 - 400]] + r["cexons"]
                    r["cintrons"] = G.junctions_from_blocks(r["cexons"])
                reads.append(r)
                if reads and rng.random() < 0.12:            # an `__eq__`-duplicate of the record just added
                    aid += 1
                    dup = copy.deepcopy(r)
                    dup.update(id=aid, flags=[rng.random() < 0.5, r["flags"][1], r["flags"][2]])
                    reads.append(dup)
            n_rec += len(reads)
            groups.append({"gene": g["gene"], "reads": reads})
        chroms.append({"name": nm, "groups": groups})
    return {"id": cid, "chroms": chroms, "unmapped": [rng.choice([0, 0, 1, 3]) for _ in range(rng.choice([1, 2]))],
            "gene_strategy": rng.choice(COUNTING), "transcript_strategy": rng.choice(COUNTING),
            "norm": rng.choice(NORMS), "n_records": n_rec,
            # read-level printers (props/C15print.py): the Canonical column on for every second case (no rng draw)
            "check_canonical": n_rec % 2 == 0}


# ------------------------------------------------------------------------------------------------
# the model's view of a case

def strings_of(case):
    s = set()
    for c in case["chroms"]:
        for g in c["groups"]:
            for x in g["gene"]["genes"]:
                s.add(G.from_cps(x))
            for r in g["reads"]:
                s.add(G.from_cps(r["read_id"]))
                s.add(G.from_cps(r["chr"]))
                for x in r["matches"]:
                    for k in ("gene", "tr"):
                        if x[k] is not None:
                            s.add(G.from_cps(x[k]))
    return s


def env_of(case, B):
    """table: chromosome names first (their position is their number), then every other string in `str` order"""
    names = [c["name"] for c in case["chroms"]]
    rest = set(strings_of(case))
    for nm in names:
        rest |= set(B["genes_of"].get(nm, [])) | set(B["tr_chr"].get(nm, []))
    rest -= set(names)
    table = names + sorted(rest)
    pos = {s: i for i, s in enumerate(table)}
    derive = []
    seen = set()
    for c in case["chroms"]:
        for g in c["groups"]:
            key = tuple(tuple(x) for x in g["gene"]["genes"])
            if key in seen:
                continue
            seen.add(key)
            rows = [[pos[t], n] for x in g["gene"]["genes"] for t, n in B["tx_of"].get(G.from_cps(x), [])]
            derive.append([g["gene"]["genes"], rows])
    return table, pos, derive


def cfg_of(case, B, pos, high_memory):
    names = [c["name"] for c in case["chroms"]]
    return {"high_memory": high_memory, "gene_strategy": case["gene_strategy"],
            "transcript_strategy": case["transcript_strategy"], "norm": case["norm"],
            "complete_genes": [sorted(pos[g] for g in B["genes_of"].get(nm, [])) for nm in names],
            "complete_transcripts": [sorted(pos[t] for t in B["tr_chr"].get(nm, [])) for nm in names],
            "merge_order": vlib.model_merge_order(names)}


def j_chroms(case):
    return [{"name": G.cps(c["name"]), "groups": c["groups"]} for c in case["chroms"]]


def req_saving(case, B, high_memory):
    table, pos, derive = env_of(case, B)
    return vlib.req("C15.saving_run", table=[G.cps(s) for s in table], derive=derive, cfg=cfg_of(case, B, pos, high_memory),
                    read_groups=[G.cps("NA")], unmapped=case["unmapped"], chroms=j_chroms(case))


def req_restart(case, B, files):
    """`restartRun` on the REAL files: the number of unaligned reads comes from the `_info` bytes (fix cc73ffc)"""
    table, pos, derive = env_of(case, B)
    return vlib.req("C15.restart_run", table=[G.cps(s) for s in table], derive=derive, cfg=cfg_of(case, B, pos, False),
                    names=[G.cps(c["name"]) for c in case["chroms"]], files=files)


# ------------------------------------------------------------------------------------------------
# the real runs

class _Stubs:
    """`collect_reads_in_parallel` replays the case through the real printer; `pysam.AlignmentFile(...).unmapped`"""

    def __init__(self, case, bam_names):
        self.case, self.bam_names = case, bam_names

    def __enter__(self):
        C15 = _c15()
        m, _, ST = _mods()
        DP, IA, AIO = m.DP, m.IA, m.AIO
        by_chr = {c["name"]: c["groups"] for c in self.case["chroms"]}
        case, bam_names = self.case, self.bam_names

        def fake_collect(sample_, chr_id, args_):
            save_file = "{}_{}".format(sample_.out_raw_file, chr_id)
            pr = AIO.TmpFileAssignmentPrinter(save_file, args_)
            processed = []
            try:
                for g in by_chr[chr_id]:
                    pr.add_gene_info(C15.mk_header(g["gene"]))
                    for j in g["reads"]:
                        ra = C15.mk_ra(j)
                        pr.add_read_info(ra)
                        processed.append(IA.BasicReadAssignment(ra) if args_.high_memory else ra.read_id)
            finally:
                pr.output_file.close()
                del pr
            return {"NA"}, ST.EnumStats(), processed

        class FakeBam:
            def __init__(self, fname, *a, **kw):
                self.unmapped = case["unmapped"][bam_names.index(fname)] if fname in bam_names else 0

            def __enter__(self):
                return self

            def __exit__(self, *a):
                return False

            def get_index_statistics(self):
                return []               # no alignment on a sequence outside the reference (warn_about_skipped_sequences, fix b09aace)

            def close(self):
                pass

        self.saved = (DP.collect_reads_in_parallel, DP.pysam)
        DP.collect_reads_in_parallel = fake_collect
        DP.pysam = _types.SimpleNamespace(AlignmentFile=FakeBam)
        return self

    def __exit__(self, *a):
        m, _, _ = _mods()
        m.DP.collect_reads_in_parallel, m.DP.pysam = self.saved


def _run_cli(cmd, home):
    """the real entry points of isoquant.py, in this process (no logger set-up); returns None or the exception name"""
    m, isoquant, _ = _mods()
    old_home = os.environ.get("HOME")
    os.environ["HOME"] = home
    try:
        args, parser = isoquant.parse_args(cmd)
        args = isoquant.check_and_load_args(args, parser)
        isoquant.create_output_dirs(args)
        isoquant.set_additional_params(args)
        isoquant.run_pipeline(args)
        return None
    except SystemExit as ex:
        return "SystemExit(%s)" % ex.code
    except Exception as ex:       # the real pipeline raised: an error of the run
        return type(ex).__name__ + ": " + str(ex)[:200]
    finally:
        if old_home is not None:
            os.environ["HOME"] = old_home


def common_opts(case, B):
    return ["--threads", "1", "--reference", B["paths"]["ref"], "--data_type", "nanopore", "-p", "S", "--no_gzip",
            "--genedb", B["db"], "--complete_genedb", "--no_model_construction",
            "--gene_quantification", case["gene_strategy"], "--transcript_quantification", case["transcript_strategy"],
            "--normalization_method", case["norm"]] + (["--check_canonical"] if case.get("check_canonical") else [])


def real_saving_run(case, B, root, high_memory):
    """-> (outdir, prefix of the saved files, error|None)"""
    out = os.path.join(root, "A")
    # one real (indexed) BAM path per generated file: the names only reach the stubbed pysam
    bams = []
    for i in range(len(case["unmapped"])):
        p = os.path.join(root, "f%d.bam" % i)
        shutil.copy(B["paths"]["bam"], p)
        shutil.copy(B["paths"]["bam"] + ".bai", p + ".bai")
        bams.append(p)
    cmd = ["--output", out, "--bam"] + bams + common_opts(case, B) + ["--keep_tmp"] + (["--high_memory"] if high_memory else [])
    with _Stubs(case, bams):
        err = _run_cli(cmd, os.path.join(B["dir"], "home"))
    return out, os.path.join(out, "S", "aux", "S.save"), err


def real_restart(case, B, root, prefix, tag="B"):
    out = os.path.join(root, tag)
    cmd = ["--output", out, "--read_assignments", prefix] + common_opts(case, B)
    if len(case["unmapped"]) > 1:
        # an experiment of several BAM files is grouped by file name implicitly (set_data_dependent_options); the
        # restart is given the option the saving run ran with
        cmd += ["--read_group", "file_name"]
    err = _run_cli(cmd, os.path.join(B["dir"], "home"))
    return out, err


def read_files(prefix, names):
    def rd(p):
        with open(p, "rb") as f:
            return f.read().hex()
    return {"info": rd(prefix + "_info"),
            "chrs": [{"save": rd("%s_%s" % (prefix, nm)), "mm": rd("%s_multimappers_%s" % (prefix, nm))} for nm in names]}


def outputs_of(outdir):
    """{suffix: path} of the experiment folder of a run (`S` for a BAM run, `S0` for a restart)"""
    for sub in ("S", "S0"):
        d = os.path.join(outdir, sub)
        if os.path.isdir(d):
            return {fn[len(sub) + 1:]: os.path.join(d, fn) for fn in sorted(os.listdir(d)) if os.path.isfile(os.path.join(d, fn))}
    return {}


def observed(outdir, pos):
    """the outputs `downstream` models, parsed from the files of a real run"""
    fs = outputs_of(outdir)
    res = {}
    for lvl in ("gene", "transcript"):
        rows, stats = C02.parse_counts_file(fs["%s_counts.tsv" % lvl])
        trows, un = C02.parse_tpm_file(fs["%s_tpm.tsv" % lvl])
        res[lvl] = {"rows": [[pos.get(f, -1), v] for f, v in rows],
                    "stats": [stats.get("__ambiguous"), stats.get("__no_feature"), stats.get("__not_aligned")]}
        res[lvl + "_tpm"] = {"tpm": [[pos.get(f, -1), v] for f, v in trows], "unassigned": un}
    bed = collections.Counter()
    with open(fs["corrected_reads.bed"]) as f:
        for l in f:
            if l.startswith("#"):
                continue
            p = l.rstrip("\n").split("\t")
            bed[(p[3], p[0], int(p[1]), int(p[2]))] += 1
    tsv = set()
    with open(fs["read_assignments.tsv"]) as f:
        for l in f:
            if l.startswith("#"):
                continue
            p = l.rstrip("\n").split("\t")
            tsv.add((p[0], p[1], p[7], p[5]))
    res["bed"], res["tsv"] = bed, tsv
    return res


def predicted(case, mo):
    """the same observables from the model's answer (`C15.process_saved` / the `run` part of `C15.saving_run`)"""
    by_aid = {}
    for c in case["chroms"]:
        for g in c["groups"]:
            for r in g["reads"]:
                by_aid[r["id"]] = r
    out = mo["out"]
    bed, tsv = collections.Counter(), set()
    for c in out["chrs"]:
        for p in c["records"]:
            r = by_aid[p["rec"]["aid"]]
            rid, chrom = G.from_cps(r["read_id"]), G.from_cps(r["chr"])
            ce = r["cexons"]
            bed[(rid, chrom, ce[0][0] - 1, ce[-1][1])] += 1
            tsv.add((rid, chrom, ",".join("%d-%d" % (a, b) for a, b in r["exons"]), p["rec"]["atype"]))
    res = {"bed": bed, "tsv": tsv}
    for lvl in ("gene", "transcript"):
        res[lvl] = {"rows": out[lvl]["rows"], "stats": out[lvl]["stats"][:3]}
        res[lvl + "_tpm"] = out[lvl + "_tpm"]
    return res


def compare(case, mo, obs):
    if isinstance(mo, dict) and "driver_error" in mo:
        return "driver error: %s" % str(mo)[:200]
    pred = predicted(case, mo)
    if pred["bed"] != obs["bed"]:
        return "loaded records (corrected_reads.bed): model-only %s, real-only %s" % (
            list((pred["bed"] - obs["bed"]).items())[:3], list((obs["bed"] - pred["bed"]).items())[:3])
    if pred["tsv"] != obs["tsv"]:
        return "assignment types (read_assignments.tsv): model-only %s, real-only %s" % (
            sorted(pred["tsv"] - obs["tsv"])[:3], sorted(obs["tsv"] - pred["tsv"])[:3])
    for lvl in ("gene", "transcript"):
        if pred[lvl] != obs[lvl]:
            return "%s counts: model %s real %s" % (lvl, pred[lvl], obs[lvl])
        why = C02.same_tpm(pred[lvl + "_tpm"], obs[lvl + "_tpm"])
        if why:
            return "%s TPM: %s" % (lvl, why)
    return None


# ------------------------------------------------------------------------------------------------
# correspondence

def run_case(ctx, case, B, high_memory, keep=None, old_format=False):
    """one real saving run + one real restart; returns dict(files, errA, errB, outA, outB, root)"""
    root = os.path.join(B["dir"], "case_%s_%d" % (case["id"], int(high_memory)))
    shutil.rmtree(root, ignore_errors=True)
    os.makedirs(root)
    outA, prefix, errA = real_saving_run(case, B, root, high_memory)
    res = {"root": root, "outA": outA, "errA": errA, "prefix": prefix, "files": None, "outB": None, "errB": None}
    if errA is None:
        names = [c["name"] for c in case["chroms"]]
        res["files"] = read_files(prefix, names)
        res["outB"], res["errB"] = real_restart(case, B, root, prefix)
        if old_format:
            # a save folder of the format before fix cc73ffc: `_info` without its last field (4 bytes)
            with open(prefix + "_info", "rb") as f:
                data = f.read()
            with open(prefix + "_info", "wb") as f:
                f.write(data[:-4])
            res["files_old"] = read_files(prefix, names)
            res["outO"], res["errO"] = real_restart(case, B, root, prefix, tag="O")
            with open(prefix + "_info", "wb") as f:
                f.write(data)
    return res


def correspondence(ctx):
    rng = ctx.rng
    quick = ctx.tier == "quick"
    B = base(ctx.seed)
    if B.get("rc") != 0 or not B.get("db"):
        ctx.notes.append("C15 reuse: base pipeline run failed (rc=%s): %s" % (B.get("rc"), B.get("log", "")[-300:]))
        ctx.disagree("reuse:base_run", {"seed": ctx.seed}, None, {"rc": B.get("rc")})
        return
    n = 30 if quick else 250
    cases = [gen_case(rng, B, i) for i in range(n)]
    ctx.extra["reuse_cases"] = n
    # phase 1: the real runs
    runs = []
    for case in cases:
        table, pos, derive = env_of(case, B)
        for hm in (False, True):
            run = run_case(ctx, case, B, hm, old_format=(case["id"] % 4 == 0 and not hm))
            run.update(case=case, hm=hm, pos=pos)
            if run["errA"] is None:
                run["obsA"] = observed(run["outA"], pos)
                run["printedA"] = C15print.printed_files(run["outA"], outputs_of)
                if run["errB"] is None:
                    run["obsB"] = observed(run["outB"], pos)
                    run["printedB"] = C15print.printed_files(run["outB"], outputs_of)
                if run.get("files_old") is not None and run["errO"] is None:
                    run["obsO"] = observed(run["outO"], pos)
            shutil.rmtree(run["root"], ignore_errors=True)
            runs.append(run)
    # phase 2: the model, one driver batch
    reqs = []
    for run in runs:
        reqs.append(req_saving(run["case"], B, run["hm"]))
        if run["files"] is not None:
            reqs.append(req_restart(run["case"], B, run["files"]))
            reqs.append(C15print.req_print_saved(run["case"], B, env_of(run["case"], B), run["files"],
                                                 run["printedA"]["tsv"][:2], bool(run["case"].get("check_canonical"))))
        if run.get("files_old") is not None:
            reqs.append(req_restart(run["case"], B, run["files_old"]))
    outs = iter(ctx.driver.run(reqs))
    for run in runs:
        case, hm, pos = run["case"], run["hm"], run["pos"]
        mode = "high_memory" if hm else "default"
        ctx.count("op:saving_run:" + mode)
        mo = next(outs)
        mr = next(outs) if run["files"] is not None else None
        mp = next(outs) if run["files"] is not None else None
        mold = next(outs) if run.get("files_old") is not None else None
        ctx.evaluations += 1
        ctx.traces_validated += 1
        small = {"case": case["id"], "high_memory": hm, "n_records": case["n_records"]}
        big = dict(small, chroms=case["chroms"], unmapped=case["unmapped"])
        if run["errA"] is not None:
            if not vlib.is_err(mo):
                ctx.disagree("saving_run", big, "model ran", {"error": run["errA"]})
            else:
                ctx.count("reuse:both_raise")
            continue
        if vlib.is_err(mo) or (isinstance(mo, dict) and "driver_error" in mo):
            ctx.disagree("saving_run", big, mo, "real run succeeded")
            continue
        # (1) the files, byte for byte
        if mo["files"] != run["files"]:
            which = "info" if mo["files"]["info"] != run["files"]["info"] else "chromosome files"
            ctx.disagree("collect_reads", big, {"differs": which, "model": mo["files"]}, run["files"])
        else:
            ctx.count("reuse:files_identical")
            if any(len(c["mm"]) > 8 for c in run["files"]["chrs"]):
                ctx.mark_nontrivial(["collect_reads", case["id"], hm])
        # (2) the saving run's own outputs
        why = compare(case, mo["run"], run["obsA"])
        if why:
            ctx.disagree("saving_run", big, {"why": why}, None)
        # (2p) read_assignments.tsv / corrected_reads.bed of the saving run and of the restart, line by line, against
        # `processSavedP` on the REAL saved files (`restart_prints_second_half`: both runs print from the same files)
        if mp is not None:
            ctx.count("op:print_saved:" + mode)
            ctx.evaluations += 1
            why = C15print.compare_printed(mp, run["printedA"])
            if why:
                ctx.disagree("print_saved", big, {"why": why, "run": "saving"}, None)
            elif run.get("printedB") is not None:
                hb = run["printedB"]["tsv"][:2]
                ok_head = len(hb) == 2 and hb[0].startswith("# Command line: ") and hb[1].startswith("# IsoQuant version: ")
                restB = {"tsv": run["printedA"]["tsv"][:2] + run["printedB"]["tsv"][2:], "bed": run["printedB"]["bed"]}
                why = C15print.compare_printed(mp, restB) if ok_head else "restart: unexpected header lines %r" % hb
                if why:
                    ctx.disagree("print_saved", big, {"why": why, "run": "restart"}, None)
                else:
                    ctx.count("reuse:printed_files_identical")
                    if len(run["printedA"]["tsv"]) > 3 and len(run["printedA"]["bed"]) > 1:
                        ctx.mark_nontrivial(["print_saved", case["id"], hm])
                    if any("Canonical=True" in l for l in run["printedA"]["tsv"]):
                        ctx.count("reuse:printed_canonical_true")
                    if any(":" in l.split("\t")[6] for l in run["printedA"]["tsv"][3:]):
                        ctx.count("reuse:printed_event_with_info")
        # (4) the restart on a save folder of the older format (`restart_on_old_info_file`)
        if mold is not None:
            ctx.count("op:restart_old_info_format")
            ctx.evaluations += 1
            ctx.traces_validated += 1
            if run["errO"] is not None:
                if not vlib.is_err(mold):
                    ctx.disagree("restart_old_format", big, "model ran", {"error": run["errO"]})
            elif vlib.is_err(mold) or (isinstance(mold, dict) and "driver_error" in mold):
                ctx.disagree("restart_old_format", big, mold, "real restart succeeded")
            else:
                why = compare(case, mold, run["obsO"])
                if why:
                    ctx.disagree("restart_old_format", big, {"why": why}, None)
                elif sum(case["unmapped"]) > 0:
                    ctx.mark_nontrivial(["restart_old_format", case["id"]])
        # (3) the restart on the REAL files
        ctx.count("op:process_saved:" + mode)
        ctx.evaluations += 1
        ctx.traces_validated += 1
        if run["errB"] is not None:
            if not vlib.is_err(mr):
                ctx.disagree("process_saved", big, "model ran", {"error": run["errB"]})
        elif vlib.is_err(mr) or (isinstance(mr, dict) and "driver_error" in mr):
            ctx.disagree("process_saved", big, mr, "real restart succeeded")
        else:
            why = compare(case, mr, run["obsB"])
            if why:
                ctx.disagree("process_saved", big, {"why": why}, None)
            else:
                dropped = sum(len(g["reads"]) for c in case["chroms"] for g in c["groups"]) - \
                    sum(len(c["records"]) for c in mr["out"]["chrs"])
                if dropped > 0 and any(v for _, v in mr["out"]["transcript"]["rows"]):
                    ctx.mark_nontrivial(["process_saved", case["id"], hm])
                if len(ctx.samples) < 10 and rng.random() < 0.2:
                    ctx.sample({"op": "process_saved", "case": case["id"], "high_memory": hm,
                                "records": case["n_records"], "dropped_by_verdicts": dropped,
                                "info": mr["info"], "transcript": mr["out"]["transcript"]})


# ------------------------------------------------------------------------------------------------
# oracle: the clause on the real code (no model involved)

def _lines(path):
    with open(path) as f:
        return sorted(l for l in f if not l.startswith("#"))


def diff_runs(outA, outB):
    """[(file suffix, first differing line of A, of B)] over the outputs both runs wrote"""
    fa, fb = outputs_of(outA), outputs_of(outB)
    diffs = []
    for k in sorted(set(fa) | set(fb)):
        if k not in fa or k not in fb:
            diffs.append((k, "present" if k in fa else "missing", "present" if k in fb else "missing"))
            continue
        la, lb = _lines(fa[k]), _lines(fb[k])
        if la != lb:
            x = next(((a, b) for a, b in zip(la, lb) if a != b), (str(len(la)), str(len(lb))))
            diffs.append((k, x[0].strip(), x[1].strip()))
    return diffs


def judge(case, B, high_memory):
    """-> list of (kind, detail) failures of the clause on the real code for this case"""
    fails = []
    run = run_case(None, case, B, high_memory)
    try:
        if run["errA"] is not None:
            return []                                   # nothing was saved: the clause does not apply
        if run["errB"] is not None:
            return [("reuse:restart_fails", "the run restarted from the saved files raised: %s" % run["errB"])]
        diffs = diff_runs(run["outA"], run["outB"])
        na = [d for d in diffs if d[1].startswith("__not_aligned") and d[2].startswith("__not_aligned")]
        other = [d for d in diffs if d not in na]
        if na:
            fails.append((NOT_ALIGNED_KIND, "%s: saving run `%s`, restarted run `%s`" % (na[0][0], na[0][1], na[0][2])))
        if other:
            fails.append(("reuse:outputs_differ", "; ".join("%s: `%s` vs `%s`" % d for d in other[:3])))
        # C05 / C08 at line level on the saving run's own files: corrected_reads.bed and read_assignments.tsv name the same reads
        pa = C15print.printed_files(run["outA"], outputs_of)
        fails += C15print.lines_check(pa["tsv"], pa["bed"])
        # a second restart from the same files, and the files themselves untouched
        before = read_files(run["prefix"], [c["name"] for c in case["chroms"]])
        outC, errC = real_restart(case, B, run["root"], run["prefix"], tag="C")
        if errC is not None:
            fails.append(("reuse:restart_fails", "second restart raised: %s" % errC))
        elif diff_runs(run["outB"], outC):
            fails.append(("reuse:second_restart_differs", str(diff_runs(run["outB"], outC)[:2])))
        try:
            after = read_files(run["prefix"], [c["name"] for c in case["chroms"]])
        except OSError as ex:
            after = None
            fails.append(("reuse:saved_files_gone", str(ex)))
        if after is not None and after != run["files"]:
            fails.append(("reuse:saved_files_modified", "a restart changed the saved files"))
        # both memory modes save the same files
        return fails
    finally:
        shutil.rmtree(run["root"], ignore_errors=True)


def memory_modes(case, B):
    """None or how the files saved with and without --high_memory differ (real code)"""
    a = run_case(None, case, B, False)
    b = run_case(None, case, B, True)
    try:
        if (a["errA"] is None) != (b["errA"] is None):
            return "one memory mode raises: default %s, high_memory %s" % (a["errA"], b["errA"])
        if a["errA"] is None and a["files"] != b["files"]:
            return "saved files differ between the memory modes (%s)" % (
                "info" if a["files"]["info"] != b["files"]["info"] else "dumps / multimapper files")
        if a["errA"] is None and diff_runs(a["outA"], b["outA"]):
            return "outputs differ between the memory modes: %s" % str(diff_runs(a["outA"], b["outA"])[:2])
        return None
    finally:
        shutil.rmtree(a["root"], ignore_errors=True)
        shutil.rmtree(b["root"], ignore_errors=True)


def shrink_case(case, fails, budget=40):
    """greedy: drop gene regions, then single records, while `fails(case)` stays true"""
    cur = case
    for level in ("groups", "reads"):
        progress = True
        while progress and budget > 0:
            progress = False
            for ci, c in enumerate(cur["chroms"]):
                for gi, g in enumerate(c["groups"]):
                    targets = [None] if level == "groups" else list(range(len(g["reads"])))
                    for ri in targets:
                        if budget <= 0:
                            return cur
                        cand = copy.deepcopy(cur)
                        if ri is None:
                            del cand["chroms"][ci]["groups"][gi]
                        else:
                            del cand["chroms"][ci]["groups"][gi]["reads"][ri]
                        budget -= 1
                        if fails(cand):
                            cur, progress = cand, True
                            break
                    if progress:
                        break
                if progress:
                    break
    return cur


def witness_case(B):
    """the input of `restart_not_aligned_witness`, on the real data: any saved experiment + unaligned reads"""
    import random
    c = gen_case(random.Random(5), B, "w")
    c["unmapped"] = [2, 3]
    return c


def oracle(ctx, disagreements, broken):
    rng = ctx.rng
    B = base(ctx.seed)
    if B.get("rc") != 0 or not B.get("db"):
        ctx.fail("reuse:base_run_failed", {"seed": ctx.seed}, B.get("log", "")[-300:])
        return
    todo = []
    for d in disagreements:
        if d["op"] in ("saving_run", "collect_reads", "process_saved") and isinstance(d.get("input"), dict) \
                and "chroms" in d["input"]:
            c = {"id": "d%s" % d["input"].get("case"), "chroms": d["input"]["chroms"],
                 "unmapped": d["input"].get("unmapped", [0]), "gene_strategy": "unique_only",
                 "transcript_strategy": "unique_only", "norm": "simple", "n_records": 0}
            if len(todo) < 6:
                todo.append((c, bool(d["input"].get("high_memory"))))
    n = 14 if ctx.tier == "quick" else 100
    for i in range(n):
        todo.append((gen_case(rng, B, "o%d" % i), rng.random() < 0.5))
    todo.append((witness_case(B), False))
    seen_na = False
    for case, hm in todo:
        ctx.count("oracle:reuse_case")
        for kind, detail in judge(case, B, hm):
            if kind == NOT_ALIGNED_KIND:
                if seen_na and case["id"] != "w":
                    ctx.count("oracle:not_aligned_again")
                    continue
                seen_na = True
                ctx.fail(kind, {"case": case, "high_memory": hm}, detail)
                continue
            small = shrink_case(case, lambda c, k=kind, h=hm: any(x == k for x, _ in judge(c, B, h)))
            ctx.fail(kind, {"case": small, "high_memory": hm}, detail)
            if len(ctx.failures) > 12:
                break
    # both memory modes of the saving run save the same files and print the same outputs
    mm_cases = [c for c, _ in todo if str(c["id"]).startswith("d")][:6]
    mm_cases += [gen_case(rng, B, "m%d" % i) for i in range(8 if ctx.tier == "quick" else 40)]
    for case in mm_cases:
        ctx.count("oracle:memory_modes_case")
        why = memory_modes(case, B)
        if why:
            small = shrink_case(case, lambda c: memory_modes(c, B) is not None)
            ctx.fail("reuse:memory_modes_differ", {"case": small}, memory_modes(small, B) or why)
            break


def replay(ctx, failure):
    B = base(ctx.seed)
    inp = failure["input"]
    if failure["kind"] == "reuse:memory_modes_differ":
        why = memory_modes(inp["case"], B)
        return {"reproduced": bool(why), "detail": why}
    fails = judge(inp["case"], B, bool(inp.get("high_memory")))
    hit = [f for f in fails if f[0] == failure["kind"]]
    return {"reproduced": bool(hit), "detail": hit[0][1] if hit else None}
