"""C15, reuse clause — correspondence of Model/Reuse.lean (`collectReads`, `processSaved`, `savingRun`, `restartRun`)
with the real code, and the clause itself on the real code, IN-PROCESS on generated saved files.

Real code that runs (nothing of /repo is edited; stubs are installed on module attributes and removed again):
  * SAVING run: the real command line goes through the real `parse_args` / `check_and_load_args` /
    `set_additional_params` / `run_pipeline` -> `DatasetProcessor.process_sample` of a BAM experiment.  Only
    `collect_reads_in_parallel` is replaced (the BAM intake and the assigner are other properties' subject): the stub
    feeds generated `GeneInfo` / `ReadAssignment` objects through the REAL `TmpFileAssignmentPrinter` and returns
    `processed_reads` the way the real function does in either memory mode; `pysam.AlignmentFile` is replaced for
    `count_unaligned_reads` (generated numbers of unaligned reads).  Everything else is real: `collect_reads` (list
    building of both memory modes, `prepare_multimapper_dict` over the REAL `BasicReadAssignmentLoader`,
    `resolve_multimappers`, the `_info` file), `load_read_info`, `process_assigned_reads` -> `construct_models_in_parallel`
    (multimapper reading loop, REAL `ReadAssignmentLoader` with `GeneInfo.deserialize` against a REAL gffutils
    database, printers, counters), `merge_assignments`.
  * RESTART: the real command line `--read_assignments <prefix>` through the same real entry points; nothing is stubbed.
The generated records are the records of a real pipeline run (synthetic 3-chromosome data set) with read ids, assignment
ids, multimapper / polyA flags, assignment types, isoform matches (within the genes of the record's gene info) and
penalties (not multiples of 2^-20) re-drawn, so that reads have several records on one and on several chromosomes.
"""
import collections
import copy
import logging
import os
import shutil
import types as _types
from fractions import Fraction

import vlib
from gen import serial as G
from props import C02
from props import C15print
from props import C15setup

NOT_ALIGNED_KIND = "reuse:not_aligned_lost"
COUNTING = ["unique_only", "with_ambiguous", "unique_splicing_consistent", "unique_inconsistent", "all"]
NORMS = ["simple", "usable_reads"]
UNASSIGNED = ("noninformative", "intergenic", "empty")
INCONSISTENT = ("inconsistent", "inconsistent_non_intronic", "inconsistent_ambiguous")
PENALTIES = [0.0, 0.1, 0.7, 1.5, 0.30000000000000004, 2.0000001, 0.5]
# --read_group of a generated experiment, given to the saving run AND to the restart (None = not given: an experiment
# of several files is then grouped by file name implicitly, set_data_dependent_options)
READ_GROUP_OPTS = [None, None, "file_name", "tag:CB", "read_id:_"]
TAG_GROUPS = ["cellA", "c\u00e9lB", "NA", "x y"]

_B = {}


def _c15():
    from props import C15
    return C15


def _mods():
    C15 = _c15()
    m = C15._impl()
    vlib.repo_on_path()
    import warnings
    with warnings.catch_warnings():
        warnings.simplefilter("ignore")
        import isoquant
    import src.stats as ST
    lg = logging.getLogger("IsoQuant")
    if not getattr(lg, "_c15reuse_quiet", False):
        lg.addHandler(logging.NullHandler())
        lg.propagate = False
        lg.setLevel(logging.CRITICAL + 1)
        lg._c15reuse_quiet = True
    return m, isoquant, ST


# ------------------------------------------------------------------------------------------------
# the base: one real pipeline run on synthetic data (annotation database, reference, realistic records)

def base(ctx_seed):
    if "dir" in _B:
        return _B
    import pipeline as P
    from gen import synth
    C15 = _c15()
    m, isoquant, ST = _mods()
    d = P.scratch("isoverif_c15r_")
    _B["dir"] = d
    ds = synth.simple_dataset(seed=ctx_seed % 1000 + 11, n_chroms=3, genes_per_chrom=2, reads_per_tx=4)
    paths = ds.write(os.path.join(d, "data"))
    outA = os.path.join(d, "base")
    rc, log = P.run_isoquant(outA, P.std_args(paths, extra=["--keep_tmp", "--no_model_construction"]),
                             home=os.path.join(d, "home"), timeout=200)
    _B.update(rc=rc, log=log[-800:], paths=paths, ds=ds)
    if rc != 0:
        return _B
    db = os.path.join(outA, "ann.db")
    if not os.path.exists(db):
        cands = [os.path.join(r, f) for r, _, fs in os.walk(d) for f in fs if f.endswith(".db")]
        db = cands[0] if cands else None
    _B["db"] = db
    names = list(ds.chroms)
    _B["names"] = names
    groups = {}
    for nm in names:
        path = os.path.join(outA, "S", "aux", "S.save_" + nm)
        g = C15.impl_load_stream(path, False)
        groups[nm] = [] if vlib.is_err(g) else g
    _B["groups"] = groups
    # the annotation as the gene database presents it: gene -> [(transcript, number of introns)], chromosome -> genes
    tx_of, genes_of, tr_chr = {}, collections.defaultdict(list), collections.defaultdict(list)
    for g in ds.genes:
        tx_of[g["gene_id"]] = [(tid, len(ex) - 1) for tid, ex in g["transcripts"]]
        genes_of[g["chr"]].append(g["gene_id"])
        tr_chr[g["chr"]] += [tid for tid, _ in g["transcripts"]]
    _B.update(tx_of=tx_of, genes_of=dict(genes_of), tr_chr=dict(tr_chr))
    return _B


def cleanup():
    C15print.reset_cache()
    d = _B.pop("dir", None)
    _B.clear()
    if d:
        shutil.rmtree(d, ignore_errors=True)


# ------------------------------------------------------------------------------------------------
# case generation

def _etype(E, name):
    m, _, _ = _mods()
    return m.IA.ReadAssignmentType[name].value


def gen_matches(rng, B, template, genes, atype):
    """isoform matches consistent with the assignment type, inside the genes of the record's gene info"""
    txs = [(g, t) for g in genes for t, _ in B["tx_of"].get(G.from_cps(g) if isinstance(g, list) else g, [])]
    base_m = template[0] if template else None

    def mk(g, t, pen):
        x = copy.deepcopy(base_m) if base_m else {"strand": G.cps("+"), "cls": 0, "events": []}
        x.update(gene=None if g is None else G.cps(g), tr=None if t is None else G.cps(t), pen=G.frac_of_float(pen))
        return x
    if atype in UNASSIGNED or not txs:
        return [] if rng.random() < 0.4 else [mk(None, None, 0.0)]
    pen = rng.choice(PENALTIES) if atype in INCONSISTENT else rng.choice([0.0, 0.1])
    if atype in ("ambiguous", "inconsistent_ambiguous") and len(txs) > 1:
        ch = rng.sample(txs, min(len(txs), rng.choice([2, 2, 3])))
    else:
        ch = [rng.choice(txs)]
    return [mk(g, t, pen) for g, t in ch]


def gtype_for(atype, ms):
    genes = {tuple(x["gene"]) for x in ms if x["gene"]}
    if atype in ("ambiguous",):
        return "unique" if len(genes) == 1 else "ambiguous"
    if atype == "inconsistent_ambiguous":
        return "inconsistent" if len(genes) == 1 else "inconsistent_ambiguous"
    return atype


def gen_case(rng, B, cid):
    m, _, _ = _mods()
    RAT = m.IA.ReadAssignmentType
    names = B["names"]
    pool = ["rd%d" % i for i in range(rng.randint(2, 14))] + (["réad"] if rng.random() < 0.3 else [])
    aid = rng.randint(1, 40)
    chroms = []
    n_rec = 0
    for nm in names:
        groups = []
        src = B["groups"][nm]
        for g in src:
            if rng.random() < 0.25:
                continue
            reads = []
            cand = list(g["reads"])
            rng.shuffle(cand)
            for j in cand[:rng.choice([0, 1, 2, 3, 4])]:
                r = copy.deepcopy(j)
                aid += rng.choice([1, 1, 2, 7])
                genes = [G.from_cps(x) for x in g["gene"]["genes"]]
                tname = rng.choice(["unique", "unique", "unique_minor_difference", "ambiguous", "inconsistent",
                                    "inconsistent_non_intronic", "inconsistent_ambiguous", "noninformative",
                                    "intergenic"])
                if not genes:
                    tname = rng.choice(["noninformative", "intergenic"])
                ms = gen_matches(rng, B, j["matches"], genes, tname)
                if tname in ("ambiguous", "inconsistent_ambiguous") and len(ms) < 2:
                    tname = "unique" if tname == "ambiguous" else "inconsistent"
                r.update(id=aid, read_id=G.cps(rng.choice(pool)), chr=G.cps(nm), atype=RAT[tname].value,
                         gtype=RAT[gtype_for(tname, ms)].value, matches=ms, group=G.cps("NA"),
                         flags=[rng.random() < 0.5, rng.random() < 0.3, bool(j["flags"][2])])
                if rng.random() < 0.2 and len(r["cexons"]) > 1:
                    r["cexons"] = r["cexons"][:1]           # unspliced corrected alignment: not confirming
                    r["cintrons"] = []
                if aid % 5 == 0 and r["exons"][0][0] > 600 and r["cexons"][0][0] > 600:
                    # a read reaching beyond the annotated gene (no rng draw): one more exon and intron upstream of the
                    # saved gene span - the loader has to widen the reference window (extend_reference_region, f48e223)
                    s0 = min(r["exons"][0][0], r["cexons"][0][0])
                    r["exons"] = [[s0 - 500, s0 - 400]] + r["exons"]
                    r["cexons"] = [[s0 - 500, s0 - 400]] + r["cexons"]
                    r["cintrons"] = G.junctions_from_blocks(r["cexons"])
                reads.append(r)
                if reads and rng.random() < 0.12:            # an `__eq__`-duplicate of the record just added
                    aid += 1
                    dup = copy.deepcopy(r)
                    dup.update(id=aid, flags=[rng.random() < 0.5, r["flags"][1], r["flags"][2]])
                    reads.append(dup)
            n_rec += len(reads)
            groups.append({"gene": g["gene"], "reads": reads})
        chroms.append({"name": nm, "groups": groups})
    case = {"id": cid, "chroms": chroms, "unmapped": [rng.choice([0, 0, 1, 3]) for _ in range(rng.choice([1, 1, 2, 2, 3]))],
            "gene_strategy": rng.choice(COUNTING), "transcript_strategy": rng.choice(COUNTING),
            "norm": rng.choice(NORMS), "n_records": n_rec,
            # read-level printers (props/C15print.py): the Canonical column on for every second case (no rng draw)
            "check_canonical": n_rec % 2 == 0,
            "read_group": rng.choice(READ_GROUP_OPTS)}
    # transcript model construction is ON for the experiments of several files (the technical-replicas check reads
    # the file count) and for every third other one (no rng draw)
    case["model_construction"] = len(case["unmapped"]) > 1 or n_rec % 3 == 0
    set_groups(case)
    return case


def effective_read_group(case):
    """`args.read_group` of the saving run after set_data_dependent_options (harness-side only to DRAW the groups the
    stubbed collector hands out; the model computes its own, `effectiveReadGroup`)"""
    if case.get("read_group") is None and len(case["unmapped"]) > 1:
        return "file_name"
    return case.get("read_group")


def file_label(i):
    return "f%d" % i            # FileNameGrouper: basename of the file without extension


def set_groups(case):
    """the read group of every record, as the grouper of the saving run's mode hands it out (no rng draw: by assignment id)"""
    eff = effective_read_group(case)
    nf = len(case["unmapped"])
    for c in case["chroms"]:
        for g in c["groups"]:
            for r in g["reads"]:
                if eff == "file_name":
                    r["group"] = G.cps(file_label(r["id"] % nf))
                elif eff is not None:
                    r["group"] = G.cps(TAG_GROUPS[r["id"] % len(TAG_GROUPS)])
                else:
                    r["group"] = G.cps("NA")


def groups_of_chrom(case, groups):
    """`read_grouper.read_groups` after a chromosome: DefaultReadGrouper starts with {'NA'}, the others with the empty set"""
    seen = {G.from_cps(r["group"]) for g in groups for r in g["reads"]}
    return seen | {"NA"} if effective_read_group(case) is None else seen


# ------------------------------------------------------------------------------------------------
# the model's view of a case

def strings_of(case):
    s = set()
    for c in case["chroms"]:
        for g in c["groups"]:
            for x in g["gene"]["genes"]:
                s.add(G.from_cps(x))
            for r in g["reads"]:
                s.add(G.from_cps(r["read_id"]))
                s.add(G.from_cps(r["chr"]))
                for x in r["matches"]:
                    for k in ("gene", "tr"):
                        if x[k] is not None:
                            s.add(G.from_cps(x[k]))
    return s


def env_of(case, B):
    """table: chromosome names first (their position is their number), then every other string in `str` order"""
    names = [c["name"] for c in case["chroms"]]
    rest = set(strings_of(case))
    for nm in names:
        rest |= set(B["genes_of"].get(nm, [])) | set(B["tr_chr"].get(nm, []))
    rest -= set(names)
    table = names + sorted(rest)
    pos = {s: i for i, s in enumerate(table)}
    derive = []
    seen = set()
    for c in case["chroms"]:
        for g in c["groups"]:
            key = tuple(tuple(x) for x in g["gene"]["genes"])
            if key in seen:
                continue
            seen.add(key)
            rows = [[pos[t], n] for x in g["gene"]["genes"] for t, n in B["tx_of"].get(G.from_cps(x), [])]
            derive.append([g["gene"]["genes"], rows])
    return table, pos, derive


def cfg_of(case, B, pos, high_memory):
    names = [c["name"] for c in case["chroms"]]
    return {"high_memory": high_memory, "gene_strategy": case["gene_strategy"],
            "transcript_strategy": case["transcript_strategy"], "norm": case["norm"],
            "complete_genes": [sorted(pos[g] for g in B["genes_of"].get(nm, [])) for nm in names],
            "complete_transcripts": [sorted(pos[t] for t in B["tr_chr"].get(nm, [])) for nm in names],
            "merge_order": vlib.model_merge_order(names)}


def j_chroms(case):
    return [{"name": G.cps(c["name"]), "groups": c["groups"]} for c in case["chroms"]]


def cmd_rg(case):
    return None if case.get("read_group") is None else G.cps(case["read_group"])


def info_groups(files):
    """the group list of a real `_info` file IN FILE ORDER (`list(all_read_groups)`: the order of a Python set is the
    interpreter's; the model takes the list as a parameter); None if the file cannot be parsed"""
    import io
    m, _, _ = _mods()
    try:
        inf = io.BytesIO(bytes.fromhex(files["info"]))
        m.S.read_int(inf)
        m.S.read_int(inf)
        return m.S.read_list(inf, m.S.read_string), inf.tell()
    except Exception:
        return None


def all_groups(case):
    s = set()
    for c in case["chroms"]:
        s |= groups_of_chrom(case, c["groups"])
    return s


def req_saving(case, B, high_memory, files=None):
    table, pos, derive = env_of(case, B)
    order = info_groups(files)[0] if files is not None and info_groups(files) else None
    want = all_groups(case)
    if order is None or set(order) != want or len(order) != len(want):
        order = sorted(want)
    return vlib.req("C15.saving_run", table=[G.cps(s) for s in table], derive=derive, cfg=cfg_of(case, B, pos, high_memory),
                    read_groups=[G.cps(s) for s in order], unmapped=case["unmapped"], chroms=j_chroms(case),
                    cmd_read_group=cmd_rg(case), other_replicas=False)


def req_restart(case, B, files):
    """`restartRunS` on the REAL files: the number of unaligned reads (fix cc73ffc) and the run set-up come from the
    `_info` bytes; the restart is given the saving run's --read_group option"""
    table, pos, derive = env_of(case, B)
    return vlib.req("C15.restart_run", table=[G.cps(s) for s in table], derive=derive, cfg=cfg_of(case, B, pos, False),
                    names=[G.cps(c["name"]) for c in case["chroms"]], files=files, cmd_read_group=cmd_rg(case))


# ------------------------------------------------------------------------------------------------
# the real runs

class _Stubs:
    """`collect_reads_in_parallel` replays the case through the real printer; `pysam.AlignmentFile(...).unmapped`"""

    def __init__(self, case, bam_names):
        self.case, self.bam_names = case, bam_names

    def __enter__(self):
        C15 = _c15()
        m, _, ST = _mods()
        DP, IA, AIO = m.DP, m.IA, m.AIO
        by_chr = {c["name"]: c["groups"] for c in self.case["chroms"]}
        case, bam_names = self.case, self.bam_names

        def fake_collect(sample_, chr_id, args_):
            save_file = "{}_{}".format(sample_.out_raw_file, chr_id)
            pr = AIO.TmpFileAssignmentPrinter(save_file, args_)
            processed = []
            try:
                for g in by_chr[chr_id]:
                    pr.add_gene_info(C15.mk_header(g["gene"]))
                    for j in g["reads"]:
                        ra = C15.mk_ra(j)
                        pr.add_read_info(ra)
                        processed.append(IA.BasicReadAssignment(ra) if args_.high_memory else ra.read_id)
            finally:
                pr.output_file.close()
                del pr
            return groups_of_chrom(case, by_chr[chr_id]), ST.EnumStats(), processed

        class FakeBam:
            def __init__(self, fname, *a, **kw):
                self.unmapped = case["unmapped"][bam_names.index(fname)] if fname in bam_names else 0

            def __enter__(self):
                return self

            def __exit__(self, *a):
                return False

            def get_index_statistics(self):
                return []               # no alignment on a sequence outside the reference (warn_about_skipped_sequences, fix b09aace)

            def close(self):
                pass

        self.saved = (DP.collect_reads_in_parallel, DP.pysam)
        DP.collect_reads_in_parallel = fake_collect
        DP.pysam = _types.SimpleNamespace(AlignmentFile=FakeBam)
        return self

    def __exit__(self, *a):
        m, _, _ = _mods()
        m.DP.collect_reads_in_parallel, m.DP.pysam = self.saved


def _run_cli(cmd, home, probe=None):
    """the real entry points of isoquant.py, in this process (no logger set-up); returns None or the exception name.
    `probe`: list that receives the set-up every experiment's second half started under (C15setup.SetupProbe)"""
    m, isoquant, _ = _mods()
    old_home = os.environ.get("HOME")
    os.environ["HOME"] = home
    try:
        args, parser = isoquant.parse_args(cmd)
        args = isoquant.check_and_load_args(args, parser)
        isoquant.create_output_dirs(args)
        isoquant.set_additional_params(args)
        with C15setup.SetupProbe(m.DP) as sp:
            try:
                isoquant.run_pipeline(args)
            finally:
                if probe is not None:
                    probe.extend(sp.seen)
        return None
    except SystemExit as ex:
        return "SystemExit(%s)" % ex.code
    except Exception as ex:       # the real pipeline raised: an error of the run
        return type(ex).__name__ + ": " + str(ex)[:200]
    finally:
        if old_home is not None:
            os.environ["HOME"] = old_home


def common_opts(case, B):
    """the options BOTH runs are given (everything but the input option)"""
    return ["--threads", "1", "--reference", B["paths"]["ref"], "--data_type", "nanopore", "-p", "S", "--no_gzip",
            "--genedb", B["db"], "--complete_genedb",
            "--gene_quantification", case["gene_strategy"], "--transcript_quantification", case["transcript_strategy"],
            "--normalization_method", case["norm"]] + (["--check_canonical"] if case.get("check_canonical") else []) + \
        ([] if case.get("model_construction") else ["--no_model_construction"]) + \
        (["--read_group", case["read_group"]] if case.get("read_group") is not None else [])


def real_saving_run(case, B, root, high_memory):
    """-> (outdir, prefix of the saved files, error|None)"""
    out = os.path.join(root, "A")
    # one real (indexed) BAM path per generated file: the names only reach the stubbed pysam
    bams = []
    for i in range(len(case["unmapped"])):
        p = os.path.join(root, "f%d.bam" % i)
        shutil.copy(B["paths"]["bam"], p)
        shutil.copy(B["paths"]["bam"] + ".bai", p + ".bai")
        bams.append(p)
    cmd = ["--output", out, "--bam"] + bams + common_opts(case, B) + ["--keep_tmp"] + (["--high_memory"] if high_memory else [])
    probe = []
    with _Stubs(case, bams):
        err = _run_cli(cmd, os.path.join(B["dir"], "home"), probe)
    return out, os.path.join(out, "S", "aux", "S.save"), err, probe


def real_restart(case, B, root, prefix, tag="B"):
    """the restart is given EXACTLY the options of the saving run, the input option aside (no hand-over of what
    the saving run derived from its input files: that is what the saved files are for)"""
    out = os.path.join(root, tag)
    cmd = ["--output", out, "--read_assignments", prefix] + common_opts(case, B)
    probe = []
    err = _run_cli(cmd, os.path.join(B["dir"], "home"), probe)
    return out, err, probe


def read_files(prefix, names):
    def rd(p):
        with open(p, "rb") as f:
            return f.read().hex()
    return {"info": rd(prefix + "_info"),
            "chrs": [{"save": rd("%s_%s" % (prefix, nm)), "mm": rd("%s_multimappers_%s" % (prefix, nm))} for nm in names]}


def outputs_of(outdir, subs=("S", "S0")):
    """{suffix: path} of the experiment folder of a run (`S` for a BAM run, `S0` for a restart, `S<i>` for the i-th
    prefix of a restart from several prefixes)"""
    for sub in subs:
        d = os.path.join(outdir, sub)
        if os.path.isdir(d):
            return {fn[len(sub) + 1:]: os.path.join(d, fn) for fn in sorted(os.listdir(d)) if os.path.isfile(os.path.join(d, fn))}
    return {}


def observed(outdir, pos, subs=("S", "S0")):
    """the outputs `downstream` models, parsed from the files of a real run"""
    fs = outputs_of(outdir, subs)
    res = {}
    for lvl in ("gene", "transcript"):
        rows, stats = C02.parse_counts_file(fs["%s_counts.tsv" % lvl])
        trows, un = C02.parse_tpm_file(fs["%s_tpm.tsv" % lvl])
        res[lvl] = {"rows": [[pos.get(f, -1), v] for f, v in rows],
                    "stats": [stats.get("__ambiguous"), stats.get("__no_feature"), stats.get("__not_aligned")]}
        res[lvl + "_tpm"] = {"tpm": [[pos.get(f, -1), v] for f, v in trows], "unassigned": un}
    bed = collections.Counter()
    with open(fs["corrected_reads.bed"]) as f:
        for l in f:
            if l.startswith("#"):
                continue
            p = l.rstrip("\n").split("\t")
            bed[(p[3], p[0], int(p[1]), int(p[2]))] += 1
    tsv = set()
    with open(fs["read_assignments.tsv"]) as f:
        for l in f:
            if l.startswith("#"):
                continue
            p = l.rstrip("\n").split("\t")
            tsv.add((p[0], p[1], p[7], p[5]))
    res["bed"], res["tsv"] = bed, tsv
    return res


def predicted(case, mo):
    """the same observables from the model's answer (`C15.process_saved` / the `run` part of `C15.saving_run`)"""
    by_aid = {}
    for c in case["chroms"]:
        for g in c["groups"]:
            for r in g["reads"]:
                by_aid[r["id"]] = r
    out = mo["out"]
    bed, tsv = collections.Counter(), set()
    for c in out["chrs"]:
        for p in c["records"]:
            r = by_aid[p["rec"]["aid"]]
            rid, chrom = G.from_cps(r["read_id"]), G.from_cps(r["chr"])
            ce = r["cexons"]
            bed[(rid, chrom, ce[0][0] - 1, ce[-1][1])] += 1
            tsv.add((rid, chrom, ",".join("%d-%d" % (a, b) for a, b in r["exons"]), p["rec"]["atype"]))
    res = {"bed": bed, "tsv": tsv}
    for lvl in ("gene", "transcript"):
        res[lvl] = {"rows": out[lvl]["rows"], "stats": out[lvl]["stats"][:3]}
        res[lvl + "_tpm"] = out[lvl + "_tpm"]
    return res


def grouped_tables(outdir, subs=("S", "S0")):
    """does the experiment folder of a real run hold grouped tables?"""
    return any("_grouped_" in k for k in outputs_of(outdir, subs))


def compare_setup(model, probe, grouped, index=0):
    """None, or how the set-up of a real run (`probe`: what C15setup.SetupProbe recorded, one entry per experiment;
    `grouped`: grouped tables were written) differs from the model's `Setup`"""
    if model is None:
        return "the model's answer carries no set-up"
    if not probe or len(probe) <= index:
        return "the real run never reached process_assigned_reads of experiment %d" % index
    real = probe[index]
    mrg = None if model["read_group"] is None else G.from_cps(model["read_group"])
    if (mrg or None) != (real["read_group"] or None):
        return "args.read_group: model %r, real run %r" % (mrg, real["read_group"])
    if model["use_technical_replicas"] != real["use_technical_replicas"]:
        return "args.use_technical_replicas: model %s, real run %s" % (model["use_technical_replicas"], real["use_technical_replicas"])
    if model["grouped_tables"] != grouped:
        return "grouped tables written: model %s, real run %s" % (model["grouped_tables"], grouped)
    return None


def compare(case, mo, obs):
    if isinstance(mo, dict) and "driver_error" in mo:
        return "driver error: %s" % str(mo)[:200]
    pred = predicted(case, mo)
    if pred["bed"] != obs["bed"]:
        return "loaded records (corrected_reads.bed): model-only %s, real-only %s" % (
            list((pred["bed"] - obs["bed"]).items())[:3], list((obs["bed"] - pred["bed"]).items())[:3])
    if pred["tsv"] != obs["tsv"]:
        return "assignment types (read_assignments.tsv): model-only %s, real-only %s" % (
            sorted(pred["tsv"] - obs["tsv"])[:3], sorted(obs["tsv"] - pred["tsv"])[:3])
    for lvl in ("gene", "transcript"):
        if pred[lvl] != obs[lvl]:
            return "%s counts: model %s real %s" % (lvl, pred[lvl], obs[lvl])
        why = C02.same_tpm(pred[lvl + "_tpm"], obs[lvl + "_tpm"])
        if why:
            return "%s TPM: %s" % (lvl, why)
    return None


# ------------------------------------------------------------------------------------------------
# several prefixes: `--read_assignments P0 P1`, one experiment per prefix (Model/Reuse.lean `restartAllS`)

def gen_pair(rng, B, cid):
    """two experiments saved by two BAM runs with the SAME options and no --read_group - one of several files (grouped by
    file name implicitly), one of a single file (not grouped) - in either order"""
    a, b = gen_case(rng, B, "%sa" % cid), gen_case(rng, B, "%sb" % cid)
    for k in ("gene_strategy", "transcript_strategy", "norm", "check_canonical"):
        b[k] = a[k]
    several = [rng.choice([0, 1, 3]) for _ in range(rng.choice([2, 3]))]
    single = [rng.choice([0, 2])]
    a["unmapped"], b["unmapped"] = (several, single) if rng.random() < 0.6 else (single, several)
    for c in (a, b):
        c["read_group"] = None
        c["model_construction"] = True
        set_groups(c)
    return [a, b]


def run_pair(pair, B, high_memory=False):
    """both saving runs, then ONE real restart from both prefixes -> dict"""
    root = os.path.join(B["dir"], "pair_%s" % pair[0]["id"])
    shutil.rmtree(root, ignore_errors=True)
    res = {"root": root, "saving": [], "errR": None, "outR": None, "setupR": []}
    for i, case in enumerate(pair):
        sub = os.path.join(root, "e%d" % i)
        os.makedirs(sub)
        out, prefix, err, probe = real_saving_run(case, B, sub, high_memory)
        files = read_files(prefix, [c["name"] for c in case["chroms"]]) if err is None else None
        res["saving"].append({"out": out, "prefix": prefix, "err": err, "setup": probe, "files": files})
    if all(x["err"] is None for x in res["saving"]):
        out = os.path.join(root, "R")
        cmd = ["--output", out, "--read_assignments"] + [x["prefix"] for x in res["saving"]] + common_opts(pair[0], B)
        probe = []
        res["errR"] = _run_cli(cmd, os.path.join(B["dir"], "home"), probe)
        res["outR"], res["setupR"] = out, probe
    return res


def req_restart_all(pair, B, files_list):
    names = [c["name"] for c in pair[0]["chroms"]]
    # one interning table for both experiments: the strings of both
    rest = set()
    for case in pair:
        rest |= set(strings_of(case))
    for nm in names:
        rest |= set(B["genes_of"].get(nm, [])) | set(B["tr_chr"].get(nm, []))
    rest -= set(names)
    table = names + sorted(rest)
    pos = {s: i for i, s in enumerate(table)}
    derive, seen = [], set()
    for case in pair:
        for c in case["chroms"]:
            for g in c["groups"]:
                key = tuple(tuple(x) for x in g["gene"]["genes"])
                if key in seen:
                    continue
                seen.add(key)
                derive.append([g["gene"]["genes"], [[pos[t], n] for x in g["gene"]["genes"]
                                                    for t, n in B["tx_of"].get(G.from_cps(x), [])]])
    return pos, vlib.req("C15.restart_all", table=[G.cps(s) for s in table], derive=derive,
                         cfg=cfg_of(pair[0], B, pos, False), cmd_read_group=None,
                         experiments=[{"names": [G.cps(n) for n in names], "files": f} for f in files_list])


def pairs_correspondence(ctx, B):
    rng = ctx.rng
    n = 6 if ctx.tier == "quick" else 40
    runs, reqs = [], []
    for i in range(n):
        pair = gen_pair(rng, B, "p%d" % i)
        run = run_pair(pair, B)
        run["pair"] = pair
        if run["outR"] and run["errR"] is None:
            pos, rq = req_restart_all(pair, B, [x["files"] for x in run["saving"]])
            run["obs"] = [observed(run["outR"], pos, ("S%d" % k,)) for k in range(2)]
            run["grouped"] = [grouped_tables(run["outR"], ("S%d" % k,)) for k in range(2)]
            reqs.append(rq)
            run["asked"] = True
        elif run["outR"]:
            pos, rq = req_restart_all(pair, B, [x["files"] for x in run["saving"]])
            reqs.append(rq)
            run["asked"] = True
        shutil.rmtree(run["root"], ignore_errors=True)
        runs.append(run)
    outs = iter(ctx.driver.run(reqs))
    for run in runs:
        pair = run["pair"]
        small = {"pair": pair[0]["id"], "files": [len(c["unmapped"]) for c in pair]}
        ctx.count("op:restart_all")
        ctx.evaluations += 1
        if not run.get("asked"):
            ctx.count("reuse:pair_not_saved")
            continue
        mo = next(outs)
        ctx.traces_validated += 1
        if run["errR"] is not None:
            if not all(vlib.is_err(x) for x in mo):
                ctx.disagree("restart_all", small, "model ran", {"error": run["errR"]})
            continue
        bad = None
        for k, case in enumerate(pair):
            if vlib.is_err(mo[k]) or "driver_error" in mo[k]:
                bad = "experiment %d: model raises, real restart ran" % k
                break
            bad = compare(case, mo[k], run["obs"][k]) or compare_setup(mo[k].get("setup"), run["setupR"], run["grouped"][k], k)
            if bad:
                bad = "experiment %d: %s" % (k, bad)
                break
        if bad:
            ctx.disagree("restart_all", small, {"why": bad}, None)
        else:
            ctx.mark_nontrivial(["restart_all", pair[0]["id"]])


def judge_pair(pair, B):
    """the clause for a restart from two prefixes, on the real code: experiment i of the restart = the run that saved prefix i"""
    run = run_pair(pair, B)
    try:
        if any(x["err"] is not None for x in run["saving"]):
            return []
        if run["errR"] is not None:
            return [("reuse:restart_fails", "--read_assignments P0 P1 raised: %s" % run["errR"])]
        fails = []
        for k in range(2):
            d = diff_runs(run["saving"][k]["out"], run["outR"], ("S%d" % k,))
            if d:
                fails.append(("reuse:prefixes_differ", "experiment S%d of the restart vs the run that saved its prefix (%d file(s) of "
                              "input): %s" % (k, len(pair[k]["unmapped"]), "; ".join("%s: `%s` vs `%s`" % x for x in d[:3]))))
                break
        return fails
    finally:
        shutil.rmtree(run["root"], ignore_errors=True)


# ------------------------------------------------------------------------------------------------
# correspondence

def run_case(ctx, case, B, high_memory, keep=None, old_format=False):
    """one real saving run + one real restart; returns dict(files, errA, errB, outA, outB, root)"""
    root = os.path.join(B["dir"], "case_%s_%d" % (case["id"], int(high_memory)))
    shutil.rmtree(root, ignore_errors=True)
    os.makedirs(root)
    outA, prefix, errA, setupA = real_saving_run(case, B, root, high_memory)
    res = {"root": root, "outA": outA, "errA": errA, "prefix": prefix, "files": None, "outB": None, "errB": None,
           "setupA": setupA}
    if errA is None:
        names = [c["name"] for c in case["chroms"]]
        res["files"] = read_files(prefix, names)
        res["outB"], res["errB"], res["setupB"] = real_restart(case, B, root, prefix)
        if old_format:
            # a save folder of an older format: `_info` cut after the read groups (before fix cc73ffc; old_format = 1) or
            # after the number of unaligned reads (before the run set-up was stored; old_format = 2)
            with open(prefix + "_info", "rb") as f:
                data = f.read()
            head = info_groups(res["files"])
            cut = len(data) if head is None else min(len(data), head[1] + (0 if old_format == 1 else 4))
            with open(prefix + "_info", "wb") as f:
                f.write(data[:cut])
            res["files_old"] = read_files(prefix, names)
            res["outO"], res["errO"], res["setupO"] = real_restart(case, B, root, prefix, tag="O")
            with open(prefix + "_info", "wb") as f:
                f.write(data)
    return res


def correspondence(ctx):
    rng = ctx.rng
    quick = ctx.tier == "quick"
    B = base(ctx.seed)
    if B.get("rc") != 0 or not B.get("db"):
        ctx.notes.append("C15 reuse: base pipeline run failed (rc=%s): %s" % (B.get("rc"), B.get("log", "")[-300:]))
        ctx.disagree("reuse:base_run", {"seed": ctx.seed}, None, {"rc": B.get("rc")})
        return
    n = 30 if quick else 250
    cases = [gen_case(rng, B, i) for i in range(n)]
    ctx.extra["reuse_cases"] = n
    # phase 1: the real runs
    runs = []
    for case in cases:
        table, pos, derive = env_of(case, B)
        for hm in (False, True):
            run = run_case(ctx, case, B, hm, old_format=(0 if hm or case["id"] % 3 else 1 + (case["id"] // 3) % 2))
            run.update(case=case, hm=hm, pos=pos)
            if run["errA"] is None:
                run["obsA"] = observed(run["outA"], pos)
                run["printedA"] = C15print.printed_files(run["outA"], outputs_of)
                if run["errB"] is None:
                    run["obsB"] = observed(run["outB"], pos)
                    run["printedB"] = C15print.printed_files(run["outB"], outputs_of)
                if run.get("files_old") is not None and run["errO"] is None:
                    run["obsO"] = observed(run["outO"], pos)
            for t in "ABO":
                if run.get("out" + t):
                    run["grouped" + t] = grouped_tables(run["out" + t])
            shutil.rmtree(run["root"], ignore_errors=True)
            runs.append(run)
    # phase 2: the model, one driver batch
    reqs = []
    for run in runs:
        reqs.append(req_saving(run["case"], B, run["hm"], run["files"]))
        if run["files"] is not None:
            reqs.append(req_restart(run["case"], B, run["files"]))
            reqs.append(C15print.req_print_saved(run["case"], B, env_of(run["case"], B), run["files"],
                                                 run["printedA"]["tsv"][:2], bool(run["case"].get("check_canonical"))))
        if run.get("files_old") is not None:
            reqs.append(req_restart(run["case"], B, run["files_old"]))
    outs = iter(ctx.driver.run(reqs))
    for run in runs:
        case, hm, pos = run["case"], run["hm"], run["pos"]
        mode = "high_memory" if hm else "default"
        ctx.count("op:saving_run:" + mode)
        mo = next(outs)
        mr = next(outs) if run["files"] is not None else None
        mp = next(outs) if run["files"] is not None else None
        mold = next(outs) if run.get("files_old") is not None else None
        ctx.evaluations += 1
        ctx.traces_validated += 1
        small = {"case": case["id"], "high_memory": hm, "n_records": case["n_records"]}
        big = dict(small, chroms=case["chroms"], unmapped=case["unmapped"], read_group=case.get("read_group"),
                   model_construction=bool(case.get("model_construction")))
        if run["errA"] is not None:
            if not vlib.is_err(mo):
                ctx.disagree("saving_run", big, "model ran", {"error": run["errA"]})
            else:
                ctx.count("reuse:both_raise")
            continue
        if vlib.is_err(mo) or (isinstance(mo, dict) and "driver_error" in mo):
            ctx.disagree("saving_run", big, mo, "real run succeeded")
            continue
        # (1) the files, byte for byte
        if mo["files"] != run["files"]:
            which = "info" if mo["files"]["info"] != run["files"]["info"] else "chromosome files"
            ctx.disagree("collect_reads", big, {"differs": which, "model": mo["files"]}, run["files"])
        else:
            ctx.count("reuse:files_identical")
            if any(len(c["mm"]) > 8 for c in run["files"]["chrs"]):
                ctx.mark_nontrivial(["collect_reads", case["id"], hm])
        # (2) the saving run's own outputs
        why = compare(case, mo["run"], run["obsA"])
        if why:
            ctx.disagree("saving_run", big, {"why": why}, None)
        # (2s) the set-up the second half of the real run started under == the model's `savingSetup`
        ctx.count("op:setup:saving:%s:%d_files" % (case.get("read_group"), len(case["unmapped"])))
        ctx.evaluations += 1
        why = compare_setup(mo["run"].get("setup"), run.get("setupA"), run.get("groupedA"))
        if why:
            ctx.disagree("setup", dict(small, read_group=case.get("read_group"), files=len(case["unmapped"]), run="saving"),
                         mo["run"].get("setup"), {"why": why})
        elif mo["run"]["setup"]["use_technical_replicas"] or mo["run"]["setup"]["grouped_tables"]:
            ctx.mark_nontrivial(["setup_saving", case["id"], hm])
        # (2p) read_assignments.tsv / corrected_reads.bed of the saving run and of the restart, line by line, against
        # `processSavedP` on the REAL saved files (`restart_prints_second_half`: both runs print from the same files)
        if mp is not None:
            ctx.count("op:print_saved:" + mode)
            ctx.evaluations += 1
            why = C15print.compare_printed(mp, run["printedA"])
            if why:
                ctx.disagree("print_saved", big, {"why": why, "run": "saving"}, None)
            elif run.get("printedB") is not None:
                hb = run["printedB"]["tsv"][:2]
                ok_head = len(hb) == 2 and hb[0].startswith("# Command line: ") and hb[1].startswith("# IsoQuant version: ")
                restB = {"tsv": run["printedA"]["tsv"][:2] + run["printedB"]["tsv"][2:], "bed": run["printedB"]["bed"]}
                why = C15print.compare_printed(mp, restB) if ok_head else "restart: unexpected header lines %r" % hb
                if why:
                    ctx.disagree("print_saved", big, {"why": why, "run": "restart"}, None)
                else:
                    ctx.count("reuse:printed_files_identical")
                    if len(run["printedA"]["tsv"]) > 3 and len(run["printedA"]["bed"]) > 1:
                        ctx.mark_nontrivial(["print_saved", case["id"], hm])
                    if any("Canonical=True" in l for l in run["printedA"]["tsv"]):
                        ctx.count("reuse:printed_canonical_true")
                    if any(":" in l.split("\t")[6] for l in run["printedA"]["tsv"][3:]):
                        ctx.count("reuse:printed_event_with_info")
        # (4) the restart on a save folder of the older format (`restart_on_old_info_file`)
        if mold is not None:
            ctx.count("op:restart_old_info_format")
            ctx.evaluations += 1
            ctx.traces_validated += 1
            if run["errO"] is not None:
                if not vlib.is_err(mold):
                    ctx.disagree("restart_old_format", big, "model ran", {"error": run["errO"]})
            elif vlib.is_err(mold) or (isinstance(mold, dict) and "driver_error" in mold):
                ctx.disagree("restart_old_format", big, mold, "real restart succeeded")
            else:
                why = compare(case, mold, run["obsO"]) or \
                    compare_setup(mold.get("setup"), run.get("setupO"), run.get("groupedO"))
                if why:
                    ctx.disagree("restart_old_format", big, {"why": why}, None)
                elif sum(case["unmapped"]) > 0:
                    ctx.mark_nontrivial(["restart_old_format", case["id"]])
        # (3) the restart on the REAL files
        ctx.count("op:process_saved:" + mode)
        ctx.evaluations += 1
        ctx.traces_validated += 1
        if run["errB"] is not None:
            if not vlib.is_err(mr):
                ctx.disagree("process_saved", big, "model ran", {"error": run["errB"]})
        elif vlib.is_err(mr) or (isinstance(mr, dict) and "driver_error" in mr):
            ctx.disagree("process_saved", big, mr, "real restart succeeded")
        else:
            why = compare(case, mr, run["obsB"])
            ws = compare_setup(mr.get("setup"), run.get("setupB"), run.get("groupedB"))
            ctx.count("op:setup:restart")
            ctx.evaluations += 1
            if ws:
                ctx.disagree("setup", dict(small, read_group=case.get("read_group"), files=len(case["unmapped"]), run="restart"),
                             mr.get("setup"), {"why": ws})
            elif mr["setup"]["use_technical_replicas"] or mr["setup"]["grouped_tables"]:
                ctx.mark_nontrivial(["setup_restart", case["id"], hm])
            if why:
                ctx.disagree("process_saved", big, {"why": why}, None)
            else:
                dropped = sum(len(g["reads"]) for c in case["chroms"] for g in c["groups"]) - \
                    sum(len(c["records"]) for c in mr["out"]["chrs"])
                if dropped > 0 and any(v for _, v in mr["out"]["transcript"]["rows"]):
                    ctx.mark_nontrivial(["process_saved", case["id"], hm])
                if len(ctx.samples) < 10 and rng.random() < 0.2:
                    ctx.sample({"op": "process_saved", "case": case["id"], "high_memory": hm,
                                "records": case["n_records"], "dropped_by_verdicts": dropped,
                                "info": mr["info"], "transcript": mr["out"]["transcript"]})
    # several prefixes on one command line
    pairs_correspondence(ctx, B)


# ------------------------------------------------------------------------------------------------
# oracle: the clause on the real code (no model involved)

def _lines(path):
    with open(path) as f:
        return sorted(l for l in f if not l.startswith("#"))


def diff_runs(outA, outB, subsB=("S", "S0")):
    """[(file suffix, first differing line of A, of B)] over the outputs both runs wrote"""
    fa, fb = outputs_of(outA), outputs_of(outB, subsB)
    diffs = []
    for k in sorted(set(fa) | set(fb)):
        if k not in fa or k not in fb:
            diffs.append((k, "present" if k in fa else "missing", "present" if k in fb else "missing"))
            continue
        la, lb = _lines(fa[k]), _lines(fb[k])
        if la != lb:
            x = next(((a, b) for a, b in zip(la, lb) if a != b), (str(len(la)), str(len(lb))))
            diffs.append((k, x[0].strip(), x[1].strip()))
    return diffs


def judge(case, B, high_memory):
    """-> list of (kind, detail) failures of the clause on the real code for this case"""
    fails = []
    run = run_case(None, case, B, high_memory)
    try:
        if run["errA"] is not None:
            return []                                   # nothing was saved: the clause does not apply
        if run["errB"] is not None:
            return [("reuse:restart_fails", "the run restarted from the saved files raised: %s" % run["errB"])]
        diffs = diff_runs(run["outA"], run["outB"])
        na = [d for d in diffs if d[1].startswith("__not_aligned") and d[2].startswith("__not_aligned")]
        other = [d for d in diffs if d not in na]
        if na:
            fails.append((NOT_ALIGNED_KIND, "%s: saving run `%s`, restarted run `%s`" % (na[0][0], na[0][1], na[0][2])))
        if other:
            fails.append(("reuse:outputs_differ", "; ".join("%s: `%s` vs `%s`" % d for d in other[:3])))
        # C05 / C08 at line level on the saving run's own files: corrected_reads.bed and read_assignments.tsv name the same reads
        pa = C15print.printed_files(run["outA"], outputs_of)
        fails += C15print.lines_check(pa["tsv"], pa["bed"])
        # a second restart from the same files, and the files themselves untouched
        before = read_files(run["prefix"], [c["name"] for c in case["chroms"]])
        outC, errC, _ = real_restart(case, B, run["root"], run["prefix"], tag="C")
        if errC is not None:
            fails.append(("reuse:restart_fails", "second restart raised: %s" % errC))
        elif diff_runs(run["outB"], outC):
            fails.append(("reuse:second_restart_differs", str(diff_runs(run["outB"], outC)[:2])))
        try:
            after = read_files(run["prefix"], [c["name"] for c in case["chroms"]])
        except OSError as ex:
            after = None
            fails.append(("reuse:saved_files_gone", str(ex)))
        if after is not None and after != run["files"]:
            fails.append(("reuse:saved_files_modified", "a restart changed the saved files"))
        # both memory modes save the same files
        return fails
    finally:
        shutil.rmtree(run["root"], ignore_errors=True)


def memory_modes(case, B):
    """None or how the files saved with and without --high_memory differ (real code)"""
    a = run_case(None, case, B, False)
    b = run_case(None, case, B, True)
    try:
        if (a["errA"] is None) != (b["errA"] is None):
            return "one memory mode raises: default %s, high_memory %s" % (a["errA"], b["errA"])
        if a["errA"] is None and a["files"] != b["files"]:
            return "saved files differ between the memory modes (%s)" % (
                "info" if a["files"]["info"] != b["files"]["info"] else "dumps / multimapper files")
        if a["errA"] is None and diff_runs(a["outA"], b["outA"]):
            return "outputs differ between the memory modes: %s" % str(diff_runs(a["outA"], b["outA"])[:2])
        return None
    finally:
        shutil.rmtree(a["root"], ignore_errors=True)
        shutil.rmtree(b["root"], ignore_errors=True)


def shrink_case(case, fails, budget=40):
    """greedy: drop gene regions, then single records, while `fails(case)` stays true"""
    cur = case
    for level in ("groups", "reads"):
        progress = True
        while progress and budget > 0:
            progress = False
            for ci, c in enumerate(cur["chroms"]):
                for gi, g in enumerate(c["groups"]):
                    targets = [None] if level == "groups" else list(range(len(g["reads"])))
                    for ri in targets:
                        if budget <= 0:
                            return cur
                        cand = copy.deepcopy(cur)
                        if ri is None:
                            del cand["chroms"][ci]["groups"][gi]
                        else:
                            del cand["chroms"][ci]["groups"][gi]["reads"][ri]
                        budget -= 1
                        if fails(cand):
                            cur, progress = cand, True
                            break
                    if progress:
                        break
                if progress:
                    break
    return cur


def witness_case(B):
    """the input of `restart_not_aligned_witness`, on the real data: any saved experiment + unaligned reads"""
    import random
    c = gen_case(random.Random(5), B, "w")
    c["unmapped"] = [2, 3]
    # ... and of `restart_setup_lost_witness`: two files, no --read_group (grouping by file name is implicit)
    c["read_group"] = None
    c["model_construction"] = True
    set_groups(c)
    return c


def oracle(ctx, disagreements, broken):
    rng = ctx.rng
    B = base(ctx.seed)
    if B.get("rc") != 0 or not B.get("db"):
        ctx.fail("reuse:base_run_failed", {"seed": ctx.seed}, B.get("log", "")[-300:])
        return
    todo = []
    for d in disagreements:
        if d["op"] in ("saving_run", "collect_reads", "process_saved") and isinstance(d.get("input"), dict) \
                and "chroms" in d["input"]:
            c = {"id": "d%s" % d["input"].get("case"), "chroms": d["input"]["chroms"],
                 "unmapped": d["input"].get("unmapped", [0]), "gene_strategy": "unique_only",
                 "transcript_strategy": "unique_only", "norm": "simple", "n_records": 0,
                 "read_group": d["input"].get("read_group"), "model_construction": bool(d["input"].get("model_construction"))}
            if len(todo) < 6:
                todo.append((c, bool(d["input"].get("high_memory"))))
    n = 14 if ctx.tier == "quick" else 100
    for i in range(n):
        todo.append((gen_case(rng, B, "o%d" % i), rng.random() < 0.5))
    todo.append((witness_case(B), False))
    seen_na = False
    for case, hm in todo:
        ctx.count("oracle:reuse_case")
        for kind, detail in judge(case, B, hm):
            if kind == NOT_ALIGNED_KIND:
                if seen_na and case["id"] != "w":
                    ctx.count("oracle:not_aligned_again")
                    continue
                seen_na = True
                ctx.fail(kind, {"case": case, "high_memory": hm}, detail)
                continue
            small = shrink_case(case, lambda c, k=kind, h=hm: any(x == k for x, _ in judge(c, B, h)))
            ctx.fail(kind, {"case": small, "high_memory": hm}, detail)
            if len(ctx.failures) > 12:
                break
    # several prefixes: every experiment of the restart reproduces the run that saved ITS prefix
    for i in range(4 if ctx.tier == "quick" else 30):
        pair = gen_pair(rng, B, "q%d" % i)
        ctx.count("oracle:reuse_pair")
        for kind, detail in judge_pair(pair, B):
            ctx.fail(kind, {"pair": pair}, detail)
            break
    # both memory modes of the saving run save the same files and print the same outputs
    mm_cases = [c for c, _ in todo if str(c["id"]).startswith("d")][:6]
    mm_cases += [gen_case(rng, B, "m%d" % i) for i in range(8 if ctx.tier == "quick" else 40)]
    for case in mm_cases:
        ctx.count("oracle:memory_modes_case")
        why = memory_modes(case, B)
        if why:
            small = shrink_case(case, lambda c: memory_modes(c, B) is not None)
            ctx.fail("reuse:memory_modes_differ", {"case": small}, memory_modes(small, B) or why)
            break


def replay(ctx, failure):
    B = base(ctx.seed)
    inp = failure["input"]
    if failure["kind"] == "reuse:memory_modes_differ":
        why = memory_modes(inp["case"], B)
        return {"reproduced": bool(why), "detail": why}
    if "pair" in inp:
        hit = [f for f in judge_pair(inp["pair"], B) if f[0] == failure["kind"]]
        return {"reproduced": bool(hit), "detail": hit[0][1] if hit else None}
    fails = judge(inp["case"], B, bool(inp.get("high_memory")))
    hit = [f for f in fails if f[0] == failure["kind"]]
    return {"reproduced": bool(hit), "detail": hit[0][1] if hit else None}
