"""C04 closure `p04chain`: the answers of the second `assign_reads_to_models` are a function of (read, CONTENT of the storage).

Model: lean/IsoVerif/Model/ChainAssigner.lean (`CAssigner`, `relabel`, `insOf`, `runChromosomeC`); theorems: Props/C04Chain.lean.
Correspondence (`corr_relabel`): one generated storage (props/c04sim generator: one or two exon chains, ends on the assigner's
thresholds, known + novel models, both strands) and generated reads with full exon lists, poly-A flags and truncations; the REAL
`GraphBasedModelConstructor.assign_reads_to_models` (real GeneInfo.from_models, CombinedProfileConstructor, LongReadAssigner; only
`assign_to_isoform` is wrapped to record its answer) runs
  X  on the storage as generated,
  Y  on the same contents with every transcript id and gene id replaced (order of the ids as strings reversed),
  Z  on the same contents with all models in ONE gene (the copy of an earlier model carries the gene id the joiner gave it),
and (1) the recorded answers of X, Y, Z — consistency flag, matches as POSITIONS in the storage — are compared with each other,
(2) the driver op `C04.assign_content` gets the storage of X and the positions recorded on Y and must return the storage and the
`transcript_model_reads` lines the real run X produced.
"""
import copy
import random
from collections import defaultdict

import vlib


def _mods():
    from props import C04, c04sim as SIM
    from gen import simmodels as SM
    return C04, SIM, SM


def gen_reads_full(rng, models, n):
    """reads with full exon lists derived from the models (ends moved / truncated / extra exon / exon skipped)"""
    C04, SIM, SM = _mods()
    reads = []
    for k in range(n):
        m = rng.choice(models)
        ex = [tuple(e) for e in m["exons"]]
        r = rng.random()
        if r < 0.15 and len(ex) >= 3:
            ex = ex[1:] if rng.random() < 0.5 else ex[:-1]
        elif r < 0.25 and len(ex) >= 3:
            i = rng.randrange(1, len(ex) - 1)
            ex = ex[:i] + ex[i + 1:]
        elif r < 0.32:
            i = rng.randrange(0, len(ex))
            ex = ex[:i] + [(ex[i][0], ex[i][1] + rng.choice([3, 7, 40]))] + ex[i + 1:] if i + 1 < len(ex) else ex
        s = min(ex[0][0] + rng.choice([0, 0, 3, 20, 80, -40, 200, -300, 55]), ex[0][1])
        e = max(ex[-1][1] - rng.choice([0, 0, 3, 20, 80, -40, 200, -300, -1100, 55]), ex[-1][0])
        ex = [(s, ex[0][1])] + ex[1:] if len(ex) > 1 else [(s, max(s + 1, e))]
        if len(ex) > 1:
            ex = ex[:-1] + [(ex[-1][0], e)]
        st = m["strand"] if m["strand"] in "+-" else "+"
        polya = rng.random() < 0.6
        reads.append({"id": "rd%d" % k, "exons": [list(x) for x in ex], "introns": [list(i) for i in SM.junctions(ex)], "mm": False,
                      "strand": st, "polya": polya and st == "+", "polyt": polya and st == "-", "group": "g", "mapq": 60})
    return reads


def gen_case(rng):
    C04, SIM, SM = _mods()
    kw = SIM.gen_case(rng)
    kw["_reads"] = [[] for _ in kw["models"]]
    kw["reads_full"] = gen_reads_full(rng, kw["models"], rng.choice([3, 6, 10]))
    # some reads are already assigned (the loop skips them)
    kw["pre"] = [[rd["id"], rng.randrange(len(kw["models"]))] for rd in kw["reads_full"] if rng.random() < 0.2]
    return kw


def relabelled(kw, mode):
    kw2 = copy.deepcopy(kw)
    n = len(kw2["models"])
    for i, m in enumerate(kw2["models"]):
        if mode == "Y":
            m["tid"] = "Z%03d.x" % (n - i)
            m["gene"] = "H%03d" % (n - i)
        elif mode == "Z":
            m["tid"] = "W%d" % (i * 7 % 11 + 100 * i)
            m["gene"] = "ONE"
    return kw2


def real_assign(kw):
    """-> (store before, store after + r2t lines | error, answers by position)"""
    C04, SIM, SM = _mods()
    IG, GB, GI, PF, TP = C04._impl()
    c, p = SIM.build_constructor(kw)
    reads = [C04.FakeRead(rd) for rd in kw["reads_full"]]
    by_id = dict((r.read_id, r) for r in reads)
    for rid, i in kw["pre"]:
        c.save_assigned_read(by_id[rid], c.transcript_model_storage[i].transcript_id)
    before = C04.store_json(c)
    pos = dict((m.transcript_id, i) for i, m in enumerate(c.transcript_model_storage))
    log = []
    base = GB.LongReadAssigner

    class Recording(base):
        def assign_to_isoform(self, read_id, profile):
            a = base.assign_to_isoform(self, read_id, profile)
            ok = bool(a.assignment_type.is_consistent())
            # an assignment that is not consistent may carry a match without a transcript; the loop does not look at it
            log.append({"read": read_id, "consistent": ok,
                        "matched": [pos[m.assigned_transcript] for m in a.isoform_matches] if ok else []})
            return a
    GB.LongReadAssigner = Recording
    try:
        c.assign_reads_to_models(reads)
    except SIM.ERRS as ex:
        return before, {"error": "error", "exc": type(ex).__name__}, log
    finally:
        GB.LongReadAssigner = base
    printer_lines = [[a.read_id, t] for t, rs in c.transcript_read_ids.items() for a in rs] + \
                    [[r, "*"] for r, v in c.read_assignment_counts.items() if v == 0]
    return before, {"store": C04.store_json(c), "r2t": printer_lines}, log


def canon_answers(log):
    return [[a["read"], a["consistent"], sorted(a["matched"]) if a["consistent"] else []] for a in log]


def canon_out(o):
    """ambiguous matches come in the order of the transcript IDS (so the insertion order of the dicts follows the labelling):
    the containers are compared as maps, the read list of every transcript in order"""
    if vlib.is_err(o) or not isinstance(o, dict) or "store" not in o:
        return o
    st = o["store"]
    return {"store": {"models": st["models"], "read_ids": sorted(st["read_ids"]), "counter": sorted(st["counter"]),
                      "rcount": sorted(st["rcount"])}, "r2t": sorted(o["r2t"])}


def corr_relabel(ctx, n):
    C04, SIM, SM = _mods()
    cases, vals = [], []
    for _ in range(n):
        kw = gen_case(ctx.rng)
        before, after, log_x = real_assign(kw)
        _b, after_y, log_y = real_assign(relabelled(kw, "Y"))
        _b, after_z, log_z = real_assign(relabelled(kw, "Z"))
        ctx.evaluations += 2
        for name, lg in (("Y", log_y), ("Z", log_z)):
            if canon_answers(lg) != canon_answers(log_x):
                ctx.disagree("assign_content:ids_matter_" + name, {k: v for k, v in kw.items() if not k.startswith("_")},
                             canon_answers(lg), canon_answers(log_x))
            else:
                ctx.count("assign_content:answers_equal_under_relabelling_" + name)
        # unassigned reads that were not asked about (already assigned) are not in the log: the model skips them as well
        answers = log_y if not vlib.is_err(after_y) else log_x
        cases.append(("assign_content", {"store": before, "answers": answers}))
        vals.append(canon_out(after))
        if [a["matched"] for a in log_y] != [a["matched"] for a in log_x]:
            ctx.count("assign_content:order_of_ambiguous_matches_follows_the_ids")
        ctx.count("assign_content:reads_matched=%d" % min(sum(1 for a in log_x if a["consistent"] and a["matched"]), 5))
        ctx.count("assign_content:ambiguous=%d" % min(sum(1 for a in log_x if a["consistent"] and len(a["matched"]) > 1), 2))
        ctx.count("assign_content:inconsistent=%d" % min(sum(1 for a in log_x if not a["consistent"]), 2))
    C04.run_cases(ctx, cases, vals, lambda op, kw, mo: not vlib.is_err(mo) and any(t != "*" for _r, t in mo["r2t"]),
                  canon_model=canon_out)


def correspondence(ctx):
    corr_relabel(ctx, 150 if ctx.tier == "quick" else 1500)
