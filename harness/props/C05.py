"""C05 — every aligned read is accounted for; region splitting loses or duplicates none.

correspondence: the Lean model (lean/IsoVerif/Model/Regions.lean through the driver) against the real
  `AlignmentCollector.process / forward_alignments / split_coverage_regions`, both storages, the filters of
  `process_genic / process_intergenic`, `BasicReadAssignment.__eq__` and `MultimapResolver` on generated
  alignment sets / coverage dictionaries / record lists (fake alignment objects, in-process);
oracle: the property itself on the real code – in-process (every alignment forwarded, memory modes agree, statistics,
  no identical twins after resolution) and through the real pipeline on synthetic BAMs in both memory modes with and
  without annotation (read ids of corrected_reads.bed / read_assignments.tsv and the log statistics vs the input).
"""
import collections
import json
import logging
import os
import re
import shutil
import signal
import types

import vlib
from gen import coverage as G

ID = "C05"
PROPS = ["IsoVerif/Props/C05.lean", "IsoVerif/Props/C05Multi.lean", "IsoVerif/Props/C05Printers.lean",
         "IsoVerif/Props/C05Edge.lean", "IsoVerif/Props/C05Contigs.lean", "IsoVerif/Props/C05Names.lean",
         "IsoVerif/Props/C05Headers.lean", "IsoVerif/Props/C05Intergenic.lean"]
TARGETS = ["IsoVerif.Props.C05", "IsoVerif.Props.C05Multi", "IsoVerif.Props.C05Printers", "IsoVerif.Props.C05Edge",
           "IsoVerif.Props.C05Contigs", "IsoVerif.Props.C05Names", "IsoVerif.Props.C05Headers",
           "IsoVerif.Props.C05Intergenic"]
GEN_DEPS = ["Prims", "Constants", "Enums", "EventClasses", "PrinterTables"]
LEVEL = "proof"
RULE = ("synthetic coverage dictionaries (bin counts 1..520 around the 128-bin minimum, thresholds at the 1 % boundary, "
        "final-bin valleys, malformed dictionaries) through split_coverage_regions; alignment sets (adjacency boundaries, "
        "all flag combinations, pile-ups >= 1024 reads, loci >= 32 kb, single-bin pile-ups, 1-bp reads on bin boundaries, "
        "short reads in the last bin, thin chains) through the real process() loop in both storages, random sub-region "
        "queries of the in-memory index, dumped index dictionaries, filters, record lists through the resolver; a case is "
        "non-trivial when the model returns a non-error value with >= 1 forwarded alignment / region / record and "
        "model == implementation; distinct by (op, input); experiments of k = 1..4 BAM files (harness/props/C05multi.py): the "
        "same alignment sets partitioned uniformly / with empty files / by cluster / with (start, end) twins across files, an "
        "exhaustive 3-record x 3-file universe, fake handles and real indexed BAM files, through the real collector in both "
        "modes, the real merger, the real in-memory storage on (bam_index, alignment) pairs, EnumStats.merge + "
        "count_unaligned_reads, FileNameGrouper through the real process_intergenic")
TRUSTED = ["pysam fetch(chr, a, b+1) = records overlapping [a, b] in file order (checked against pysam on a synthetic BAM each run)",
           "fake alignment objects expose exactly the attributes the collector reads (reference_start/end, flags, reference_id, mapping_quality)",
           "assigners / exon correctors / printers downstream of the collector are not modelled: the pipeline oracle watches them",
           "several BAM files: PriorityQueue.get_nowait = the minimum of the queued tuples; pysam iterators obtained with "
           "multiple_iterators=True are independent of each other (exercised on real BAM files in every run)"]
ASSUMPTIONS = ["CPython int semantics = Lean Int; x // 256 = Int ediv for the positive divisor",
               "cov > max(1, max_cov * 0.01) evaluated in floats equals cov > 1 and 100 * cov > max_cov (max_cov < 1e13); "
               "the correspondence hits max_cov in {99, 100, 101} x cov",
               "alignments are well formed (reference_end > reference_start) or have no reference span at all (reference_end "
               "None: placed unmapped read / record without CIGAR - skipped by the merger after the c05edge repair, "
               "Props/C05Edge.lean; pysam returns such a record from fetch when its ONE base lies in the window: checked on a "
               "real BAM in every run)",
               "a record without CIGAR that is not flagged unmapped belongs to no statistics category (reading rule, docs/C05.md 8)",
               "a read is a query name (reading rule): with >= 2 primary records of one name the per-name clauses are checked, "
               "the per-alignment clause is classified, not flagged (edge_domain_classification in the evidence)",
               "records fetched for a chromosome always have reference_id != -1",
               "several BAM files: every file is sorted by reference_start and all files of an experiment share the reference "
               "(the collector reads the chromosome length from the first file); ValidFiles in Props/C05Multi.lean"]

_AP = None


def _sub_prefix(ctx):
    """output prefix of the pipeline runs of the sub-modules (C05multi / C05edge / C05contigs / C05short / C15print use
    `pipeline.std_args` without naming one): drawn from pipeline.PREFIX_POOL by the run's seed, recorded in the evidence and
    in every failure input of these modules (`prefix`), honoured by `replay`"""
    import random
    import pipeline as P
    pf = random.Random("c05-prefix-%s" % ctx.seed).choice(P.PREFIX_POOL)
    ctx.extra["sub_module_prefix"] = pf
    return pf


def _impl():
    global _AP
    if _AP is None:
        vlib.repo_on_path()
        import src.alignment_processor as AP
        import src.multimap_resolver as MR
        import src.isoform_assignment as IA
        import src.stats as ST
        logging.getLogger("IsoQuant").setLevel(logging.CRITICAL)
        _AP = (AP, MR, IA, ST)
    return _AP


class Hang(Exception):
    pass


def guarded(fn, seconds=20):
    """run fn(); a loop that does not terminate in the real code becomes a Hang exception"""
    def h(sig, frm):
        raise Hang()
    old = signal.signal(signal.SIGALRM, h)
    signal.setitimer(signal.ITIMER_REAL, seconds)
    try:
        return fn()
    finally:
        signal.setitimer(signal.ITIMER_REAL, 0)
        signal.signal(signal.SIGALRM, old)


ERRS = (IndexError, AssertionError, ZeroDivisionError, KeyError, ValueError, TypeError, AttributeError)


class FakeAln:
    __slots__ = ("reference_start", "reference_end", "is_secondary", "is_supplementary", "reference_id",
                 "mapping_quality", "query_name", "rid", "is_reverse")

    def __init__(self, a):
        self.reference_start, self.reference_end = a[0], a[1]
        self.is_secondary = bool(a[2] & 1)
        self.is_supplementary = bool(a[2] & 2)
        self.reference_id = -1 if a[2] & 4 else 0
        self.mapping_quality = a[3]
        self.rid = a[4]
        self.query_name = "r%d" % a[4]
        self.is_reverse = False


class FakeBam:
    """the external call: fetch = overlap filter on the half-open interval, file order"""

    def __init__(self, objs):
        self.objs = objs

    def fetch(self, chr_id, start, end, multiple_iterators=False):
        # htslib: a record without reference span (reference_end None: placed unmapped read / no CIGAR) covers ONE base
        return iter([a for a in self.objs if a.reference_start < end and
                     (a.reference_start + 1 if a.reference_end is None else a.reference_end) > start])

    def get_reference_length(self, chr_id):
        return 10 ** 12

    def get_tid(self, chr_id):
        return 0

    def reset(self):
        pass


def real_collect(alns, high_memory):
    """the real AlignmentCollector.process() loop on fake alignments; -> {'out': [[region, [rid..]]..], 'stats': {...}}"""
    AP, MR, IA, ST = _impl()
    objs = [FakeAln(a) for a in alns]
    col = AP.AlignmentCollector.__new__(AP.AlignmentCollector)
    col.chr_id = "chrF"
    col.params = types.SimpleNamespace(high_memory=high_memory, no_secondary=False, min_mapq=0)   # read by the stretch loop of forward_alignments
    col.bam_pairs = [(FakeBam(objs), "fake.bam")]
    col.bam_merger = AP.BAMOnlineMerger(col.bam_pairs, "chrF", 0, 10 ** 12, multiple_iterators=not high_memory)
    col.alignment_stat_counter = ST.EnumStats()
    col.process_alignments_in_region = lambda region, it, gene_region=None: (tuple(region), [a.rid for _, a in it])

    def run():
        return [[list(r), ids] for r, ids in col.process()]
    try:
        out = guarded(run)
    except ERRS as ex:
        return {"error": "error", "exc": type(ex).__name__}
    stats = {t.name: col.alignment_stat_counter.stats_dict.get(t, 0) for t in AP.AlignmentType}
    return {"out": out, "stats": stats}


def real_clusters(alns):
    """clusters and their regions: from the default-mode run with splitting disabled by observation of storages"""
    AP, MR, IA, ST = _impl()
    objs = [FakeAln(a) for a in alns]
    col = AP.AlignmentCollector.__new__(AP.AlignmentCollector)
    col.chr_id = "chrF"
    col.params = types.SimpleNamespace(high_memory=True, no_secondary=False, min_mapq=0)
    col.bam_pairs = [(FakeBam(objs), "fake.bam")]
    col.bam_merger = AP.BAMOnlineMerger(col.bam_pairs, "chrF", 0, 10 ** 12, multiple_iterators=False)
    col.alignment_stat_counter = ST.EnumStats()
    seen = []

    def fwd(storage):
        seen.append(([a.rid for _, a in storage.alignment_storage], list(storage.region)))
        return iter(())
    col.forward_alignments = fwd
    try:
        guarded(lambda: list(col.process()))
    except ERRS as ex:
        return {"error": "error", "exc": type(ex).__name__}
    stats = {t.name: col.alignment_stat_counter.stats_dict.get(t, 0) for t in AP.AlignmentType}
    return {"clusters": [c for c, _ in seen], "regions": [r for _, r in seen], "stats": stats}


class FakeStorage:
    def __init__(self, cov, count):
        self.coverage_dict = collections.defaultdict(int)
        for k, v in cov:
            self.coverage_dict[k] = v
        self.count = count

    def get_read_count(self):
        return self.count


def real_split(case):
    AP, MR, IA, ST = _impl()
    st = FakeStorage(case["cov"], case["count"])
    try:
        return vlib.canon(guarded(lambda: AP.AlignmentCollector.split_coverage_regions(tuple(case["R"]), st)))
    except ERRS as ex:
        return {"error": "error", "exc": type(ex).__name__}


def mem_storage(alns):
    AP, MR, IA, ST = _impl()
    st = AP.InMemoryAlignmentStorage()
    for a in alns:
        st.add_alignment(0, FakeAln(a))
    return st


def real_storage(alns):
    try:
        st = mem_storage(alns)
    except ERRS as ex:
        return {"error": "error", "exc": type(ex).__name__}
    return {"region": list(st.region) if st.region else None,
            "cov": [[k, v] for k, v in sorted(st.coverage_dict.items())], "count": st.get_read_count()}


def real_mem_get(st, region):
    try:
        return [a.rid for _, a in guarded(lambda: list(st.get_alignments(tuple(region) if region is not None else None)))]
    except ERRS as ex:
        return {"error": "error", "exc": type(ex).__name__}


def real_fill_index(alns):
    AP, MR, IA, ST = _impl()
    try:
        st = mem_storage(alns)
        st.fill_index()
    except ERRS as ex:
        return {"error": "error", "exc": type(ex).__name__}
    lo = st.region[0] // AP.AbstractAlignmentStorage.COVERAGE_BIN
    hi = st.region[1] // AP.AbstractAlignmentStorage.COVERAGE_BIN + 1
    return {"start": [[k, st.alignment_start_index.get(k)] for k in range(lo, hi + 1)],
            "end": [[k, st.alignment_end_index.get(k)] for k in range(lo, hi + 1)]}


def real_split_of_alns(alns):
    AP, MR, IA, ST = _impl()
    try:
        st = mem_storage(alns)
        return vlib.canon(guarded(lambda: AP.AlignmentCollector.split_coverage_regions(st.region, st)))
    except ERRS as ex:
        return {"error": "error", "exc": type(ex).__name__}


def real_bam_get(alns, region):
    AP, MR, IA, ST = _impl()
    objs = [FakeAln(a) for a in alns]
    merger = types.SimpleNamespace(bam_pairs=[(FakeBam(objs), "f")], chr_id="chrF")
    st = AP.BAMAlignmentStorage(merger)
    return [a.rid for _, a in st.get_alignments(tuple(region))]


class _StubInfo:
    reached = []

    def __init__(self, alignment):
        _StubInfo.reached.append(alignment.rid)
        self.read_exons = []


def real_passes(alns, params, genic):
    """ids reaching AlignmentInfo(...) in process_intergenic / process_genic = alignments passing the first filters"""
    AP, MR, IA, ST = _impl()
    col = AP.AlignmentCollector.__new__(AP.AlignmentCollector)
    col.chr_id = "chrF"
    col.illumina_bam = None
    col.chr_record = None
    col.params = types.SimpleNamespace(no_secondary=params["no_secondary"], min_mapq=params["min_mapq"] or None,
                                       simple_alignments_mapq_cutoff=1, inconsistent_mapq_cutoff=5, cage=None)
    saved = (AP.AlignmentInfo, AP.LongReadAssigner, AP.CombinedProfileConstructor, AP.ExonCorrector)
    _StubInfo.reached = []
    AP.AlignmentInfo = _StubInfo
    AP.LongReadAssigner = AP.CombinedProfileConstructor = AP.ExonCorrector = lambda *a, **k: None
    try:
        it = [(0, FakeAln(a)) for a in alns]
        if genic:
            col.process_genic(it, None, (0, 10))
        else:
            col.process_intergenic(it, (0, 10))
    finally:
        AP.AlignmentInfo, AP.LongReadAssigner, AP.CombinedProfileConstructor, AP.ExonCorrector = saved
    return list(_StubInfo.reached)


def mk_rec(r, i=0):
    AP, MR, IA, ST = _impl()
    b = IA.BasicReadAssignment.__new__(IA.BasicReadAssignment)
    b.assignment_id = i
    b.read_id = "read%d" % r[0]
    b.chr_id = "chr%d" % r[1]
    b.start, b.end = r[2], r[3]
    b.isoforms = ["T%d" % x for x in r[4]]
    b.genes = ["G%d" % (x % 2) for x in r[4]]
    b.genomic_region = tuple(r[5])
    b.assignment_type = IA.ReadAssignmentType[r[6]]
    b.gene_assignment_type = IA.ReadAssignmentType[r[6]]
    b.multimapper = bool(r[7])
    b.polyA_found = False
    b.penalty_score = r[8] / 1048576.0
    return b


def real_find_duplicates(recs, idxs):
    AP, MR, IA, ST = _impl()
    try:
        MR.MultimapResolver.duplicate_counter = 10
        return list(MR.MultimapResolver.find_duplicates([mk_rec(r, i) for i, r in enumerate(recs)], list(idxs)))
    except ERRS as ex:
        return {"error": "error", "exc": type(ex).__name__}


def real_resolve_kept(recs):
    AP, MR, IA, ST = _impl()
    objs = [mk_rec(r, i) for i, r in enumerate(recs)]
    MR.MultimapResolver.duplicate_counter = 10
    try:
        res = MR.MultimapResolver(MR.MultimapResolvingStrategy.take_best).resolve(objs)
    except ERRS as ex:
        return {"error": "error", "exc": type(ex).__name__}
    ids = {id(o): i for i, o in enumerate(objs)}
    return sorted(ids[id(o)] for o in res if o.assignment_type != IA.ReadAssignmentType.suspended), objs


def real_select_best_idx(recs):
    AP, MR, IA, ST = _impl()
    objs = [mk_rec(r, i) for i, r in enumerate(recs)]
    got = []
    saved = MR.MultimapResolver.__dict__["filter_assignments"]

    def capture(assignment_list, keep):
        got.append(sorted(keep) if isinstance(keep, (set, frozenset)) else list(keep))
        return assignment_list
    MR.MultimapResolver.filter_assignments = staticmethod(capture)
    try:
        MR.MultimapResolver(MR.MultimapResolvingStrategy.take_best).select_best_assignment(objs)
    except ERRS as ex:
        return {"error": "error", "exc": type(ex).__name__}
    finally:
        MR.MultimapResolver.filter_assignments = saved
    return got[0] if got else [0]


# ------------------------------------------------------------------------------------------------
# correspondence

def _sub_regions(rng, alns, n):
    """query regions for get_alignments: inside the hull, on bin boundaries, the hull itself, outside"""
    lo = min(a[0] for a in alns)
    hi = max(a[1] for a in alns) - 1
    res = [[lo, hi], None]
    for _ in range(n):
        k = rng.random()
        if k < 0.7:
            a = rng.randint(lo, hi)
            b = rng.randint(a, hi)
        elif k < 0.85:
            a = min(hi, (rng.randint(lo, hi) // 256) * 256 + rng.choice([0, 1, 255]))
            a = max(lo, a)
            b = min(hi, max(a, (rng.randint(a, hi) // 256) * 256 + rng.choice([-1, 0, 1, 255])))
        else:
            a = rng.randint(lo - 600, hi + 600)
            b = rng.randint(a, hi + 900)
        res.append([a, b])
    return res


def correspondence(ctx):
    import pipeline as P
    P.use_prefix(_sub_prefix(ctx))
    try:
        _correspondence(ctx)
    finally:
        P.use_prefix("S")


def _correspondence(ctx):
    rng = ctx.rng
    quick = ctx.tier == "quick"
    D = ctx.driver

    def run(op, cases, impl, nontrivial, same=vlib.same):
        lines = [vlib.req("C05." + op, **kw) for kw in cases]
        import time as _t
        _t0 = _t.time()
        outs = D.run(lines)
        ctx.extra.setdefault("driver_seconds", {})[op] = round(ctx.extra.get("driver_seconds", {}).get(op, 0) + _t.time() - _t0, 2)
        for kw, mo in zip(cases, outs):
            ctx.evaluations += 1
            ctx.count("op:" + op)
            if isinstance(mo, dict) and "driver_error" in mo:
                ctx.disagree(op, kw, mo, None)
                continue
            io = vlib.canon(impl(kw))
            ctx.traces_validated += 1
            if vlib.is_err(mo):
                ctx.count("model_error:" + op)
            if not same(mo, io):
                ctx.disagree(op, _compact(kw), _short(mo), _short(io))
            elif not vlib.is_err(mo) and nontrivial(kw, mo):
                ctx.mark_nontrivial(_digest(op, kw))
            if len(ctx.samples) < 10 and rng.random() < 0.01:
                ctx.sample({"op": op, "input": _short(kw), "model": _short(mo), "impl": _short(io)})
        return outs

    # 1. split_coverage_regions on synthetic coverage dictionaries
    cov_cases = [G.rand_cov_case(rng) for _ in range(1500 if quick else 15000)]
    cov_cases += [G.malformed_cov_case(rng) for _ in range(200 if quick else 2000)]
    for c in cov_cases:
        nb = len(c["cov"])
        ctx.count("split_bins:%s" % ("0" if nb == 0 else "1" if nb == 1 else "<128" if nb < 128 else "<256" if nb < 256 else ">=256"))
    outs = run("split", cov_cases, real_split, lambda kw, mo: len(mo) >= 1)
    for mo in outs:
        if isinstance(mo, list):
            ctx.count("split_regions:%s" % (len(mo) if len(mo) < 4 else ">=4"))

    # 2. bins, adjacency, storage, clusters + statistics on small sets
    run("bin", [{"x": x} for x in [-513, -257, -256, -1, 0, 1, 255, 256, 257, 511, 512, 10 ** 9 + 7]],
        lambda kw: kw["x"] // 256, lambda kw, mo: True)
    small = [G.small_cluster_set(rng) for _ in range(400 if quick else 4000)] + G.touching_pairs(rng)
    run("clusters", [{"alns": s} for s in small], lambda kw: real_clusters(kw["alns"]),
        lambda kw, mo: len(mo["clusters"]) >= 1)
    run("storage", [{"alns": s} for s in small if s][:300 if quick else 3000], lambda kw: real_storage(kw["alns"]),
        lambda kw, mo: mo["count"] >= 1)

    # 3. whole process() loop in both storages on split clusters; sub-region queries; index dump
    big = []
    kinds = ["pile_bridge_tail", "final_bin_valley", "single_bin", "first_base", "long_ladder", "two_piles",
             "random_profile", "thin_long"]
    for i in range(32 if quick else 320):
        kind, alns = G.split_cluster(rng, kinds[i % len(kinds)] if i < 2 * len(kinds) else None)
        ctx.count("cluster_kind:" + kind)
        big.append(alns)
    for mode in ("bam", "memory"):
        outs = run("collect", [{"mode": mode, "alns": a} for a in big + small[:100]],
                   lambda kw: _flat(real_collect(kw["alns"], kw["mode"] == "memory")),
                   lambda kw, mo: any(len(x[1]) > 0 for x in mo))
        for mo in outs:
            if isinstance(mo, list):
                ctx.count("forwarded_regions:%s" % (len(mo) if len(mo) < 4 else ">=4"))
    run("split_of_alns", [{"alns": a} for a in big], lambda kw: real_split_of_alns(kw["alns"]), lambda kw, mo: len(mo) >= 1)
    # sub-region queries of the in-memory index: first cluster of each set (a storage holds one cluster)
    q_cases, q_impl = [], {}
    for alns in big[:(16 if quick else 160)] + [s for s in small if s][:150]:
        cl = _first_cluster(alns)
        st = mem_storage(cl)
        for reg in _sub_regions(rng, cl, 12 if quick else 40):
            kw = {"alns": cl, "region": reg}
            q_cases.append(kw)
            q_impl[id(kw)] = (st, reg)
    run("mem_get", q_cases, lambda kw: real_mem_get(*q_impl[id(kw)]), lambda kw, mo: len(mo) >= 1)
    run("bam_get", [kw for kw in q_cases if kw["region"] is not None][:400],
        lambda kw: real_bam_get(kw["alns"], kw["region"]), lambda kw, mo: len(mo) >= 1)
    run("fill_index", [{"alns": _first_cluster(a)} for a in big[:(16 if quick else 160)] + [s for s in small if s][:150]],
        lambda kw: real_fill_index(kw["alns"]), lambda kw, mo: True)

    # 4. documented filters
    f_cases = []
    for _ in range(60 if quick else 600):
        alns = G.small_cluster_set(rng, n_max=30, p_special=0.5)
        f_cases.append((alns, {"no_secondary": rng.random() < 0.5, "min_mapq": rng.choice([0, 0, 1, 5, 10, 61])}, rng.random() < 0.5))
    lines, meta = [], []
    for alns, params, genic in f_cases:
        for a in alns:
            lines.append(vlib.req("C05.passes", aln=a, params=params))
        meta.append(len(alns))
    outs = D.run(lines)
    k = 0
    for (alns, params, genic), n in zip(f_cases, meta):
        model_ids = [a[4] for a, o in zip(alns, outs[k:k + n]) if o is True]
        k += n
        impl_ids = real_passes(alns, params, genic)
        ctx.evaluations += 1
        ctx.traces_validated += 1
        ctx.count("op:passes")
        if model_ids != impl_ids:
            ctx.disagree("passes", {"alns": alns, "params": params, "genic": genic}, model_ids, impl_ids)
        elif model_ids:
            ctx.mark_nontrivial(_digest("passes", [alns, params, genic]))

    # 5. de-duplication / resolver
    rec_cases = [G.rand_records(rng) for _ in range(1500 if quick else 15000)]
    def same_sel(mo, io):
        """model: {'exact': l} or {'one_of': cands}; implementation: the list (exactly one of cands in the second case)"""
        if vlib.is_err(io) or not isinstance(mo, dict):
            return False
        if "exact" in mo:
            return mo["exact"] == io
        return len(io) == 1 and io[0] in mo["one_of"]
    run("resolve_kept", [{"recs": r} for r in rec_cases],
        lambda kw: (lambda x: x if isinstance(x, dict) else x[0])(real_resolve_kept(kw["recs"])),
        lambda kw, mo: len(mo.get("exact", mo.get("one_of"))) >= 1, same=same_sel)
    run("select_best", [{"recs": r} for r in rec_cases if len(r) >= 1][:800 if quick else 8000],
        lambda kw: real_select_best_idx(kw["recs"]), lambda kw, mo: len(mo.get("exact", mo.get("one_of"))) >= 1, same=same_sel)
    fd = []
    for r in rec_cases:
        if len(r) >= 2:
            idxs = [i for i in range(len(r)) if rng.random() < 0.8]
            fd.append({"recs": r, "idxs": idxs})
    run("find_duplicates", fd[:800 if quick else 8000], lambda kw: real_find_duplicates(kw["recs"], kw["idxs"]),
        lambda kw, mo: len(mo) >= 1)
    pairs = []
    for r in rec_cases:
        if len(r) >= 2:
            pairs.append({"a": r[0], "b": r[1]})
    run("rec_eq", pairs[:500], lambda kw: mk_rec(kw["a"]) == mk_rec(kw["b"]), lambda kw, mo: True)

    # 6. the assumed behaviour of pysam fetch
    _check_fetch_assumption(ctx)

    # 7. experiments made of several BAM files (Model/RegionsMulti.lean)
    from props import C05multi
    C05multi.correspondence(ctx)
    # 7b. files whose headers differ (other length, sequence not listed, other order) + a FASTA record shorter than the
    #     headers say (Model/ChromHeaders.lean, Props/C05Headers.lean)
    from props import C05headers
    C05headers.correspondence(ctx)
    # 7c. the filters of process_intergenic in the order of the code: exon count of the alignment, not of the trimmed list
    #     (Model/IntergenicFilter.lean, Props/C05Intergenic.lean)
    from props import C05intergenic
    C05intergenic.correspondence(ctx)
    # 8. the read-level printers and the merge of their per-chromosome files (Props/C05Printers.lean): the real
    #    composite printer on generated records, the generated event-name table, merge_files (props/C15print.py)
    from props import C15print
    C15print.correspondence(ctx)
    # 9. records without reference span through the real loop, the BED printer on retained records (Props/C05Edge.lean)
    from props import C05edge
    C05edge.correspondence(ctx)
    # contig sets of FASTA / BAM header / annotation that differ (props/C05contigs.py, Props/C05Contigs.lean)
    from props import C05contigs
    C05contigs.correspondence(ctx)
    # names of the per-chromosome part files / auxiliary files (Model/PartNames.lean, Props/C05Names.lean)
    from props import C05names
    C05names.correspondence(ctx)


def _first_cluster(alns):
    cl = []
    hi = None
    for a in alns:
        if hi is not None and a[0] > hi:
            break
        cl.append(a)
        hi = a[1] - 1 if hi is None else max(hi, a[1] - 1)
    return cl


def _flat(r):
    return r if vlib.is_err(r) else r["out"]


def _digest(op, kw):
    import hashlib
    return op + ":" + hashlib.sha1(json.dumps(vlib.canon(kw), sort_keys=True).encode()).hexdigest()[:16]


def _short(x, cap=400):
    s = json.dumps(vlib.canon(x), default=str)
    return x if len(s) <= cap else s[:cap] + "...(%d chars)" % len(s)


def _compact(kw):
    return kw


def _check_fetch_assumption(ctx):
    """pysam on a synthetic BAM: fetch(chr, a, b+1) == overlap filter (the external behaviour the model assumes)"""
    import pysam
    from gen import synth
    rng = ctx.rng
    d = vlib.scratch_dir("isoverif_c05_fetch_")
    try:
        ds = synth.Dataset(rng.randint(0, 10 ** 6))
        ds.add_chrom("chrA", 20000)
        ds.add_chrom("chrB", 5000)
        reads = []
        for i in range(300):
            st = rng.randint(0, 15000)
            ln = rng.choice([1, 2, 50, 255, 256, 700, 3000])
            ds.add_read("q%d" % i, "chrA", st, "%dM" % ln)
            reads.append((st, st + ln, "q%d" % i))
        ds.add_read("other", "chrB", 100, "50M")
        paths = ds.write(d, write_ref=False)
        reads.sort(key=lambda r: r[0])
        bam = pysam.AlignmentFile(paths["bam"], "rb", require_index=True)
        for _ in range(200):
            a = rng.randint(0, 16000)
            b = a + rng.choice([0, 1, 255, 256, 1000, 5000])
            got = [x.query_name for x in bam.fetch("chrA", a, b + 1)]
            exp = [n for s, e, n in reads if s <= b and e - 1 >= a]
            ctx.evaluations += 1
            ctx.count("op:pysam_fetch_assumption")
            ctx.traces_validated += 1
            if got != exp:
                ctx.disagree("pysam_fetch_assumption", {"a": a, "b": b}, exp[:20], got[:20])
        bam.close()
    finally:
        shutil.rmtree(d, ignore_errors=True)


# ------------------------------------------------------------------------------------------------
# oracle (the property on the real code)

def check_alns(alns):
    """property on the real process() loop: returns (kind, detail) or None"""
    AP, MR, IA, ST = _impl()
    res = {}
    for mode, hm in (("default", False), ("high_memory", True)):
        try:
            r = real_collect(alns, hm)
        except Hang:
            return ("collector_hangs:" + mode, "process() did not terminate within the guard")
        if vlib.is_err(r):
            return ("collector_raises:" + mode, r.get("exc"))
        res[mode] = r
        ids_in = collections.Counter(a[4] for a in alns)
        seen = collections.Counter()
        for region, ids in r["out"]:
            c = collections.Counter(ids)
            dup = [i for i, n in c.items() if n > ids_in[i]]
            if dup:
                return ("alignment_twice_in_one_region:" + mode, "region %s returns record %s more often than the input holds it" % (region, dup[:3]))
            seen.update(set(ids))
        lost = [i for i in ids_in if seen[i] == 0]
        if lost:
            a = next(x for x in alns if x[4] == lost[0])
            return ("alignment_not_forwarded:" + mode,
                    "%d record(s) of the input reach no processing region, e.g. %s; regions %s"
                    % (len(lost), a, [x[0] for x in r["out"]][:8]))
        foreign = [i for i in seen if i not in ids_in]
        if foreign:
            return ("foreign_alignment:" + mode, str(foreign[:3]))
        exp = {"secondary": sum(1 for a in alns if a[2] & 1),
               "supplementary": sum(1 for a in alns if not a[2] & 1 and a[2] & 2),
               "primary": sum(1 for a in alns if not a[2] & 3 and not a[2] & 4), "unaligned": 0}
        if r["stats"] != exp:
            return ("stats_mismatch:" + mode, "log counters %s, input categories %s" % (r["stats"], exp))
    if res["default"]["out"] != res["high_memory"]["out"]:
        d0, d1 = res["default"]["out"], res["high_memory"]["out"]
        k = next((i for i in range(min(len(d0), len(d1))) if d0[i] != d1[i]), min(len(d0), len(d1)))
        return ("memory_modes_differ", "first differing region #%d: default %s vs high_memory %s"
                % (k, _short(d0[k] if k < len(d0) else None, 200), _short(d1[k] if k < len(d1) else None, 200)))
    return None


def shrink(alns, fails, budget_s=8.0):
    """delta-debugging-lite: drop chunks while the failure persists"""
    import time
    t0 = time.time()
    cur = list(alns)
    chunk = max(1, len(cur) // 2)
    while chunk >= 1 and time.time() - t0 < budget_s:
        i = 0
        progressed = False
        while i < len(cur) and time.time() - t0 < budget_s:
            cand = cur[:i] + cur[i + chunk:]
            if cand and fails(cand):
                cur = cand
                progressed = True
            else:
                i += chunk
        if chunk == 1 and not progressed:
            break
        chunk = chunk // 2 if chunk > 1 else (1 if progressed else 0)
    return cur


def check_records(recs):
    """no identical twins after resolution; a read with records keeps at least one"""
    r = real_resolve_kept(recs)
    if isinstance(r, dict):
        return ("resolver_raises", r.get("exc"))
    kept, objs = r
    if recs and not kept:
        return ("read_lost_in_resolution", "all %d records of the read were suspended" % len(recs))
    for x in range(len(kept)):
        for y in range(x + 1, len(kept)):
            if objs[kept[x]] == objs[kept[y]]:
                return ("identical_twins_retained", "records %d and %d are equal under __eq__ and both retained" % (kept[x], kept[y]))
    return None


def realize(case):
    """alignment set whose coverage dictionary is the given one (spine + single-bin fillers), when possible"""
    cov = dict((k, v) for k, v in case["cov"])
    if not cov or any(v < 1 for v in cov.values()):
        return None
    first, last = min(cov), max(cov)
    if sorted(cov) != list(range(first, last + 1)):
        return None
    r0, r1 = case["R"]
    if r0 // 256 != first or r1 // 256 != last or r1 < r0:
        return None
    if sum(v - 1 for v in cov.values()) > 15000:
        return None
    alns = [G.aln(r0, r1 + 1, 0)]
    for b in range(first, last + 1):
        lo, hi = max(r0, b * 256), min(r1, b * 256 + 255)
        for j in range(cov[b] - 1):
            p = [lo, hi, lo + 1 if lo + 1 <= hi else lo][j % 3]
            alns.append(G.aln(p, p + 1, 0))
    return G.renumber(G.sort_alns(alns))


# --- pipeline level -------------------------------------------------------------------------------

def build_dataset(spec):
    """deterministic synthetic dataset from a small spec (so that a replay can rebuild it)"""
    import random
    from gen import synth
    rng = random.Random(spec["seed"])
    if spec["kind"] == "explicit":
        alns = spec["alns"]
    else:
        _, alns = G.split_cluster(rng, spec["kind"])
    ds = synth.Dataset(spec["seed"])
    hi = max(a[1] for a in alns) + 3000
    ds.add_chrom("chrS", hi)
    expected = collections.Counter()
    optional = set()
    cats = collections.Counter()
    min_mapq = spec.get("min_mapq", 0)
    for a in alns:
        name = "r%d" % a[4]
        flag = (256 if a[2] & 1 else 0) | (2048 if a[2] & 2 else 0)
        if a[2] & 4:
            continue
        if min_mapq and a[2] == 0 and a[4] % 37 == 5:
            a = [a[0], a[1], a[2], min_mapq - 1 - (a[4] % 3), a[4]]    # primary records below --min_mapq: filtered
        elif spec.get("low_mapq") and a[2] == 0 and a[4] % 29 == 3:
            a = [a[0], a[1], a[2], (a[4] // 29) % 6, a[4]]              # primary records with MAPQ 0..5
        ds.add_read(name, "chrS", a[0], "%dM" % (a[1] - a[0]), flag=flag, mapq=a[3])
        cats["secondary" if a[2] & 1 else "supplementary" if a[2] & 2 else "primary"] += 1
        # the filter model (docs/cmd.md + process_genic / process_intergenic): --min_mapq first; then, with an annotation,
        # an alignment that is not consistent with an isoform needs MAPQ >= inconsistent_mapq_cutoff (5) where its
        # (sub-)region loads a gene and an alignment with <= 2 exons needs MAPQ >= simple_alignments_mapq_cutoff (1) where
        # it does not; without annotation only the latter.  All reads here are unspliced.
        if not a[2] & 3 and a[3] >= min_mapq:
            if a[3] >= 5 or (not spec.get("genes") and a[3] >= 1):
                expected[name] += 1
            elif spec.get("genes"):
                optional.add(name)   # MAPQ 0..4 with an annotation: reported or not depending on the sub-region (and on consistency)
        elif a[2] & 1 and not a[2] & 2:
            optional.add(name)     # a secondary record may be reported (not constrained by the statement)
    for i in range(spec.get("unmapped", 0)):
        ds.add_read("u%d" % i, None, 0, "", flag=4)
        cats["unaligned"] += 1
    if spec.get("genes"):
        lo = min(a[0] for a in alns)
        span = max(a[1] for a in alns) - lo
        g = 0
        pos = lo + 50
        while pos + 1500 < lo + span and g < 6:
            ex = [(pos, pos + 200), (pos + 500, pos + 700), (pos + 1000, pos + 1300)]
            ds.add_gene("chrS", "G%d" % g, "+" if g % 2 == 0 else "-", [("T%d_a" % g, ex), ("T%d_b" % g, [ex[0], ex[2]])])
            g += 1
            pos += max(2000, span // 5)
        if g == 0:
            ds.add_gene("chrS", "G0", "+", [("T0_a", [(lo + 1, lo + 60), (lo + 120, lo + 200)])])
    return ds, expected, cats, optional


def check_pipeline(spec):
    """runs the real pipeline on the dataset in both memory modes; returns (kind, detail) or None"""
    import pipeline as P
    ds, expected, cats, optional = build_dataset(spec)
    genedb = bool(spec.get("genes"))
    for mode in ("default", "high_memory"):
        d = P.scratch("isoverif_c05_")
        try:
            paths = ds.write(os.path.join(d, "in"))
            out = os.path.join(d, "out")
            extra = (["--high_memory"] if mode == "high_memory" else []) + \
                    (["--min_mapq", str(spec["min_mapq"])] if spec.get("min_mapq") else []) + \
                    (["--sqanti_output"] if spec.get("sqanti") and genedb else [])
            # the output prefix is part of the input: any name the user may give with -p (pipeline.PREFIX_POOL holds names
            # that occur inside IsoQuant's own file suffixes: audit2-A F1)
            prefix = spec.get("prefix", "S")
            rc, log = P.run_isoquant(out, P.std_args(paths, prefix=prefix, genedb=genedb, extra=extra))
            if rc != 0:
                return ("pipeline_fails:" + mode, log[-600:])
            files = {"S" + fn[len(prefix):]: path for fn, path in P.out_files(out, prefix).items() if fn.startswith(prefix)}
            if "S.corrected_reads.bed" not in files:
                return ("no_outputs:" + mode, "exit code 0 but %s/%s.corrected_reads.bed does not exist" % (prefix, prefix))
            bed = collections.Counter(r[3] for r in P.read_bed(files["S.corrected_reads.bed"]))
            missing = sorted((expected - bed).elements())
            if missing:
                return ("read_missing_in_bed:" + mode, "%d of %d reads passing the filters are absent from corrected_reads.bed, e.g. %s"
                        % (len(missing), sum(expected.values()), missing[:3]))
            extra_ = sorted(n for n in (bed - expected).elements() if n not in optional)
            if extra_:
                return ("read_repeated_or_unexpected_in_bed:" + mode, "%d extra name(s), e.g. %s" % (len(extra_), extra_[:3]))
            if genedb:
                lines = P.read_lines(files["S.read_assignments.tsv"])
                ids = collections.Counter()
                seen_lines = collections.Counter(lines)
                twins = [l for l, n in seen_lines.items() if n > 1]
                if twins:
                    return ("identical_records_in_tsv:" + mode, twins[0][:200])
                for rid in set(l.split("\t")[0] for l in lines):
                    ids[rid] += 1
                missing = sorted((expected - ids).elements())
                if missing:
                    return ("read_missing_in_tsv:" + mode, "%d absent from read_assignments.tsv, e.g. %s" % (len(missing), missing[:3]))
                unexpected = sorted(set(ids) - set(expected) - optional)
                if unexpected:
                    return ("unexpected_read_in_tsv:" + mode, str(unexpected[:3]))
            st = {}
            m = re.search(r"overall alignment statistics:?(.*?)(?:Finishing read assignment|No reads were assigned)", log, re.S)
            if m:
                for k, v in re.findall(r"(primary|secondary|supplementary|unaligned): (\d+)", m.group(1)):
                    st[k] = int(v)
                exp = {k: v for k, v in cats.items() if v}
                st = {k: v for k, v in st.items() if v}
                if st != exp:
                    return ("log_stats_mismatch:" + mode, "log %s vs input %s" % (st, exp))
            else:
                return ("log_stats_missing:" + mode, "statistics block not found in the log")
        finally:
            shutil.rmtree(d, ignore_errors=True)
    return None


REGRESSION_SPECS = [
    # the four defects of the pinned tree (fixed by 18af3e5 / 4a83800), kept as regression inputs
    {"kind": "single_bin", "seed": 11},
    {"kind": "first_base", "seed": 12},
    {"kind": "pile_bridge_tail", "seed": 13},
    {"kind": "final_bin_valley", "seed": 14},
]


def witness_alns():
    """inputs of the Lean `…_witness` theorems (Props/C05.lean) as alignment sets for the real code"""
    w = {}
    w["memory_tail_witness"] = G.renumber([G.aln(0, 300, 0), G.aln(10, 600, 0), G.aln(520, 560, 0)])
    cov = [[i, 1 if i in (130, 269) else 5] for i in range(270)]     # same shape as the Lean `valleyDict`, lower depth
    w["split_last_bin_witness"] = realize({"R": [0, 68964], "count": 2000, "cov": cov})
    w["split_single_bin_witness"] = G.renumber(G.sort_alns([G.aln(1030 + i % 5, 1100 + i % 6, 0) for i in range(1100)]))
    w["split_first_base_witness"] = realize({"R": [1024, 1283], "count": 1100, "cov": [[4, 1100], [5, 3]]})
    # the same two defects with >= 2 sub-regions (where the old tree lost reads end-to-end)
    import random
    w["memory_tail_split_cluster"] = G.split_cluster(random.Random(13), "pile_bridge_tail")[1]
    fb = [G.aln(1024, 1025, 0)] + [G.aln(1024 + i % 5, 1425 + i % 7, 0) for i in range(1100)] + [G.aln(1400, 40000, 0)] + \
         [G.aln(39000 + i, 39900 + i, 0) for i in range(30)]
    w["first_base_split_cluster"] = G.renumber(G.sort_alns(fb))
    return w


def oracle(ctx, disagreements, broken):
    import pipeline as P
    pf = _sub_prefix(ctx)
    P.use_prefix(pf)
    try:
        _oracle(ctx, disagreements, broken)
    finally:
        P.use_prefix("S")
        for f in ctx.failures:
            if isinstance(f.get("input"), dict) and f["input"].get("level") != "pipeline":
                f["input"].setdefault("prefix", pf)


def _oracle(ctx, disagreements, broken):
    rng = ctx.rng
    quick = ctx.tier == "quick"
    n_cases = 0
    # 0. `merged_hash_witness` (Props/C05Printers.lean) replayed on the real merge_files and the real command line
    from props import C15print
    C15print.oracle(ctx)
    # 1. seeded with the disagreeing inputs
    for d in [x for x in disagreements if x["op"] not in ("collect_raw", "raw_stats", "bed_lines", "C05.intergenic_records")][:40]:
        inp = d["input"]
        alns = None
        if isinstance(inp, dict) and "alns" in inp and isinstance(inp["alns"], list) and inp["alns"]:
            alns = inp["alns"]
        elif d["op"] == "split" and isinstance(inp, dict):
            alns = realize(inp)
        if alns:
            n_cases += 1
            _report_alns(ctx, alns)
        if d["op"] in ("resolve_kept", "find_duplicates", "select_best") and isinstance(inp, dict):
            r = check_records(inp["recs"])
            if r:
                ctx.fail(r[0], {"level": "records", "recs": inp["recs"]}, r[1])
    # 1b. the Lean witnesses of the pre-fix behaviour, replayed on the real code (regression inputs);
    #     the executable `…Buggy` model must still lose alignments on them (the witnesses are not vacuous)
    buggy_losses = {}
    for name, alns in witness_alns().items():
        n_cases += 1
        ctx.count("oracle_witness_replay")
        _report_alns(ctx, alns)
        if ctx.driver.available():
            try:
                outs = ctx.driver.run([vlib.req("C05.collect_buggy", mode=mo, alns=alns) for mo in ("bam", "memory")])
                lost = 0
                for o in outs:
                    if isinstance(o, list):
                        seen = set(i for _, ids in o for i in ids)
                        lost = max(lost, len(alns) - len(seen))
                buggy_losses[name] = lost
            except Exception as ex:   # the driver is optional for the oracle
                buggy_losses[name] = "driver: %s" % type(ex).__name__
    ctx.extra["alignments_lost_by_prefix_model_on_witness_inputs"] = buggy_losses
    # 2. in-process search
    n_big = (60 if quick else 600) * (3 if broken else 1)
    for i in range(n_big):
        kind, alns = G.split_cluster(rng)
        ctx.count("oracle_kind:" + kind)
        n_cases += 1
        if _report_alns(ctx, alns) and len(ctx.failures) >= 5:
            break
    for i in range(300 if quick else 3000):
        n_cases += 1
        _report_alns(ctx, G.small_cluster_set(rng), small=True)
    for c in [G.rand_cov_case(rng) for _ in range(30 if quick else 300)]:
        alns = realize(c)
        if alns and len(alns) < 6000:
            n_cases += 1
            ctx.count("oracle_realized_profile")
            _report_alns(ctx, alns)
    for _ in range(1500 if quick else 20000):
        recs = G.rand_records(rng)
        n_cases += 1
        r = check_records(recs)
        if r:
            ctx.fail(r[0], {"level": "records", "recs": recs}, r[1])
            if len(ctx.failures) > 10:
                break
    # 3. the real pipeline on synthetic BAMs (both memory modes each)
    specs = list(REGRESSION_SPECS)
    specs[0] = dict(specs[0], genes=True)
    specs[1] = dict(specs[1], low_mapq=True)
    specs[2] = dict(specs[2], genes=True, low_mapq=True)
    specs[3] = dict(specs[3], genes=True, unmapped=2)
    if quick:
        for i in range(8):
            specs.append({"kind": rng.choice(["pile_bridge_tail", "final_bin_valley", "single_bin", "first_base", "long_ladder",
                                              "two_piles", "random_profile", "thin_long"]),
                          "seed": rng.randint(0, 10 ** 6), "genes": rng.random() < 0.5,
                          "min_mapq": rng.choice([0, 10]), "unmapped": rng.choice([0, 1]), "low_mapq": rng.random() < 0.7})
    else:
        for i in range(100):
            specs.append({"kind": rng.choice(["pile_bridge_tail", "final_bin_valley", "single_bin", "first_base", "long_ladder",
                                              "two_piles", "random_profile", "thin_long"]),
                          "seed": rng.randint(0, 10 ** 6), "genes": rng.random() < 0.5,
                          "min_mapq": rng.choice([0, 0, 10]), "unmapped": rng.choice([0, 3]), "low_mapq": rng.random() < 0.7})
    # the output prefix is drawn per run (audit2-A F1: it used to be the constant `S`); the regression inputs walk through
    # the pool so that every quick run meets a prefix inside a file suffix, one of them `S` + --sqanti_output
    import pipeline as P
    for i, spec in enumerate(specs):
        spec["prefix"] = P.PREFIX_POOL[i] if i < 4 else P.pick_prefix(rng)
        spec["sqanti"] = bool(spec.get("genes")) and (spec["prefix"] == "S" or rng.random() < 0.3)
        ctx.count("oracle_pipeline_prefix:" + spec["prefix"] + ("+sqanti" if spec["sqanti"] else ""))
    for spec in specs:
        if ctx.elapsed() > (150 if quick else 1000):
            ctx.notes.append("pipeline oracle stopped early (time budget)")
            break
        n_cases += 1
        ctx.count("oracle_pipeline:" + spec["kind"])
        r = check_pipeline(spec)
        if r:
            ctx.fail(r[0], {"level": "pipeline", "spec": spec}, r[1])
    ctx.extra["oracle_cases"] = n_cases
    # 4. experiments made of several BAM files
    from props import C05multi
    C05multi.oracle(ctx, disagreements, broken)
    from props import C05headers
    C05headers.oracle(ctx, disagreements, broken)
    from props import C05intergenic
    C05intergenic.oracle(ctx, disagreements, broken)
    # 5. records the pipeline must digest, twin BED lines, repeated names, MAPQ 0..5 (props/C05edge.py)
    from props import C05edge
    C05edge.oracle(ctx, disagreements, broken)
    from props import C05contigs
    C05contigs.oracle(ctx)
    # 6. file names between the chromosome tasks and the merge (any output prefix); short-read BAM with its own contig
    #    set; reference sequence names that cannot be part of a file name (props/C05names.py, props/C05short.py)
    from props import C05names, C05short
    C05names.oracle(ctx, disagreements)
    C05short.oracle(ctx)


def _report_alns(ctx, alns, small=False):
    r = check_alns(alns)
    if not r:
        return False
    kind = r[0]
    if not small and len(alns) > 30:
        alns = shrink(alns, lambda c: (lambda x: x is not None and x[0] == kind)(check_alns(G.renumber(c))))
        alns = G.renumber(alns)
        r = check_alns(alns) or r
    ctx.fail(r[0], {"level": "inproc", "alns": alns}, r[1])
    return True


def replay(ctx, failure):
    import pipeline as P
    P.use_prefix(failure["input"].get("prefix", "S") if isinstance(failure.get("input"), dict) else "S")
    try:
        return _replay(ctx, failure)
    finally:
        P.use_prefix("S")


def _replay(ctx, failure):
    inp = failure["input"]
    if str(failure.get("kind", "")).startswith("printers:"):
        from props import C15print
        return C15print.replay(ctx, failure)["reproduced"]
    if inp.get("level") == "inproc":
        return check_alns(inp["alns"]) is not None
    if inp.get("level") == "records":
        return check_records(inp["recs"]) is not None
    if inp.get("level") == "pipeline":
        return check_pipeline(inp["spec"]) is not None
    if inp.get("level") == "contigs":
        from props import C05contigs
        return C05contigs.replay(ctx, failure)
    if str(inp.get("level", "")).startswith("edge"):
        from props import C05edge
        return C05edge.replay(ctx, failure)
    if str(inp.get("level", "")).startswith("intergenic"):
        from props import C05intergenic
        return C05intergenic.replay(ctx, failure)
    if str(inp.get("level", "")).startswith("multi_headers"):
        from props import C05headers
        return C05headers.replay(ctx, failure)
    if str(inp.get("level", "")).startswith("multi"):
        from props import C05multi
        return C05multi.replay(ctx, failure)
    if inp.get("level") == "names":
        from props import C05names
        return C05names.replay(ctx, failure)
    if inp.get("level") == "short":
        from props import C05short
        return C05short.replay(ctx, failure)
    return False


def matches_finding(failure, entry):
    return failure["kind"].split(":")[0] == entry.get("kind")
