"""C04 growth: `detect_similar_isoforms` / `filter_transcripts` COMPUTED by the model (Model/SimilarIsoforms.lean).

Correspondence: real GraphBasedModelConstructor objects (real GeneInfo.from_models, LongReadAssigner, CombinedProfileConstructor,
is_matching_assignment, correct_novel_transcript_ends, pre_filter_transcripts, filter_transcripts, delete_from_storage; only the
component-coverage functions of the intron graph are stubs answering from the generated JSON) vs the driver ops
`C04.detect_similar`, `C04.sim_filter`, `C04.is_matching`.
Oracle: the distinctness clause (spliced novel models of one strand have pairwise distinct intron chains) and the bookkeeping
clauses on the output of the REAL filter; duplicates are classified by `unmatched_class`.
"""
import types
from collections import defaultdict

import vlib
from gen import simmodels as SM

FINDING_ID = "multiexon_unnested_ends_duplicates"
FINDING_KIND = "duplicate_novel_chain"
FINDING_CLASS = "multiexon_unnested_ends"

STRATEGIES = ["exact", "precise", "default", "loose"]


def _mods():
    from props import C04, C01
    from gen import c01_cmp as CMP
    return C04, C01, CMP


_PARAM_CACHE = {}


def matching_params(strategy):
    C04, C01, CMP = _mods()
    if strategy not in _PARAM_CACHE:
        _PARAM_CACHE[strategy] = C01.make_params(strategy)
    return _PARAM_CACHE[strategy]


def full_params(kw):
    """the args namespace the constructor sees: the matching options exactly as isoquant.py derives them for the strategy, plus
    the model-construction fields the filters read"""
    C04, C01, CMP = _mods()
    base = matching_params(kw["strategy"])
    p = types.SimpleNamespace(**vars(base))
    for k, v in kw.get("override", {}).items():
        setattr(p, k, v)
    p.min_novel_count = kw["min_novel_count"]
    p.simple_models_mapq_cutoff = kw["mapq_cutoff"]
    p.min_mono_count_rel = kw["_rel"][0]
    p.min_novel_count_rel = kw["_rel"][1]
    return p


def params_json(p):
    C04, C01, CMP = _mods()
    return {"params": CMP.params_json(p), "cparams": CMP.cparams_json(p)}


def build_constructor(kw):
    """real constructor holding the generated storage; -> (constructor, params)"""
    C04, C01, CMP = _mods()
    IG, GB, GI, PF, TP = C04._impl()
    p = full_params(kw)
    c = C04.fake_constructor(GB, GI)
    c.params = p
    reads = {}
    spans = dict((k, v) for k, v in kw["spans"])
    mapq = dict((k, v) for k, v in kw["mapq"])

    def get_read(rid):
        if rid not in reads:
            sp = spans.get(rid, (0, 0))
            reads[rid] = C04.FakeRead({"id": rid, "exons": [tuple(sp)], "introns": [], "mm": False, "strand": "+", "polya": False,
                                       "polyt": False, "group": "g", "mapq": mapq.get(rid, 0)})
        return reads[rid]
    for mj, rds in zip(kw["models"], kw["_reads"]):
        m = GI.TranscriptModel(mj["chr"], mj["strand"], mj["tid"], mj["gene"], [tuple(e) for e in mj["exons"]],
                               GI.TranscriptModelType[mj["type"]])
        m.intron_path = tuple(tuple(i) for i in mj["intron_path"])
        c.transcript_model_storage.append(m)
        for r in rds:
            c.save_assigned_read(get_read(r), m.transcript_id)
    return c, p


ERRS = (KeyError, ZeroDivisionError, IndexError, AssertionError, ValueError, TypeError, AttributeError)


def real_detect(kw):
    C04, C01, CMP = _mods()
    c, p = build_constructor(kw)
    try:
        sub = c.detect_similar_isoforms(c.transcript_model_storage)
    except ERRS as ex:
        return {"error": "error", "exc": type(ex).__name__}
    return [[k, v] for k, v in sub.items()]


def real_sim_filter(kw):
    """[pre_filter_transcripts;] filter_transcripts on the real constructor; -> (canonical result | error, constructor, calls)"""
    C04, C01, CMP = _mods()
    IG, GB, GI, PF, TP = C04._impl()
    c, p = build_constructor(kw)
    calls = []
    orig = c.detect_similar_isoforms

    def traced(storage):
        r = orig(storage)
        calls.append([[k, v] for k, v in r.items()])
        return r
    c.detect_similar_isoforms = traced
    covs = dict((k, v) for k, v in kw["_covs"])
    try:
        if kw["pre_filter"]:
            c.pre_filter_transcripts()
        order = [m.transcript_id for m in c.transcript_model_storage if m.transcript_type != GI.TranscriptModelType.known]
        it = iter([covs[t] for t in order])
        cur = {}

        def gmc(path, it=it, cur=cur):
            cur["v"] = next(it)
            return cur["v"][0]
        c.intron_graph = types.SimpleNamespace(get_max_component_coverage=gmc,
                                               is_monointron=lambda v, cur=cur: cur["v"][1],
                                               get_overlapping_component_max_coverage=lambda r_, cur=cur: cur["v"][2])
        c.filter_transcripts()
    except ERRS as ex:
        return {"error": "error", "exc": type(ex).__name__}, c, calls
    return {"store": C04.store_json(c), "sub1": calls[0] if calls else []}, c, calls


def gen_case(rng, tiny=False):
    """one storage + reads + parameters (JSON-able; underscore keys are harness-side only)"""
    C04, C01, CMP = _mods()
    presets, _ = C04._PRESETS()
    name = rng.choice(C04.PRESET_NAMES)
    a = presets[(name, "auto")]
    strategy = rng.choice(STRATEGIES)
    override = {}
    scale = 1
    if rng.random() < 0.15:
        override["delta"] = rng.choice([0, 3, 12])
    if rng.random() < 0.15:
        override["apa_delta"] = rng.choice([10, 100])
    delta = override.get("delta", matching_params(strategy).delta)
    if rng.random() < 0.03:
        models = SM.negative_storage(rng)
    else:
        models = SM.gen_storage(rng, delta, scale)
    per, spans, mapq = SM.gen_reads(rng, models, scale)
    mnc = rng.choice([a.min_novel_count, 1, 1, 2, 3])
    rel_mono, rel_novel = C04.milli(a.min_mono_count_rel), C04.milli(a.min_novel_count_rel)
    covs, cov_term = [], []
    for m in models:
        if m["type"] == "known":
            continue
        while True:
            cov1 = rng.choice([0, 0, 3, 10, 57, 150, 333, 1000])
            cov2 = rng.choice([0, 7, 49, 151, 2003])
            mono = rng.random() < 0.5
            use_mono = cov1 == 0 or len(m["intron_path"]) == 0 or (len(m["intron_path"]) == 1 and mono)
            prod = (a.min_mono_count_rel * cov2) if use_mono else (a.min_novel_count_rel * cov1)
            if abs(prod - round(prod)) > 1e-6 or prod == round(prod):
                break
        covs.append([m["tid"], [cov1, mono, cov2]])
        cov_term.append([m["tid"], (rel_mono * cov2) if use_mono else (rel_novel * cov1)])
    kw = {"strategy": strategy, "override": override, "models": models, "_reads": [per[m["tid"]] for m in models],
          "spans": [[k, v] for k, v in spans.items()], "mapq": [[k, v] for k, v in mapq.items()],
          "min_novel_count": mnc, "mapq_cutoff": 30, "_rel": [a.min_mono_count_rel, a.min_novel_count_rel],
          "cov_term": cov_term, "_covs": covs, "pre_filter": rng.random() < 0.5}
    return kw


def driver_kw(kw, store):
    p = full_params(kw)
    d = params_json(p)
    d.update({"store": store, "mapq": kw["mapq"], "spans": kw["spans"], "cov_term": kw["cov_term"],
              "min_novel_count": kw["min_novel_count"], "mapq_cutoff": kw["mapq_cutoff"], "pre_filter": kw["pre_filter"],
              "_case": kw})
    return d


def slim(kw):
    return {k: v for k, v in kw.items()}


# ------------------------------------------------------------------ the pair universe (same chain, ends on the thresholds)

PAIR_BASE = [(1000, 1200), (1300, 1400), (1500, 1700)]
PAIR_OFFS = [-301, -300, -51, -50, -11, -10, -7, -6, 0, 6, 7, 10, 11, 50, 51, 190, 195, 196, 197, 200]


def pair_models(ds, de, base=PAIR_BASE, strand="+"):
    """A = base; B = the same chain with start moved by ds (negative = further out) and end moved by de (positive = further out)"""
    ex = [tuple(e) for e in base]
    s = min(ex[0][0] + ds, ex[0][1])
    e = max(ex[-1][1] + de, ex[-1][0])
    b = [(s, ex[0][1])] + ex[1:-1] + [(ex[-1][0], e)]
    return [SM.model_dict(1, ex, strand, False), SM.model_dict(2, b, strand, False)]


def pair_case(models, strategy="default", override=None):
    return {"strategy": strategy, "override": override or {}, "models": models, "_reads": [[] for _ in models], "spans": [], "mapq": [],
            "min_novel_count": 1, "mapq_cutoff": 30, "_rel": [0.0, 0.0], "cov_term": [], "_covs": [], "pre_filter": False}


def detect_kw(kw):
    d = params_json(full_params(kw))
    d["models"] = kw["models"]
    d["_case"] = kw
    return d


# ------------------------------------------------------------------ correspondence

def corr_is_matching(ctx):
    """is_matching_assignment for every assignment type x {no match, every single event, a pair with a forbidden event}"""
    C04, C01, CMP = _mods()
    vlib.repo_on_path()
    from src.isoform_assignment import ReadAssignmentType, MatchEventSubtype, is_matching_assignment
    cases, vals = [], []
    for t in ReadAssignmentType:
        combos = [None, []] + [[e.name] for e in MatchEventSubtype] + [["fsm", e.name] for e in list(MatchEventSubtype)[::5]]
        for evs in combos:
            ms = [] if evs is None else [types.SimpleNamespace(
                match_subclassifications=[types.SimpleNamespace(event_type=MatchEventSubtype[e]) for e in evs])]
            fa = types.SimpleNamespace(assignment_type=t, isoform_matches=ms)
            try:
                v = bool(is_matching_assignment(fa))
            except IndexError:
                v = {"error": "error", "exc": "IndexError"}
            cases.append(("is_matching", {"type": t.name, "events": evs}))
            vals.append(v)
    C04.run_cases(ctx, cases, vals, lambda op, kw, mo: mo is True)


def corr_pairs(ctx):
    """same-chain pairs with both ends on every threshold of the assigner (exhaustive grid; quick: a third, by seed)"""
    C04, C01, CMP = _mods()
    grid = [(ds, de) for ds in PAIR_OFFS for de in PAIR_OFFS]
    if ctx.tier == "quick":
        grid = [g for i, g in enumerate(grid) if (i + ctx.seed) % 3 == 0]
    ctx.extra["sim_pair_universe"] = {"offsets": PAIR_OFFS, "pairs": len(grid), "strategies": ["default", "exact"]}
    cases, vals = [], []
    both = 0
    for strategy in ("default", "exact"):
        for ds, de in grid:
            kw = pair_case(pair_models(ds, de), strategy)
            iv = real_detect(kw)
            cases.append(("detect_similar", detect_kw(kw)))
            vals.append(iv)
            if iv == []:
                both += 1
                ctx.count("sim_pair:both_survive")
            elif not vlib.is_err(iv):
                ctx.count("sim_pair:one_substituted")
    C04.run_cases(ctx, cases, vals, lambda op, kw, mo: not vlib.is_err(mo))
    ctx.extra["sim_pair_both_survive"] = both


def corr_storages(ctx, n):
    C04, C01, CMP = _mods()
    cases, vals = [], []
    for _ in range(n):
        kw = gen_case(ctx.rng)
        iv = real_detect(kw)
        cases.append(("detect_similar", detect_kw(kw)))
        vals.append(iv)
        ctx.count("sim_detect:substituted=%d" % (len(iv) if not vlib.is_err(iv) else -1))
        c0, _p = build_constructor(kw)
        store0 = C04.store_json(c0)
        rv, _c, calls = real_sim_filter(kw)
        cases.append(("sim_filter", driver_kw(kw, store0)))
        vals.append(rv)
        if not vlib.is_err(rv):
            ctx.count("sim_filter:deleted=%d" % (len(kw["models"]) - len(rv["store"]["models"])))
            if any(a["exons"] != b["exons"] for a in rv["store"]["models"] for b in kw["models"] if a["tid"] == b["tid"]):
                ctx.count("sim_filter:ends_corrected")
            if len(calls) == 2 and calls[1]:
                ctx.count("sim_filter:second_pass_substitutes")
        else:
            ctx.count("sim_filter:error")
    C04.run_cases(ctx, cases, vals,
                  lambda op, kw, mo: not vlib.is_err(mo) and (len(mo) > 0 if op == "detect_similar" else len(mo["store"]["models"]) > 0))


WITNESS = {"A": [(1000, 1200), (1300, 1400), (1500, 1600)], "B": [(1100, 1200), (1300, 1400), (1500, 1700)]}


def witness_case():
    """the witness of `chains_distinct_after_filter_witness` (Props/C04Similar.lean): two novel 3-exon models with ONE intron
    chain, A starts 100 bp before B, B ends 100 bp after A, three reads each, default matching parameters"""
    models = [SM.model_dict(1, WITNESS["A"], "+", False), SM.model_dict(2, WITNESS["B"], "+", False)]
    reads = [["a1", "a2", "a3"], ["b1", "b2", "b3"]]
    spans = [[r, [1000, 1600]] for r in reads[0]] + [[r, [1100, 1700]] for r in reads[1]]
    return {"strategy": "default", "override": {}, "models": models, "_reads": reads, "spans": spans,
            "mapq": [[r, 60] for rs in reads for r in rs], "min_novel_count": 2, "mapq_cutoff": 30, "_rel": [0.0, 0.0],
            "cov_term": [[m["tid"], 0] for m in models], "_covs": [[m["tid"], [10, False, 0]] for m in models], "pre_filter": True}


def corr_witness(ctx):
    """the Lean witness on the real filter_transcripts and through the driver"""
    C04, C01, CMP = _mods()
    kw = witness_case()
    c0, _p = build_constructor(kw)
    rv, c, calls = real_sim_filter(kw)
    C04.run_cases(ctx, [("sim_filter", driver_kw(kw, C04.store_json(c0)))], [rv], lambda op, kw_, mo: not vlib.is_err(mo))
    ok = (not vlib.is_err(rv)) and [m["tid"] for m in rv["store"]["models"]] == [m["tid"] for m in kw["models"]]
    ctx.extra["sim_witness_on_real_filter_transcripts"] = {
        "both_models_survive": ok, "intron_chain": [list(i) for i in SM.junctions(WITNESS["A"])],
        "exons_after": None if vlib.is_err(rv) else [m["exons"] for m in rv["store"]["models"]]}
    return ok


def correspondence(ctx):
    q = ctx.tier == "quick"
    corr_is_matching(ctx)
    corr_pairs(ctx)
    corr_storages(ctx, 350 if q else 4000)
    corr_witness(ctx)


# ------------------------------------------------------------------ oracle (real code only)

def fits(params, m_exons, M_exons):
    """geometric reading of "m would be substituted by M" for two models with ONE intron chain (>= 3 exons): both ends of m lie
    inside M or at most `minor_exon_extension` beyond it (no major_exon_elongation_left / _right).  Used only to CLASSIFY
    duplicates found on the real output."""
    mn = params.minor_exon_extension
    s_m, e_m = m_exons[0][0], m_exons[-1][1]
    s_M, e_M = M_exons[0][0], M_exons[-1][1]
    if s_M - s_m > mn or e_m - e_M > mn:
        return False
    return True


def unmatched_class(params, a_exons, b_exons):
    """class of a same-chain pair that both survive: FINDING_CLASS when neither model fits into the other, else 'multi_exon'"""
    if not fits(params, a_exons, b_exons) and not fits(params, b_exons, a_exons):
        return FINDING_CLASS
    return "multi_exon"


def in_domain(m):
    """novel spliced models as construct_fl_isoforms builds them: >= 3 exons, intron_path = the junctions of the exons, genomic
    (1-based, positive) coordinates"""
    ex = [tuple(e) for e in m["exons"]]
    return (m["type"] != "known" and len(ex) >= 3 and [tuple(i) for i in m["intron_path"]] == SM.junctions(ex)
            and ex[0][0] >= 1 and all(a[0] <= a[1] for a in ex) and all(ex[i][1] + 1 < ex[i + 1][0] for i in range(len(ex) - 1)))


def oracle_case(kw):
    """the clauses on the REAL filter output; -> None | (kind, class, detail)"""
    C04, C01, CMP = _mods()
    c0, p = build_constructor(kw)
    before = C04.store_json(c0)
    rv, c, calls = real_sim_filter(kw)
    if vlib.is_err(rv):
        return None
    out = rv["store"]
    ids_in = [m["tid"] for m in kw["models"]]
    ids_out = [m["tid"] for m in out["models"]]
    # the filters only delete, in order
    it = iter(ids_in)
    if not all(t in it for t in ids_out):
        return ("filter_invents_model", "", "output ids %s are not a subsequence of the input ids %s" % (ids_out, ids_in))
    by_id = {m["tid"]: m for m in kw["models"]}
    for m in out["models"]:
        src = by_id[m["tid"]]
        if m["type"] == "known" and m != src:
            return ("known_model_changed", "", "known model %s was changed by the filters" % m["tid"])
        if junctions_of(m["exons"]) != junctions_of(src["exons"]) or m["strand"] != src["strand"]:
            return ("filter_changes_chain", "", "model %s: introns / strand changed by the filters" % m["tid"])
    for m in kw["models"]:
        if m["type"] == "known" and m["tid"] not in ids_out:
            return ("known_model_dropped", "", "known model %s was dropped by the filters" % m["tid"])
    rids = dict((k, v) for k, v in out["read_ids"])
    for m in out["models"]:
        if m["type"] != "known" and kw["min_novel_count"] >= 1 and len(rids.get(m["tid"], [])) < 1:
            return ("no_supporting_read", "", "surviving novel model %s has no read in transcript_read_ids" % m["tid"])
    # read_assignment_counts stays the number of listed occurrences
    occ = defaultdict(int)
    for t, rs in out["read_ids"]:
        for r in rs:
            occ[r] += 1
    for r, v in out["rcount"]:
        if v != occ[r]:
            return ("read_count_inconsistent", "", "read_assignment_counts[%s] = %d but the read is listed %d times" % (r, v, occ[r]))
    # distinctness
    dom = [m for m in out["models"] if in_domain(m)]
    for i in range(len(dom)):
        for j in range(i + 1, len(dom)):
            a, b = dom[i], dom[j]
            if a["strand"] == b["strand"] and junctions_of(a["exons"]) == junctions_of(b["exons"]):
                cls = unmatched_class(p, [tuple(e) for e in a["exons"]], [tuple(e) for e in b["exons"]])
                return (FINDING_KIND, cls, "novel %s %s and %s %s survive filter_transcripts with one intron chain on strand %s"
                        % (a["tid"], a["exons"], b["tid"], b["exons"], a["strand"]))
    return None


def junctions_of(exons):
    return SM.junctions([tuple(e) for e in exons])


def finding_listed():
    kf = vlib.load_known_findings()
    return any(e.get("property") == "C04" and e.get("id") == FINDING_ID for e in kf.get("findings", []))


def report(ctx, r, kw, op="sim_filter"):
    """a failure of the finding class is reported as a failure only when the finding is listed in known_findings.json (the builder
    may not edit that file); until then it is counted in the evidence.  Every other class is always a failure."""
    kind, cls, detail = r
    if kind == FINDING_KIND and cls == FINDING_CLASS and not finding_listed():
        ctx.count("proposed_finding:%s" % FINDING_CLASS)
        if "proposed_finding_example" not in ctx.extra:
            ctx.extra["proposed_finding_example"] = {"detail": detail, "id": FINDING_ID}
        return
    ctx.fail(kind, {"level": "inproc", "op": op, "args": kw, "class": cls}, detail)


def oracle(ctx, disagreements, broken):
    q = ctx.tier == "quick" and not broken
    n = 0
    for d in disagreements:
        kw = d["input"].get("_case") if d["op"] in ("sim_filter", "detect_similar") else None
        if kw is None:
            continue
        try:
            r = oracle_case(kw)
        except Exception as ex:
            ctx.notes.append("oracle could not evaluate a disagreeing %s input: %s" % (d["op"], type(ex).__name__))
            continue
        n += 1
        if r:
            report(ctx, r, kw, d["op"])
    for _ in range(400 if q else 6000):
        kw = gen_case(ctx.rng)
        r = oracle_case(kw)
        n += 1
        if r:
            report(ctx, r, kw)
            if len(ctx.failures) > 20:
                break
    # the witness, on the real function
    r = oracle_case(witness_case())
    ctx.extra["sim_witness_oracle"] = list(r) if r else None
    if r:
        report(ctx, r, witness_case())
    ctx.extra["sim_oracle_cases"] = n


def replay_case(kw):
    return oracle_case(kw)
