"""C01 — reads that follow an annotated isoform are assigned to compatible isoforms only."""
import argparse
import json
import os
import re
import shutil
import types
from fractions import Fraction

import vlib
from gen import c01_annot as A
from gen import c01_cmp as CMP

ID = "C01"
PROPS = ["IsoVerif/Props/C01.lean", "IsoVerif/Props/C01Path.lean", "IsoVerif/Props/C01Far.lean",
         "IsoVerif/Props/C01Compare.lean", "IsoVerif/Props/C01Converse.lean", "IsoVerif/Props/C01Polya.lean",
         "IsoVerif/Props/C01Follow.lean", "IsoVerif/Props/C01FakeTerminal.lean", "IsoVerif/Props/C01Tail.lean"]
TARGETS = ["IsoVerif.Props.C01", "IsoVerif.Props.C01Path", "IsoVerif.Props.C01Far", "IsoVerif.Props.C01Compare",
           "IsoVerif.Props.C01Converse", "IsoVerif.Props.C01Polya", "IsoVerif.Props.C01Follow",
           "IsoVerif.Props.C01FakeTerminal", "IsoVerif.Props.C01Tail"]
GEN_DEPS = ["Prims", "Enums", "EventClasses", "Strategies", "ComparatorTables"]
LEVEL = "proof"
RULE = ("seeded random annotations (1-3 overlapping / nested / antisense genes, 1-6 isoforms each: exon skipping, alt 5'/3' "
        "sites at 0..13 and 20..150 bp, intron retention, truncated / extended ends, mono-exon, novel exons) at genome scale "
        "and at a tiny scale (all lengths / parameters shrunk so that micro-features and every boundary are hit) x the four "
        "matching presets (+ delta / resolve_ambiguous overrides and shrunk parameter sets) x reads derived from an isoform "
        "(5'/3' truncation, per-site jitter <= delta, ends inside or slightly beyond terminal exons), far-off reads (skipped / "
        "novel exon, retained intron, shifted site, extended end, novel intron), reads with short (around "
        "max_fake_terminal_exon_len) extra outermost exons in front of a tolerated / minor / major overhang of the next exon "
        "(audit C01-G1; also a stand-alone stage on categorize_exon_elongation_subtype), arbitrary block lists, with and without "
        "polyA/T positions; a case is non-trivial when the model returns a non-error assignment with at least one isoform "
        "and model == implementation; distinct by (annotation, parameters, blocks, polyA)")
TRUSTED = ["Gen/EventClasses.lean, Gen/Enums.lean, Gen/Strategies.lean, Gen/ComparatorTables.lean are extracted from "
           "src/isoform_assignment.py / isoquant.py / src/junction_comparator.py (each table row is also compared with the "
           "Python object through the driver on every run)",
           "JunctionComparator.compare_junctions IS modelled (Model/JunctionCompare.lean) and compared with the real comparator "
           "(events, contradictory region pairs, read presence list) on the literal corpus of tests/test_long_read_assigner.py, "
           "exhaustive / sampled small universes, random and malformed chains, and for every (read, isoform) of the generated "
           "annotations; the assigner is compared both with the real comparator's answer as input (`assign`) and with the "
           "modelled comparator (`assign_m`)",
           "harness/gen/c01_cmp.py: RealComparator (builds the comparator as LongReadAssigner.__init__ does; the constructor "
           "expression is checked against the source on every run), py_tolerance / py_chains_wf (the oracle's position-only "
           "form of the theorems' hypotheses, compared with the Lean predicates through driver op C01.tolerance)",
           "harness/gen/c01_annot.py: follow_hyp / follows_exact (position-only Python form of Lean FollowHyp / FollowsExact of "
           "Props/C01Follow.lean; tied to the Lean form only through the theorem itself: a model answer outside the consistent / "
           "fallback path for a read the Python predicate accepts is reported as op follow_hyp_model)"]
ASSUMPTIONS = ["CPython int semantics = Lean Int",
               "the model describes the code WITH fix_fake_terminal_elongation.patch (audit C01-G1): on a tree without it the "
               "check reports the defect (replay far_read_consistent) and the correspondence disagreements carry "
               "matches_orig = true (Model/Assign.lean elongationEventsOrig)",
               "hypothesis PolyAOutside (consistent_path_sound, unique_when_only) is monitored, not proved: real "
               "AlignmentInfo + PolyAFinder + PolyAFixer on every record of the oracle's pipeline BAMs and on a search over "
               "records with terminal aligned blocks of 1..60 bases; it is known to fail behind a terminal block of 1-2 bases "
               "(class polya_outside_short_terminal_exon, evidence notes)",
               "score hypothesis of full_length_reported (score(T) >= 2/3 of every candidate's) is monitored by the oracle on "
               "the reported isoforms (reading rule: T reported unless another candidate's Jaccard score exceeds 3/2 of T's)",
               "tail position (audit-2 C01-a): the oracle takes the tail a read carries from the REAL PolyAFinder + PolyAFixer "
               "(external / internal polyA, polyT position of its BAM record; in-process: the four positions handed to the "
               "profile constructor); reading rule: forward clause for T when no tail or a reported position within 2 bases of "
               "T's annotated 3' end, distant end (converse clause) when every reported position is >= 200 bp from it, in between "
               "unconstrained, a tail on T's 5' side is no tolerance.  The finder itself is watched by a position-only monitor "
               "(finder_spec_check, 5 rules on the read sequence); Props/C01Tail.lean states the same dependence with apa_delta "
               "as TailWithin / TailBeyond, whose Python forms (py_tail_within / py_tail_beyond / py_long_terminal) are trusted",
               "forward clause: a follower of T is judged whatever the other isoforms are; only `T reported when full-length` "
               "keeps the closest-annotated-intron rule (tie-loser rule of C13/C19); compatible-for-uniqueness = introns within "
               "delta and span within max(min_abs_exon_overlap, delta) of the isoform's ends",
               "isoform ids are zero-padded so that their string order is the list order (the model uses list positions)",
               "nucleotide scores / penalty scores are exact rationals in the model; a case whose float decision in the "
               "real code differs from the exact decision is detected by Fraction recomputation, counted as "
               "`float_divergence` in the evidence and excluded from the diff",
               "the penalty written by the real code is compared to the model's fraction within 1e-9",
               "comparator: the float parameters max_intron_rel_diff, min_rel_exon_overlap, max_suspicious_intron_rel_len "
               "are the small fractions they are written as (0.2 = 1/5, 0.0, 1.0; the test corpus also has 0.1); a "
               "comparator case whose result changes when the real code is re-run with Fraction parameters is counted as "
               "`float_divergence` and excluded (none observed: 0.2*m and round(0.2*len) decide like 1/5 for all ints)",
               "comparator: intron lists are shorter than 2^31 - 1, so the sentinel absent_position never equals a list "
               "index (the model keeps the three kinds of contradictory region pair apart by constructor)"]

PARAM_FIELDS = ["delta", "minor_exon_extension", "major_exon_extension", "min_abs_exon_overlap", "apa_delta",
                "minimal_exon_overlap", "minimal_intron_absence_overlap", "max_fake_terminal_exon_len",
                "max_missed_exon_len"]


# ------------------------------------------------------------------------------------------------
# the real implementation

def _impl():
    vlib.repo_on_path()
    import logging
    logging.getLogger("IsoQuant").setLevel(logging.CRITICAL)      # the assigner warns on odd event sets; not our output
    import isoquant
    import src.gene_info as GI
    import src.long_read_profiles as LP
    import src.long_read_assigner as LA
    import src.isoform_assignment as IA
    import src.polya_finder as PF
    return isoquant, GI, LP, LA, IA, PF


def make_params(strategy, delta=None, resolve="default"):
    """the args namespace exactly as isoquant.py derives it (set_matching_options)"""
    isoquant = _impl()[0]
    a = argparse.Namespace(matching_strategy=strategy, delta=delta, resolve_ambiguous=resolve)
    isoquant.set_matching_options(a)
    a.count_exons = False
    return a


def tiny_params(rng):
    """shrunk parameter set for tiny universes (same fields, small values)"""
    LA = _impl()[3]
    d = rng.choice([0, 0, 1, 1, 2, 3])
    minor = rng.choice([1, 2, 3, 5])
    return types.SimpleNamespace(
        delta=d, minor_exon_extension=minor, major_exon_extension=minor + rng.choice([1, 2, 5, 10]),
        min_abs_exon_overlap=rng.choice([0, 1, 2, 3]), min_rel_exon_overlap=0.2,
        max_suspicious_intron_abs_len=rng.choice([0, 2, 4]), max_suspicious_intron_rel_len=rng.choice([0.0, 1.0]),
        max_fake_terminal_exon_len=rng.choice([0, 2, 4]), micro_intron_length=rng.choice([0, 3, 5]),
        max_intron_abs_diff=rng.choice([0, 2, 4]), max_intron_rel_diff=0.2, apa_delta=rng.choice([minor, 1, 4]),
        minimal_exon_overlap=rng.choice([0, 1, 2]), minimal_intron_absence_overlap=rng.choice([0, 1, 2, 4]),
        max_intron_shift=rng.choice([0, 2, 5]), max_missed_exon_len=rng.choice([0, 3, 6]),
        resolve_ambiguous=rng.choice(list(m for m in LA.AmbiguityResolvingMethod if m.name in
                                          ("none", "monoexon_only", "monoexon_and_fsm", "all"))),
        correct_minor_errors=True, count_exons=False)


def params_json(p):
    d = {k: getattr(p, k) for k in PARAM_FIELDS}
    d["resolve_ambiguous"] = p.resolve_ambiguous.name
    return d


class Built:
    """GeneInfo + profile constructor + assigner of one annotation under one parameter set"""

    def __init__(self, isoforms, params):
        isoquant, GI, LP, LA, IA, PF = _impl()
        self.ids = [t["id"] for t in isoforms]
        self.index = {t["id"]: i for i, t in enumerate(isoforms)}
        models = [GI.TranscriptModel("chr1", t["strand"], t["id"], t["gene"], [tuple(e) for e in t["exons"]],
                                     GI.TranscriptModelType.known) for t in isoforms]
        self.params = params
        self.gene = GI.GeneInfo.from_models(models, params.delta)
        self.pc = LP.CombinedProfileConstructor(self.gene, params)

        trace = self.trace = []

        class Tracing(LA.LongReadAssigner):
            def match_consistent(self, *a, **k):
                r = LA.LongReadAssigner.match_consistent(self, *a, **k)
                trace.append("mc:none" if r is None else "mc:some")
                return r

            def match_inconsistent(self, *a, **k):
                trace.append("mi")
                return LA.LongReadAssigner.match_inconsistent(self, *a, **k)

        self.assigner = Tracing(self.gene, params)

    def profiles(self, blocks, polya):
        PF = _impl()[5]
        return self.pc.construct_profiles([tuple(b) for b in blocks], PF.PolyAInfo(*polya), [])

    def compare_all(self, prof):
        """real compare_junctions for every isoform (the model's `cj` input); None where it raises"""
        res = []
        rf = prof.read_split_exon_profile.read_features
        region = (rf[0][0], rf[-1][1])
        for tid in self.ids:
            try:
                ev = self.assigner.intron_comparator.compare_junctions(
                    prof.read_intron_profile.read_features, region, self.gene.all_isoforms_introns[tid],
                    self.gene.transcript_region(tid))
                res.append([event_json(e) for e in ev])
            except (IndexError, AssertionError, ZeroDivisionError, KeyError, ValueError, TypeError):
                res.append(None)
        return res

    def assign(self, prof):
        del self.trace[:]
        r = self.assigner.assign_to_isoform("r", prof)
        tr = list(self.trace)
        if "mc:some" in tr:
            path = "consistent"
        elif "mc:none" in tr:
            path = "fallback"
        elif "mi" in tr:
            path = "inconsistent"
        elif r.assignment_type.name == "intergenic":
            path = "intergenic"
        else:
            path = "noninformative"
        return self.assignment_json(r, path)

    def assignment_json(self, r, path):
        ms = []
        for m in r.isoform_matches:
            ms.append({"iso": None if m.assigned_transcript is None else self.index[m.assigned_transcript],
                       "cls": m.match_classification.name,
                       "events": [event_json(e) for e in m.match_subclassifications],
                       "penalty": float(m.penalty_score)})
        return {"type": r.assignment_type.name, "path": path, "matches": ms}


def event_json(e):
    return [e.event_type.name, [int(e.isoform_region[0]), int(e.isoform_region[1])],
            [int(e.read_region[0]), int(e.read_region[1])], int(e.event_info)]


ERRS = (IndexError, AssertionError, ZeroDivisionError, KeyError, ValueError, TypeError, AttributeError)


def isoforms_json(isoforms):
    return [{"exons": [list(e) for e in t["exons"]], "strand": t["strand"]} for t in isoforms]


# ------------------------------------------------------------------------------------------------
# comparison

def same_assignment(mo, io):
    """model output (fractions) vs implementation output (floats)"""
    if vlib.is_err(mo) or vlib.is_err(io):
        return vlib.is_err(mo) and vlib.is_err(io)
    if mo["type"] != io["type"] or mo["path"] != io["path"] or len(mo["matches"]) != len(io["matches"]):
        return False
    for a, b in zip(mo["matches"], io["matches"]):
        if a["iso"] != b["iso"] or a["cls"] != b["cls"] or a["events"] != b["events"]:
            return False
        num, den = a["penalty"]
        if abs(num / den - b["penalty"]) > 1e-9:
            return False
    return True


def float_sensitive(built, prof, scores):
    """True when some decision of the real code on float scores differs from the decision on the exact scores
    (`scores` = model output of C01.scores)."""
    rf = prof.read_split_exon_profile.read_features
    asg = built.assigner
    for kind, fn in (("jaccard", asg.jaccard_based_nucleotide_score), ("coverage", asg.coverage_based_nucleotide_score)):
        ex, fl = [], []
        for s in scores:
            v = s[kind]
            if vlib.is_err(v):
                continue
            tid = built.ids[s["id"]]
            try:
                f = fn(rf, built.gene.all_isoforms_exons[tid])
            except ERRS:
                continue
            ex.append(Fraction(v[0], v[1]))
            fl.append(f)
        for i in range(len(ex)):
            if (ex[i] >= Fraction(-1, 2)) != (fl[i] >= -0.5):
                return True
            for j in range(len(ex)):
                if (ex[i] * Fraction(3, 2) >= ex[j]) != (fl[i] * 1.5 >= fl[j]):
                    return True
                if (ex[i] == ex[j]) != (fl[i] == fl[j]) or (ex[i] < ex[j]) != (fl[i] < fl[j]):
                    return True
    return False


def penalty_float_sensitive(built, prof, cj):
    """the real penalty scores are float sums: equal exact sums may differ in floats (and vice versa)"""
    IA = _impl()[4]
    asg = built.assigner
    exact, fl = [], []
    for i, tid in enumerate(built.ids):
        if cj[i] is None:
            continue
        try:
            ev = asg.intron_comparator.compare_junctions(
                prof.read_intron_profile.read_features,
                (prof.read_split_exon_profile.read_features[0][0], prof.read_split_exon_profile.read_features[-1][1]),
                built.gene.all_isoforms_introns[tid], built.gene.transcript_region(tid))
            if len(ev) == 1 and ev[0].event_type == IA.MatchEventSubtype.undefined:
                continue
            ev += asg.categorize_exon_elongation_subtype(prof.read_split_exon_profile, tid)
            ev = asg.polya_verifier.verify_read_ends(prof, tid, ev)
            _, f = asg.select_best_among_inconsistent(prof, {tid: ev})
        except ERRS:
            continue
        total = Fraction(0)
        for e in ev:
            cnt = 1
            und = IA.SupplementaryMatchConstants.undefined_region
            ab = IA.SupplementaryMatchConstants.absent_position
            if e.isoform_region != und and ab not in e.isoform_region and e.event_type.name in ("exon_skipping_known", "exon_skipping_novel"):
                cnt = e.isoform_region[1] - e.isoform_region[0] + 1
            elif e.read_region != und and ab not in e.read_region:
                cnt = e.read_region[1] - e.read_region[0] + 1
                if e.event_type.name in ("exon_gain_novel", "exon_gain_known", "mutually_exclusive_exons_novel",
                                         "mutually_exclusive_exons_known", "exon_detach_known", "exon_detach_novel"):
                    cnt -= 1
                elif e.event_type.name in ("intron_retention", "unspliced_intron_retention", "fake_micro_intron_retention",
                                           "incomplete_intron_retention_left", "incomplete_intron_retention_right"):
                    cnt = 1
            cost = Fraction(IA.event_subtype_cost[e.event_type]).limit_denominator(1000)
            if e.event_type.name in ("major_exon_elongation_left", "major_exon_elongation_right", "exon_elongation_right",
                                     "exon_elongation_left"):
                lo, hi = built.params.minor_exon_extension, built.params.major_exon_extension
                mn = Fraction(IA.event_subtype_cost[IA.MatchEventSubtype.exon_elongation_left]).limit_denominator(1000)
                mx = Fraction(IA.event_subtype_cost[IA.MatchEventSubtype.major_exon_elongation_left]).limit_denominator(1000)
                if e.event_info <= lo:
                    cost = mn
                elif e.event_info >= hi:
                    cost = mx
                else:
                    cost = mn + (mx - mn) * Fraction(e.event_info - lo, hi - lo)
            total += cost * cnt
        exact.append(total)
        fl.append(f)
    for i in range(len(exact)):
        for j in range(len(exact)):
            if (exact[i] - exact[j] < Fraction(1, 10 ** 6)) != (fl[i] - fl[j] < 1e-6) or (exact[i] < exact[j]) != (fl[i] < fl[j]):
                return True
    return False


# ------------------------------------------------------------------------------------------------
# generators

def gen_param_sets(ctx, tiny):
    rng = ctx.rng
    if tiny:
        return [("tiny", tiny_params(rng)) for _ in range(2)]
    sets = [(s, make_params(s)) for s in A.PRESETS]
    # overrides reachable from the command line: --delta, --resolve_ambiguous
    s = rng.choice(A.PRESETS)
    sets.append((s + "+delta", make_params(s, delta=rng.choice([0, 1, 3, 8, 20]))))
    s = rng.choice(A.PRESETS)
    sets.append((s + "+resolve", make_params(s, resolve=rng.choice(["none", "monoexon_only", "monoexon_and_fsm", "all"]))))
    return sets


def gen_reads(ctx, isoforms, params, scale, n, big=False):
    rng = ctx.rng
    reads = []
    lo = min(t["exons"][0][0] for t in isoforms)
    hi = max(t["exons"][-1][1] for t in isoforms)
    for _ in range(n):
        t = rng.choice(isoforms)
        r = rng.random()
        if big and r < 0.5:
            # a read starting / ending inside an annotated intron of a cluster with >= 128 annotated introns
            kind = "intron_start"
            b = A.intron_start_read(rng, t["exons"])
        elif r < 0.45:
            kind = "follow"
            b = A.follow_read(rng, t["exons"], params.delta, end_slack=rng.choice([0, 0, 2, int(80 * scale)]))
        elif r < 0.52:
            kind = "follow_exact"
            b = A.follow_read(rng, t["exons"], 0, jitter=False)
        elif r < 0.62:
            # forward clause (Props/C01Follow.lean): exact sub-chains whose ends sit at exon borders / at the thresholds
            kind = "follow_border"
            b = A.follow_border_read(rng, t["exons"], params.minimal_exon_overlap)
        elif r < 0.78:
            kind = "far"
            b = A.far_read(rng, t["exons"], scale)
            if b is not None and rng.random() < 0.5:
                b = A.follow_read(rng, b, params.delta) or b
        elif r < 0.85:
            # audit C01-G1: short outermost exon(s) + tolerated / minor / major overhang of the next exon
            kind = "fake_outer"
            b = A.follow_read(rng, t["exons"], params.delta) if rng.random() < 0.7 else A.far_read(rng, t["exons"], scale)
            if b is not None:
                b = A.fake_outer_read(rng, b, params.max_fake_terminal_exon_len, scale)
        else:
            kind = "random"
            b = A.random_blocks(rng, lo, hi)
            t = None
        if b is None:
            continue
        pa = list(A.rand_polya(rng, b, t, scale))
        if kind == "follow_border" and rng.random() < 0.8:
            pa = [-1, -1, -1, -1]
        reads.append((kind, [list(x) for x in b], pa))
    return reads


def gen_world(ctx, tiny):
    scale = 0.04 if tiny else 1.0
    return A.rand_annotation(ctx.rng, scale=scale, max_genes=3), scale


# ------------------------------------------------------------------------------------------------
# correspondence

def table_cases():
    isoquant, GI, LP, LA, IA, PF = _impl()
    cases = []
    for e in IA.MatchEventSubtype:
        cases.append(("event_class", {"event": e.name}))
    for t in IA.ReadAssignmentType:
        cases.append(("type_class", {"type": t.name}))
    for s in A.PRESETS:
        cases.append(("preset", {"name": s}))
    return cases


def impl_table(op, kw):
    isoquant, GI, LP, LA, IA, PF = _impl()
    M = IA.MatchEventSubtype
    if op == "event_class":
        e = M[kw["event"]]
        cost = IA.event_subtype_cost.get(e)
        major = e in IA.nic_event_types or e in IA.nnic_event_types
        return {"consistent": M.is_consistent(e), "minor_error": M.is_minor_error(e), "major": M.is_major_inconsistency(e),
                "intronic": M.is_intronic_inconsistency(e), "major_elongation": M.is_major_elongation(e),
                "minor_elongation": M.is_minor_elongation(e), "artifact": M.is_alignment_artifact(e),
                "nic": e in IA.nic_event_types, "nnic": e in IA.nnic_event_types,
                "cost": None if cost is None else int(round(cost * 100))}
    if op == "type_class":
        t = IA.ReadAssignmentType[kw["type"]]
        return {"inconsistent": t.is_inconsistent(), "consistent": t.is_consistent(), "unassigned": t.is_unassigned(),
                "unique": t.is_unique(), "ambiguous": t.is_ambiguous()}
    if op == "preset":
        p = make_params(kw["name"])
        return {"delta": p.delta, "max_intron_shift": p.max_intron_shift, "max_missed_exon_len": p.max_missed_exon_len,
                "max_fake_terminal_exon_len": p.max_fake_terminal_exon_len, "resolve_ambiguous": p.resolve_ambiguous.name,
                "correct_minor_errors": p.correct_minor_errors}
    raise RuntimeError(op)


def classify_cases(ctx, n):
    isoquant, GI, LP, LA, IA, PF = _impl()
    names = [e.name for e in IA.MatchEventSubtype]
    cases = []
    for e in names:
        for amb in (False, True):
            cases.append(("classify", {"ambiguous": amb, "events": [e]}))
    cases.append(("classify", {"ambiguous": False, "events": []}))
    cases.append(("classify", {"ambiguous": True, "events": []}))
    for _ in range(n):
        k = ctx.rng.randint(2, 5)
        cases.append(("classify", {"ambiguous": ctx.rng.random() < 0.5, "events": [ctx.rng.choice(names) for _ in range(k)]}))
    return cases


def impl_classify(kw):
    isoquant, GI, LP, LA, IA, PF = _impl()
    asg = LA.LongReadAssigner.__new__(LA.LongReadAssigner)
    ids = ["a", "b"] if kw["ambiguous"] else ["a"]
    evs = [IA.MatchEvent(IA.MatchEventSubtype[e]) for e in kw["events"]]
    rm = {"a": evs, "b": []}
    return asg.classify_assignment(ids, rm).name


def gene_json(built):
    g = built.gene
    return {"start": g.start, "end": g.end, "introns": vlib.canon(g.intron_profiles.features),
            "exons": vlib.canon(g.exon_profiles.features), "split_exons": vlib.canon(g.split_exon_profiles.features),
            "isoforms": [{"id": i, "introns": vlib.canon(g.all_isoforms_introns[t]),
                          "region": list(g.transcript_region(t)),
                          "intron_profile": g.intron_profiles.profiles[t], "intron_range": list(g.intron_profiles.profile_ranges[t]),
                          "split_profile": g.split_exon_profiles.profiles[t],
                          "split_range": list(g.split_exon_profiles.profile_ranges[t])} for i, t in enumerate(built.ids)]}


def profiles_json(prof):
    def pj(p):
        return {"gene": p.gene_profile, "read": p.read_profile, "range": list(p.gene_profile_range)}
    return {"intron": pj(prof.read_intron_profile), "split": pj(prof.read_split_exon_profile),
            "introns": vlib.canon(prof.read_intron_profile.read_features)}


def run_world(ctx, tiny, n_reads, records, big=False):
    """generate one annotation, all parameter sets, reads; append (op, kwargs, impl_output, extra) to records.
    big: a gene cluster with >= 128 annotated introns (gen/c01_annot.big_annotation), two parameter sets"""
    isoforms, scale = (A.big_annotation(ctx.rng), 1.0) if big else gen_world(ctx, tiny)
    ij = isoforms_json(isoforms)
    first = True
    psets = list(gen_param_sets(ctx, tiny))
    if big:
        psets = psets[:2]
        ctx.count("world:big_gene_cluster")
    for pname, params in psets:
        try:
            built = Built(isoforms, params)
        except ERRS as ex:
            records.append(("gene", {"isoforms": ij}, {"error": "error", "exc": type(ex).__name__}, None))
            continue
        pj = params_json(params)
        cq = CMP.cparams_json(params)
        if first:
            records.append(("gene", {"isoforms": ij}, gene_json(built), None))
            first = False
        for kind, blocks, polya in gen_reads(ctx, isoforms, params, scale, n_reads, big):
            ctx.count("read:" + kind)
            ctx.count("params:" + pname)
            base = {"isoforms": ij, "params": pj, "blocks": blocks, "polya": polya}
            try:
                prof = built.profiles(blocks, polya)
            except ERRS as ex:
                records.append(("profiles", base, {"error": "error", "exc": type(ex).__name__}, None))
                continue
            fdom = follow_domain(isoforms, params, blocks, polya)
            if ctx.rng.random() < 0.15 or (fdom and ctx.rng.random() < 0.5):
                records.append(("profiles", base, profiles_json(prof), None))
            cj = built.compare_all(prof)
            try:
                out = built.assign(prof)
            except ERRS as ex:
                out = {"error": "error", "exc": type(ex).__name__}
            kw = dict(base, cj=cj)
            if fdom:
                check_follow_clause(ctx, built, isoforms, params, blocks, polya, prof, out, fdom, len(records))
            records.append(("assign", kw, out, (isoforms, params, kind)))
            if any(x != -1 for x in polya):
                # Props/C01Tail.lean `tail_far_never_consistent_geom`: Lean and Python form of the hypotheses agree, and the
                # CONCLUSION holds on the real assigner wherever they hold (model := what the theorem says)
                tcj = tail_clause_json(isoforms, params, blocks, polya)
                records.append(("tail_clause_hyp", base, tcj, None))
                ctx.count("tail_clause_hyp:" + ("holds" if tcj["hyp"] else "fails"))
                if tcj["hyp"] and not vlib.is_err(out):
                    zone = min(abs((t["exons"][-1][1] if t["strand"] == "+" else t["exons"][0][0]) - q)
                               for t in isoforms for q in tails_of_polya(polya)["A" if t["strand"] == "+" else "T"])
                    ctx.count("tail_clause_hyp:holds:" + ("zone_apa_delta..199" if zone < FAR_LEN else "distance>=200"))
                    if out.get("type") in CONSISTENT or out.get("path") == "consistent":
                        ctx.disagree("tail_clause_assign", base, {"type": "not consistent", "path": "not consistent"},
                                     {"type": out.get("type"), "path": out.get("path")})
            # the same assignment with the MODELLED comparator (no cj input), and the comparator itself per isoform
            records.append(("assign_m", dict(base, cparams=cq), out, (isoforms, params, kind)))
            if ctx.rng.random() < 0.5:
                rf = prof.read_split_exon_profile.read_features
                for i, tid in enumerate(built.ids):
                    ckw = CMP.case(params, built.gene.intron_profiles.features, (built.gene.start, built.gene.end),
                                   prof.read_intron_profile.read_features, (rf[0][0], rf[-1][1]),
                                   built.gene.all_isoforms_introns[tid], built.gene.transcript_region(tid))
                    records.append(("compare", ckw, cj[i] if cj[i] is not None else {"error": "error"}, (params,)))


def follow_domain(isoforms, params, blocks, polya):
    """indices of the isoforms T for which the read meets `FollowHyp` (Lean: Lemmas/C01Follow.lean; Python: gen/c01_annot.py)"""
    if polya[0] != -1 or polya[1] != -1 or len(blocks) == 0:
        return []
    return [i for i in range(len(isoforms)) if A.follow_hyp(isoforms, params, i, [tuple(b) for b in blocks], polya)]


FOLLOW_INDEX = {}       # record index of an `assign` case -> isoform indices T with FollowHyp (checked against the model's path)


def check_follow_clause(ctx, built, isoforms, params, blocks, polya, prof, out, tis, rec_index):
    """the conclusions of `follow_exact_profiles` / `follow_exact_dispatch` / `follow_exact_tests` evaluated on the REAL
    objects for a read inside the theorems' domain; a miss is recorded as a disagreement (model := what the theorem says)"""
    import src.common as C
    FOLLOW_INDEX[rec_index] = tis
    ctx.count("follow_clause:reads")
    ip, sp = prof.read_intron_profile, prof.read_split_exon_profile
    gi = built.gene
    trace = list(built.trace)
    for ti in tis:
        tid = built.ids[ti]
        ctx.count("follow_clause:cases")
        obs = {
            "intron_read_all1": all(v == 1 for v in ip.read_profile),
            "split_read_all1": all(v == 1 for v in sp.read_profile),
            "intron_equal_in_range": bool(C.equal_profiles_in_range(gi.intron_profiles.profiles[tid], ip.gene_profile,
                                                                    ip.gene_profile_range)),
            "split_equal_in_range": bool(C.equal_profiles_in_range(gi.split_exon_profiles.profiles[tid], sp.gene_profile,
                                                                   sp.gene_profile_range)),
            "split_overlap": bool(C.has_overlapping_features(
                gi.split_exon_profiles.profiles[tid], sp.gene_profile,
                profile_range=C.overlap_intervals(sp.gene_profile_range, gi.split_exon_profiles.profile_ranges[tid]))),
            "dispatch_consistent": (not vlib.is_err(out)) and out.get("path") in ("consistent", "fallback"),
        }
        if len(blocks) == 1:
            ctx.count("follow_clause:mono_block")
        if any(b[0] == e[0] or b[1] == e[1] for b in (blocks[0], blocks[-1]) for e in isoforms[ti]["exons"]):
            ctx.count("follow_clause:end_at_exon_border")
        if any(e[1] - e[0] + 1 <= max(1, params.delta) for t in isoforms for e in t["exons"]):
            ctx.count("follow_clause:micro_exon_in_annotation")
        if not all(obs.values()):
            if sum(1 for d in ctx.disagreements if d.get("op") == "follow_clause") >= 40:
                ctx.count("follow_clause:misses_not_recorded")
                continue
            ctx.disagree("follow_clause", {"isoforms": isoforms_json(isoforms), "params": params_json(params),
                                           "blocks": blocks, "polya": polya, "T": ti},
                         {k: True for k in obs}, dict(obs, trace=trace))
        elif not vlib.is_err(out) and out.get("path") == "consistent":
            ctx.count("follow_clause:consistent_path")
        elif not vlib.is_err(out):
            ctx.count("follow_clause:fallback")
            # the part of `follow_exact_assigned_partial` that is NOT proved: no fall-back without any polyA position
            # when min_abs_exon_overlap <= minor_exon_extension (counted, never flagged)
            if list(polya) == [-1, -1, -1, -1] and params.min_abs_exon_overlap <= params.minor_exon_extension:
                ctx.count("follow_clause:fallback_without_polya_and_overlap_le_extension")


def diagnose_float(ctx, kw, extra):
    """is a disagreement explained by float rounding in the real code?"""
    isoforms, params, _ = extra
    built = Built(isoforms, params)
    prof = built.profiles(kw["blocks"], kw["polya"])
    base = {k: kw[k] for k in ("isoforms", "params", "blocks", "polya")}
    sc = ctx.driver.run([vlib.req("C01.scores", **base)])[0]
    if isinstance(sc, list) and float_sensitive(built, prof, sc):
        return True
    cj = kw["cj"] if "cj" in kw else built.compare_all(prof)
    if "cj" not in kw:
        # modelled comparator: a float decision inside compare_junctions itself
        rf = prof.read_split_exon_profile.read_features
        for i, tid in enumerate(built.ids):
            ckw = CMP.case(params, built.gene.intron_profiles.features, (built.gene.start, built.gene.end),
                           prof.read_intron_profile.read_features, (rf[0][0], rf[-1][1]),
                           built.gene.all_isoforms_introns[tid], built.gene.transcript_region(tid))
            if vlib.canon(CMP.impl_compare_exact(ckw, params)) != vlib.canon(cj[i] if cj[i] is not None else {"error": "error"}):
                return True
    return penalty_float_sensitive(built, prof, cj)


def FOLLOW_INDEX_OF(records):
    return FOLLOW_INDEX if getattr(FOLLOW_INDEX_OF, "records_id", None) == id(records) else {}


def correspondence(ctx):
    quick = ctx.tier == "quick"
    FOLLOW_INDEX.clear()
    # 1. generated tables against the Python objects they were extracted from
    tcases = table_cases()
    ctx.diff_batch("C01", tcases, impl_table)
    ccases = classify_cases(ctx, 300 if quick else 3000)
    ctx.diff_batch("C01", ccases, lambda op, kw: impl_classify(kw))
    correspondence_polya_sentinel(ctx)
    correspondence_tail_clause(ctx)
    correspondence_fake_terminal(ctx)
    # 1b. JunctionComparator.compare_junctions on its own: test corpus first, small universes, random and malformed chains
    correspondence_compare(ctx)
    # 2. gene model, read profiles, assignment
    records = []
    FOLLOW_INDEX_OF.records_id = id(records)
    n_worlds = (220, 140) if quick else (3000, 1800)
    for _ in range(n_worlds[0]):
        run_world(ctx, False, 9 if quick else 12, records)
    for _ in range(n_worlds[1]):
        run_world(ctx, True, 10 if quick else 14, records)
    # gene clusters with >= 128 annotated introns (the model has no size threshold: a threshold in the code shows up here)
    for _ in range(2 if quick else 20):
        run_world(ctx, False, 6, records, big=True)
    lines = [vlib.req("C01." + op, **kw) for op, kw, _, _ in records]
    outs = ctx.driver.run(lines)
    for ri, ((op, kw, io, extra), mo) in enumerate(zip(records, outs)):
        if ri in FOLLOW_INDEX_OF(records) and op == "assign" and isinstance(mo, dict) and not vlib.is_err(mo) \
                and "driver_error" not in mo and mo.get("path") not in ("consistent", "fallback"):
            # `follow_exact_dispatch` says the MODEL dispatches these reads to match_consistent: the Python form of
            # FollowHyp (gen/c01_annot.py follow_hyp) and the Lean one differ
            ctx.disagree("follow_hyp_model", slim(kw), {"path": "consistent|fallback"}, {"path": mo.get("path")})
        ctx.evaluations += 1
        ctx.count("op:" + op)
        if isinstance(mo, dict) and "driver_error" in mo:
            ctx.disagree(op, kw, mo, io)
            continue
        ctx.traces_validated += 1
        if vlib.is_err(mo):
            ctx.count("model_error")
        ok = same_assignment(mo, io) if op in ("assign", "assign_m") else vlib.same(mo, vlib.canon(io))
        if not ok and len(ctx.disagreements) >= 60:
            ctx.count("disagreements_not_recorded")
            continue
        if not ok and op in ("assign", "assign_m") and not vlib.is_err(io):
            try:
                if diagnose_float(ctx, kw, extra):
                    ctx.count("float_divergence")
                    continue
            except ERRS:
                pass
        if not ok and op == "compare" and not vlib.is_err(io):
            if vlib.canon(CMP.impl_compare_exact(kw, extra[0])) != vlib.canon(io):
                ctx.count("float_divergence")
                continue
        if not ok:
            ctx.disagree(op, slim(kw), mo, io)
            continue
        if op == "compare" and not vlib.is_err(mo):
            for e in mo:
                ctx.count("cmp_event:" + e[0])
            if any(e[0] != "none" for e in mo):
                ctx.mark_nontrivial(["compare", kw["read_junctions"], kw["read_region"], kw["iso_junctions"], kw["iso_region"],
                                     kw["params"]["delta"]])
        elif op == "assign_m" and not vlib.is_err(mo):
            ctx.count("path_m:" + mo["path"])
        elif op == "assign" and not vlib.is_err(mo):
            ctx.count("path:" + mo["path"])
            ctx.count("type:" + mo["type"])
            ctx.count("readkind_type:%s:%s" % (extra[2], mo["type"]))
            if any(m["iso"] is not None for m in mo["matches"]):
                ctx.mark_nontrivial([kw["isoforms"], kw["params"], kw["blocks"], kw["polya"]])
        elif op not in ("assign", "assign_m", "compare") and not vlib.is_err(mo):
            ctx.mark_nontrivial([op, kw.get("isoforms"), kw.get("blocks"), kw.get("polya")])
        if len(ctx.samples) < 8 and ctx.rng.random() < 0.002:
            ctx.sample({"op": op, "input": slim(kw), "model": mo, "impl": io})
    if not ctx.samples and records:
        ctx.sample({"op": records[0][0], "input": slim(records[0][1]), "model": outs[0]})


def slim(kw):
    return vlib.canon(kw)


def correspondence_polya_sentinel(ctx):
    """PolyAVerifier.verify_read_ends for genes next to the chromosome start with ONE of the two polyA (polyT) positions
    absent: the configuration in which detect_reference_exons_beyond_polya / before_polyt used the sentinel -1 as a
    coordinate (fixed in /repo; Props/C01Polya).  The inputs of the Lean witnesses run first."""
    rng = ctx.rng
    n = 600 if ctx.tier == "quick" else 12000
    cases = [("default", [{"id": "t0000", "gene": "g0", "strand": "+", "exons": [(10, 30), (200, 210)]}], [(10, 30)], [80, -1, -1, -1]),
             ("default", [{"id": "t0000", "gene": "g0", "strand": "+", "exons": [(5, 30), (180, 190)]}], [(5, 30)], [135, -1, -1, -1]),
             ("default", [{"id": "t0000", "gene": "g0", "strand": "-", "exons": [(1, 3), (5, 100)]}], [(60, 100)], [-1, 50, -1, -1])]
    for _ in range(n):
        strand = rng.choice("+-")
        exons, pos = [], rng.randint(1, 40)
        for _ in range(rng.randint(2, 4)):
            ln = rng.choice([rng.randint(2, 12), rng.randint(10, 45), rng.randint(30, 150)])
            exons.append((pos, pos + ln - 1))
            pos += ln + rng.randint(15, 160)
        m = rng.randint(1, len(exons) - 1)
        if strand == "+":
            blocks = exons[:m]
            blocks[-1] = (blocks[-1][0], blocks[-1][1] + rng.choice([0, 0, -1, 3, 20, 60]))
            end = blocks[-1][1]
            a = end + rng.choice([1, 1, 5, 30, 50, 51, 105])
            polya = rng.choice([[a, -1, -1, -1], [-1, -1, max(1, end - rng.randint(0, 40)), -1],
                                [a, -1, max(1, end - rng.randint(0, 40)), -1]])
        else:
            blocks = exons[m:]
            blocks[0] = (max(1, blocks[0][0] - rng.choice([0, 0, -1, 3, 20])), blocks[0][1])
            start = blocks[0][0]
            t = max(1, start - rng.choice([1, 1, 5, 30, 50, 51]))
            polya = rng.choice([[-1, t, -1, -1], [-1, -1, -1, start + rng.randint(0, 40)],
                                [-1, t, -1, start + rng.randint(0, 40)]])
        if not A.valid_blocks(blocks) or not A.valid_blocks(exons):
            continue
        cases.append((rng.choice(A.PRESETS), [{"id": "t0000", "gene": "g0", "strand": strand, "exons": exons}], blocks, polya))
    recs = []
    for strategy, isoforms, blocks, polya in cases:
        params = make_params(strategy)
        try:
            built = Built(isoforms, params)
            prof = built.profiles(blocks, polya)
        except ERRS:
            continue
        try:
            io = [event_json(e) for e in built.assigner.polya_verifier.verify_read_ends(prof, "t0000", [])]
        except ERRS as ex:
            io = {"error": "error", "exc": type(ex).__name__}
        kw = {"isoforms": isoforms_json(isoforms), "params": params_json(params), "blocks": [list(b) for b in blocks],
              "polya": polya, "iso": 0, "events": []}
        recs.append((kw, io))
    outs = ctx.driver.run([vlib.req("C01.verify_read_ends", **kw) for kw, _ in recs])
    for (kw, io), mo in zip(recs, outs):
        ctx.evaluations += 1
        ctx.traces_validated += 1
        ctx.count("op:verify_read_ends_near_origin")
        if isinstance(mo, dict) and "driver_error" in mo or not vlib.same(mo, vlib.canon(io)):
            if len(ctx.disagreements) < 60:
                ctx.disagree("verify_read_ends", kw, mo, io)
        elif not vlib.is_err(mo):
            for e in mo:
                ctx.count("polya_event:" + e[0])
            ctx.mark_nontrivial(["verify_read_ends", kw["isoforms"], kw["blocks"], kw["polya"]])


# ---- audit-2 C01-a: the tail-position theorems (Props/C01Tail.lean) evaluated on the real PolyAVerifier

def py_tail_within(d, stop, ext, int_):
    """Props/C01Tail.lean `TailWithin`"""
    return (ext != -1 and abs(stop - ext) <= d) or (int_ != -1 and abs(stop - int_) <= d)


def py_tail_beyond(d, stop, ext, int_):
    """Props/C01Tail.lean `TailBeyond`"""
    return (ext != -1 or int_ != -1) and (ext == -1 or d < abs(stop - ext)) and (int_ == -1 or d < abs(stop - int_))


def py_long_terminal(params, exons, front):
    """Props/C01Tail.lean `LongTerminal`"""
    L = lambda l: sum(e[1] - e[0] + 1 for e in l)
    return all(L(exons[:c] if front else exons[len(exons) - c:]) > max(params.max_fake_terminal_exon_len, params.max_missed_exon_len)
               for c in range(1, len(exons)))


def py_junctions(blocks):
    """Model/Interval.lean `junctionsFromBlocks` (= junctions_from_blocks: touching blocks make no junction)"""
    return [(blocks[i][1] + 1, blocks[i + 1][0] - 1) for i in range(len(blocks) - 1) if blocks[i][1] + 1 < blocks[i + 1][0]]


def py_end_clean(params, rj, rr, ij, ir, right):
    """Model/JunctionSpec.lean `endCleanRight` / `endCleanLeft`: position-only form of "compare_junctions cannot emit
    fake_terminal_exon_* / terminal_exon_misalignment_* at that end" (Lemmas/C01CmpEnd.lean compareJunctions_clean_*)"""
    if right:
        rl = rr[1] - rj[-1][1] if rj else 0
        il = ir[1] - ij[-1][1] if ij else 0
    else:
        rl = rj[0][0] - rr[0] if rj else 0
        il = ij[0][0] - ir[0] if ij else 0
    return (not rj or params.max_fake_terminal_exon_len < rl) and (len(rj) <= 1 or not ij or 2 * params.delta <= abs(rl - il))


def py_tail_clause_hyp(isoforms, params, blocks, tails):
    """Python form of Lean `tailClauseHyp` = the hypotheses of Props/C01Tail.lean `tail_far_never_consistent_geom`
    (`TailFar` and `EndGeom` for EVERY isoform of the gene, read not empty), position only.
    tails = {"A": [...], "T": [...]} (tails_of_polya of the four positions, or the real finder's report).
    Returns (hyp, [(tail_far, end_geom) per isoform])."""
    rows = []
    rj = py_junctions(blocks)
    rr = (blocks[0][0], blocks[-1][1]) if blocks else None
    for t in isoforms:
        ex = t["exons"]
        if t["strand"] not in ("+", "-") or not blocks:
            rows.append((False, t["strand"] not in ("+", "-")))
            continue
        plus = t["strand"] == "+"
        rel = tails["A"] if plus else tails["T"]
        stop = ex[-1][1] if plus else ex[0][0]
        far = bool(rel) and all(abs(stop - q) > params.apa_delta for q in rel) and py_long_terminal(params, ex, not plus)
        geom = py_end_clean(params, rj, rr, py_junctions(ex), (ex[0][0], ex[-1][1]), plus)
        rows.append((far, geom))
    return bool(blocks) and all(a and b for a, b in rows), rows


def tail_clause_json(isoforms, params, blocks, polya):
    hyp, rows = py_tail_clause_hyp(isoforms, params, [tuple(b) for b in blocks], tails_of_polya(polya))
    return {"hyp": hyp, "isoforms": [{"id": i, "tail_far": a, "end_geom": b} for i, (a, b) in enumerate(rows)]}


TAIL_ARTIFACTS = {"+": ("fake_terminal_exon_right", "terminal_exon_misalignment_right", "incomplete_intron_retention_right"),
                  "-": ("fake_terminal_exon_left", "terminal_exon_misalignment_left", "incomplete_intron_retention_left")}


def correspondence_tail_clause(ctx):
    """`PolyAVerifier.verify_read_ends` on reads that follow a single isoform and are truncated anywhere, with the polyA /
    polyT positions the finder reports for a soft-clipped tail or an A-/T-rich aligned end (internal priming), fed with the
    event lists the comparator / elongation test produce (and with end artifacts).  (1) model == implementation (driver op
    C01.verify_read_ends); (2) the CONCLUSIONS of `verifyPolya_tail_at_end` / `verifyPolyt_tail_at_end` and of
    `verifyPolya_tail_far` / `verifyPolyt_tail_far` are evaluated on the real output whenever the Python form of their
    hypotheses holds: a miss is a disagreement of op `tail_clause` (model := what the theorem says)."""
    isoquant, GI, LP, LA, IA, PF = _impl()
    rng = ctx.rng
    n = 1500 if ctx.tier == "quick" else 30000
    # the audit's probe first (docs: /tmp/audit2-A/probes/C01/p1_internal_priming.py)
    E = [(5001, 5300), (5801, 6100), (6701, 7200), (7901, 8300)]
    cases = [("default", "+", E, E[:2] + [(6701, 6925)], [-1, -1, 6901, -1], ["ism_right"]),
             ("default", "+", E, E[:3] + [(7901, 8125)], [8125, -1, 8101, -1], ["ism_right"]),
             ("default", "+", E, E, [8300, -1, -1, -1], ["fsm"]),
             ("default", "-", E, [(5901, 6100)] + E[2:], [-1, -1, -1, 5925], ["ism_left"]),
             ("default", "-", E, E, [-1, 5000, -1, -1], ["fsm"])]
    pool = {"+": [[], ["fsm"], ["ism_right"], ["ism_internal"], ["mono_exon_match"], ["fsm", "exon_elongation_right"],
                  ["ism_right", "major_exon_elongation_right"], ["fsm", "terminal_site_match_right"],
                  ["fsm", "terminal_site_match_left_precise", "exon_elongation_right"], ["none"],
                  ["fake_terminal_exon_right"], ["fsm", "terminal_exon_misalignment_right"],
                  ["incomplete_intron_retention_right"], ["intron_retention", "exon_elongation_right"]],
            "-": [[], ["fsm"], ["ism_left"], ["ism_internal"], ["mono_exon_match"], ["fsm", "exon_elongation_left"],
                  ["ism_left", "major_exon_elongation_left"], ["fsm", "terminal_site_match_left"],
                  ["fsm", "terminal_site_match_right_precise", "exon_elongation_left"], ["none"],
                  ["fake_terminal_exon_left"], ["fsm", "terminal_exon_misalignment_left"],
                  ["incomplete_intron_retention_left"], ["intron_retention", "exon_elongation_left"]]}
    for _ in range(n):
        strand = rng.choice("+-")
        exons, pos = [], rng.randint(1, 3000)
        for _ in range(rng.randint(1, 5)):
            ln = rng.choice([rng.randint(5, 45), rng.randint(60, 105), rng.randint(110, 400), rng.randint(110, 400)])
            exons.append((pos, pos + ln - 1))
            pos += ln + rng.randint(60, 900)
        k = len(exons)
        i = rng.randint(0, k - 1)
        j = rng.randint(i, k - 1)
        blocks = [list(e) for e in exons[i:j + 1]]
        if strand == "+":
            if rng.random() < 0.6:
                blocks[-1][1] -= rng.randint(0, max(0, blocks[-1][1] - blocks[-1][0] - 3))
            e = blocks[-1][1]
            ext = rng.choice([-1, e, e + 1, e - 2, e + rng.randint(2, 32), exons[-1][1], exons[-1][1] + rng.choice([-51, -50, 50, 51])])
            int_ = rng.choice([-1, -1, e - rng.randint(0, 40), max(1, e - rng.randint(0, 64)), exons[-1][1] - rng.choice([0, 49, 50, 51])])
            polya = [ext, -1, int_, -1]
        else:
            if rng.random() < 0.6:
                blocks[0][0] += rng.randint(0, max(0, blocks[0][1] - blocks[0][0] - 3))
            b = blocks[0][0]
            ext = rng.choice([-1, max(1, b - 1), b, b + 2, max(1, b - rng.randint(2, 32)), exons[0][0], max(1, exons[0][0] + rng.choice([-51, -50, 50, 51]))])
            int_ = rng.choice([-1, -1, b + rng.randint(0, 40), b + rng.randint(0, 64), exons[0][0] + rng.choice([0, 49, 50, 51])])
            polya = [-1, ext, -1, int_]
        if rng.random() < 0.1:
            polya = [polya[1], polya[0], polya[3], polya[2]]          # tail on the wrong side: verify_read_ends ignores it
        blocks = [tuple(x) for x in blocks]
        if not A.valid_blocks(blocks) or not A.valid_blocks(exons):
            continue
        cases.append((rng.choice(A.PRESETS), strand, exons, blocks, polya, rng.choice(pool[strand])))
    recs = []
    for strategy, strand, exons, blocks, polya, evnames in cases:
        params = make_params(strategy)
        isoforms = [{"id": "t0000", "gene": "g0", "strand": strand, "exons": [tuple(e) for e in exons]}]
        try:
            built = Built(isoforms, params)
            prof = built.profiles([tuple(b) for b in blocks], polya)
        except ERRS:
            continue
        evs_in = [IA.MatchEvent(IA.MatchEventSubtype[e], event_info=(rng.randint(13, 400) if "elongation" in e else 0))
                  for e in evnames]
        ev_json = [event_json(e) for e in evs_in]
        try:
            io = [event_json(e) for e in built.assigner.polya_verifier.verify_read_ends(prof, "t0000", list(evs_in))]
        except ERRS as ex:
            io = {"error": "error", "exc": type(ex).__name__}
        kw = {"isoforms": isoforms_json(isoforms), "params": params_json(params), "blocks": [list(b) for b in blocks],
              "polya": polya, "iso": 0, "events": ev_json}
        recs.append((kw, io, params, strand, exons, evnames))
    outs = ctx.driver.run([vlib.req("C01.verify_read_ends", **r[0]) for r in recs])
    for (kw, io, params, strand, exons, evnames), mo in zip(recs, outs):
        ctx.evaluations += 1
        ctx.traces_validated += 1
        ctx.count("op:verify_read_ends_tail")
        if isinstance(mo, dict) and "driver_error" in mo or not vlib.same(mo, vlib.canon(io)):
            if len(ctx.disagreements) < 60:
                ctx.disagree("verify_read_ends", kw, mo, io)
            continue
        if vlib.is_err(mo):
            ctx.count("model_error")
            continue
        # the theorems' conclusions on the REAL output
        polya = kw["polya"]
        plus = strand == "+"
        stop = exons[-1][1] if plus else exons[0][0]
        ext, int_ = (polya[0], polya[2]) if plus else (polya[1], polya[3])
        side = "right" if plus else "left"
        elong = ("major_exon_elongation_" + side, "exon_elongation_" + side)
        idx = [q for q, e in enumerate(kw["events"]) if e[0] in elong]
        kept = [e for q, e in enumerate(kw["events"]) if not idx or q != idx[-1]]
        art = any(e in TAIL_ARTIFACTS[strand] for e in evnames)
        out = vlib.canon(io)
        if py_tail_within(params.apa_delta, stop, ext, int_) and "incomplete_intron_retention_" + side not in evnames:
            ctx.count("tail_clause:at_end")
            ok = len(out) == len(kept) + 1 and vlib.same(out[:-1], vlib.canon(kept)) and out[-1][0] == "correct_polya_site_" + side \
                and out[-1][3] in (ext, int_) and out[-1][3] != -1 and abs(stop - out[-1][3]) <= params.apa_delta
            if not ok:
                ctx.disagree("tail_clause", dict(kw, clause="tail_at_end"), "events minus one elongation + correct_polya_site_" + side, io)
            else:
                ctx.mark_nontrivial(["tail_at_end", kw["isoforms"], kw["blocks"], polya, evnames])
        elif py_tail_beyond(params.apa_delta, stop, ext, int_) and not art and py_long_terminal(params, exons, not plus):
            ctx.count("tail_clause:far")
            want = int_ if int_ != -1 else ext
            ok = len(out) == len(kept) + 1 and vlib.same(out[:-1], vlib.canon(kept)) and \
                out[-1][0] == "alternative_polya_site_" + side and out[-1][3] == want
            if not ok:
                ctx.disagree("tail_clause", dict(kw, clause="tail_far"), "events minus one elongation + alternative_polya_site_%s %d"
                             % (side, want), io)
            else:
                ctx.mark_nontrivial(["tail_far", kw["isoforms"], kw["blocks"], polya, evnames])
        else:
            ctx.count("tail_clause:outside_hypotheses(%s)" % ("no_tail" if ext == -1 and int_ == -1 else "artifact" if art else "near_or_missed_terminal"))


FAKE_TERMINAL_WITNESSES = [
    # (isoforms, blocks): the inputs of Props/C01FakeTerminal.lean `elongationEventsOrig_witness` and of the fix: commit message
    ([[(5000, 5400), (6000, 6400), (7000, 7400)]], [(4000, 4020), (4500, 5400), (6000, 6400), (7000, 7400)]),
    ([[(5000, 5400), (6000, 6400), (7000, 7400)]], [(4500, 5400), (6000, 6400), (7000, 7400)]),
    ([[(5000, 5400), (6000, 6400), (7000, 7400)]], [(5000, 5400), (6000, 6400), (7000, 7900), (8400, 8420)]),
    ([[(5000, 5400), (6000, 6400), (7000, 7400)]], [(4000, 4015), (4500, 5400), (6000, 6400), (7000, 7400), (8400, 8420)]),
    ([[(5000, 5400), (6000, 6400), (7000, 7400)]], [(4000, 4020), (5000, 5400), (6000, 6400), (7000, 7400)]),
    ([[(5000, 6400)]], [(4000, 4015), (4500, 6400)]),
    ([[(4000, 4020), (4500, 4700), (5000, 5400), (6000, 6400), (7000, 7400)], [(5000, 5400), (6000, 6400), (7000, 7400)]],
     [(4000, 4020), (4500, 5400), (6000, 6400), (7000, 7400)]),
]


def correspondence_fake_terminal(ctx):
    """LongReadAssigner.categorize_exon_elongation_subtype on its own (driver op C01.elongation) for reads with short
    outermost exons: the code path of the repair of audit finding C01-G1 (the overhang is measured on the next exon when
    the outermost one is at most max_fake_terminal_exon_len long and lies outside the first / last common exon).  The
    witnesses of Props/C01FakeTerminal.lean run first.  A disagreement is also compared with the model of the code BEFORE
    the repair (op C01.elongation_orig): `matches_orig` says that the tree under test still has the old behaviour."""
    rng = ctx.rng
    n = 500 if ctx.tier == "quick" else 10000
    cases = []
    for isos, blocks in FAKE_TERMINAL_WITNESSES:
        isoforms = [{"id": "t%04d" % i, "gene": "g0", "strand": "+", "exons": ex} for i, ex in enumerate(isos)]
        for s in A.PRESETS:
            cases.append((make_params(s), isoforms, blocks, [-1, -1, -1, -1], "witness"))
    for _ in range(n):
        tiny = rng.random() < 0.4
        scale = 0.04 if tiny else 1.0
        isoforms = A.rand_annotation(rng, scale=scale, max_genes=2)
        params = tiny_params(rng) if tiny else make_params(rng.choice(A.PRESETS))
        t = rng.choice(isoforms)
        b = A.follow_read(rng, t["exons"], params.delta) if rng.random() < 0.7 else A.far_read(rng, t["exons"], scale)
        if b is None:
            continue
        b = A.fake_outer_read(rng, b, params.max_fake_terminal_exon_len, scale)
        if b is None:
            continue
        cases.append((params, isoforms, b, [-1, -1, -1, -1], "tiny" if tiny else "genome"))
    recs = []
    for params, isoforms, blocks, polya, kind in cases:
        try:
            built = Built(isoforms, params)
            prof = built.profiles(blocks, polya)
        except ERRS:
            continue
        for i, tid in enumerate(built.ids):
            try:
                io = [event_json(e) for e in
                      built.assigner.categorize_exon_elongation_subtype(prof.read_split_exon_profile, tid)]
            except ERRS as ex:
                io = {"error": "error", "exc": type(ex).__name__}
            kw = {"isoforms": isoforms_json(isoforms), "params": params_json(params), "blocks": [list(b) for b in blocks],
                  "polya": polya, "iso": i}
            recs.append((kw, io, kind))
    outs = ctx.driver.run([vlib.req("C01.elongation", **kw) for kw, _, _ in recs])
    for (kw, io, kind), mo in zip(recs, outs):
        ctx.evaluations += 1
        ctx.traces_validated += 1
        ctx.count("op:elongation_fake_terminal_" + kind)
        if isinstance(mo, dict) and "driver_error" in mo or not vlib.same(mo, vlib.canon(io)):
            if sum(1 for d in ctx.disagreements if d.get("op") == "elongation") < 12:
                orig = ctx.driver.run([vlib.req("C01.elongation_orig", **kw)])[0]
                ctx.disagree("elongation", kw, mo, {"impl": io, "matches_orig": vlib.same(orig, vlib.canon(io))})
            else:
                ctx.count("elongation:disagreements_not_recorded")
        elif not vlib.is_err(mo):
            for e in mo:
                ctx.count("elong_event:" + e[0])
            if mo:
                ctx.mark_nontrivial(["elongation", kw["isoforms"], kw["blocks"], kw["iso"], kw["params"]])


def correspondence_compare_helpers(ctx, tiny, presets):
    """the public helper methods of the comparator on their own (the test file calls them directly as well):
    are_known_introns, are_suspicious_introns, add_extra_out_exon_events with ARBITRARY presence lists"""
    rng = ctx.rng
    n = 1200 if ctx.tier == "quick" else 20000
    cases = []
    for _ in range(n):
        params = rng.choice(tiny + presets)
        hi = rng.choice([10, 30, 400])
        junctions, pos = [], rng.randint(0, 5)
        for _ in range(rng.randint(0, 5)):
            pos += rng.randint(1, hi // 3 + 1)
            ln = rng.randint(1, hi // 2 + 1)
            junctions.append((pos, pos + ln - 1))
            pos += ln
        if rng.random() < 0.15:
            rng.shuffle(junctions)
        region = (junctions[0][0] - rng.randint(1, hi) if junctions else 0, pos + rng.randint(0, hi))
        known = sorted(set(rng.sample(junctions, rng.randint(0, len(junctions))) +
                           [(a + rng.randint(-3, 3), a + rng.randint(0, hi)) for a in
                            [rng.randint(0, pos + 1) for _ in range(rng.randint(0, 3))]]))
        known = [k for k in known if k[0] <= k[1]]
        gr = (rng.randint(0, 5), pos + rng.randint(0, hi))
        base = {"params": CMP.params_json(params), "cparams": CMP.cparams_json(params), "known": [list(k) for k in known],
                "gene_region": list(gr)}
        a = rng.randint(0, max(0, len(junctions)))
        b = rng.randint(max(0, a - 1), len(junctions) + 1)
        jl = [list(j) for j in junctions]
        cases.append(("known_introns", params, dict(base, junctions=jl, a=a, b=b)))
        cases.append(("suspicious_introns", params, dict(base, junctions=jl, a=a, b=b, read_region=list(region))))
        prof = [rng.choice([0, 0, 1, -1]) for _ in range(len(junctions) + rng.choice([0, 0, 0, 1, -1]))]
        prof = prof[:max(0, len(prof))]
        cases.append(("add_extra_out", params, dict(base, junctions=jl, profile=prof, read_region=list(region),
                                                    isoform_start=rng.randint(0, pos + 1))))
    outs = ctx.driver.run([vlib.req("C01." + op, **kw) for op, _, kw in cases])
    for (op, params, kw), mo in zip(cases, outs):
        ctx.evaluations += 1
        ctx.count("op:" + op)
        try:
            rc = CMP.RealComparator(params, kw["known"], kw["gene_region"])
            J = [tuple(j) for j in kw["junctions"]]
            if op == "known_introns":
                io = bool(rc.cmp.are_known_introns(J, (kw["a"], kw["b"])))
            elif op == "suspicious_introns":
                io = bool(rc.cmp.are_suspicious_introns(tuple(kw["read_region"]), J, (kw["a"], kw["b"])))
            else:
                evs = []
                rc.cmp.add_extra_out_exon_events(evs, list(kw["profile"]), tuple(kw["read_region"]), J, kw["isoform_start"])
                io = [event_json(e) for e in evs]
        except ERRS as ex:
            io = {"error": "error", "exc": type(ex).__name__}
        ctx.traces_validated += 1
        if isinstance(mo, dict) and "driver_error" in mo or not vlib.same(mo, vlib.canon(io)):
            if len(ctx.disagreements) < 60:
                ctx.disagree(op, kw, mo, io)
        elif vlib.is_err(mo):
            ctx.count("model_error")
        else:
            ctx.mark_nontrivial([op, kw["junctions"], kw.get("a"), kw.get("b"), kw.get("profile")])


def correspondence_compare(ctx):
    """model `compareJunctions` (+ its sweep: presence list / contradictory region pairs, observed at the
    detect_contradiction_type / add_extra_out_exon_events call boundaries) against the real JunctionComparator"""
    quick = ctx.tier == "quick"
    rng = ctx.rng
    isoquant, GI, LP, LA, IA, PF = _impl()
    if not CMP.assigner_ctor_matches():
        ctx.disagree("comparator_ctor", {}, "JunctionComparator(params, OverlappingFeaturesProfileConstructor(features, "
                     "(start, end), comparator=partial(equal_ranges, delta)))", "LongReadAssigner.__init__ builds it differently")
    # generated tables
    tabs = ctx.driver.run([vlib.req("C01.cmp_tables")])[0]
    ctx.evaluations += 1
    impl_alt = sorted([k[0], bool(k[1]), v.name] for k, v in IA.alternative_sites.items())
    if not isinstance(tabs, dict) or sorted(tabs.get("alternative_sites", [])) != impl_alt:
        ctx.disagree("cmp_tables", {}, tabs, impl_alt)
    allowed = set(tabs.get("comparator_event_types", [])) if isinstance(tabs, dict) else set()
    cases = []
    for name, params, known, gr, rj, rr, ij, ir, exp in CMP.test_corpus():
        cases.append(("corpus", params, CMP.case(params, known, gr, rj, rr, ij, ir), exp))
    ctx.extra["compare_corpus_cases"] = len(cases)
    tiny = CMP.tiny_param_sets(rng, 12)
    presets = [make_params(s) for s in A.PRESETS] + [make_params("default", delta=rng.choice([0, 1, 3, 8, 20]))]
    correspondence_compare_helpers(ctx, tiny, presets)
    # exhaustive: every pair of intron chains with <= 2 introns inside [2, 6] (x 4 region choices, tiny parameters)
    small = CMP.small_universe(rng, 6, 2, tiny)
    ctx.extra["compare_small_universe"] = "all pairs of chains (<= 2 introns, coordinates 2..6): %d cases" % len(small)
    cases += [("exhaustive", p, c, None) for p, c in small]
    for hi, mx, n in ((8, 3, 2500 if quick else 40000), (11, 4, 2500 if quick else 40000)):
        cases += [("universe%d" % hi, p, c, None) for p, c in CMP.small_universe(rng, hi, mx, tiny, sample=n)]
    cases += [("random", p, c, None) for p, c in CMP.random_cases(rng, 6000 if quick else 120000, presets)]
    cases += [("malformed", p, c, None) for p, c in CMP.malformed_cases(rng, 1500 if quick else 30000, tiny + presets)]
    # the witnesses proved in Lean (Props/C01Compare `flanking_inside_monoexon_witness`) run on the real comparator too
    wp = make_params("default")
    cases.append(("witness", wp, CMP.case(wp, [], (1000, 2000), [(100, 500), (1200, 1500)], (50, 1900), [], (1000, 2000)),
                  "extra_intron_flanking_left"))
    outs = ctx.driver.run([vlib.req("C01.compare", **c) for _, _, c, _ in cases])
    sweeps = ctx.driver.run([vlib.req("C01.sweep", **c) for _, _, c, _ in cases])
    tols = ctx.driver.run([vlib.req("C01.tolerance", **c) for _, _, c, _ in cases])
    for (kind, params, c, exp), tl in zip(cases, tols):
        # the decidable hypotheses of the theorems: Lean predicate == the oracle's Python predicate
        ctx.evaluations += 1
        ctx.count("op:tolerance")
        pt = CMP.py_tolerance(c)
        if not isinstance(tl, dict) or "driver_error" in tl or tl.get("chains_wf") != pt["chains_wf"] or \
                tl.get("introns") != pt["introns"]:
            if len(ctx.disagreements) < 60:
                ctx.disagree("tolerance", c, tl, pt)
        elif pt["chains_wf"] and any(r["far"] and not r["tolerated"] for r in pt["introns"]):
            ctx.count("theorem3_hypotheses_met")
    for (kind, params, c, exp), mo, sw, tl in zip(cases, outs, sweeps, tols):
        ctx.evaluations += 1
        ctx.count("op:compare_" + kind)
        if isinstance(mo, dict) and "driver_error" in mo:
            ctx.disagree("compare", c, mo, None)
            continue
        io, tr = CMP.impl_compare(c, params)
        ctx.traces_validated += 1
        ok = vlib.same(mo, io)
        if ok and c["read_junctions"] and "pairs" in tr:
            ok = tr["pairs"] == sw.get("pairs")
        if ok and "read_profile" in tr:
            ok = tr["read_profile"] == sw.get("read")
        if ok and c["read_junctions"] and isinstance(tl, dict) and "no_contradiction" in tl:
            # left-hand side of `no_contradiction_iff`: detect_contradiction_type is not called
            ok = tl["no_contradiction"] == ("pairs" not in tr)
        if not ok and not vlib.is_err(io) and vlib.canon(CMP.impl_compare_exact(c, params)) != vlib.canon(io):
            ctx.count("float_divergence")
            continue
        if exp is not None and (vlib.is_err(io) or io[0][0] != exp):
            ok = False        # the literal expectation of the test file
        if not ok:
            if len(ctx.disagreements) < 60:
                ctx.disagree("compare", c, {"events": mo, "sweep": sw}, {"events": io, "trace": tr})
            continue
        if vlib.is_err(mo):
            ctx.count("model_error")
            continue
        for e in mo:
            ctx.count("cmp_event:" + e[0])
            if e[0] not in allowed:
                ctx.disagree("comparator_event_types", c, sorted(allowed), e[0])
        if any(e[0] != "none" for e in mo):
            ctx.mark_nontrivial(["compare", c["read_junctions"], c["read_region"], c["iso_junctions"], c["iso_region"],
                                 c["params"]["delta"]])
        if kind == "corpus" and len(ctx.samples) < 3:
            ctx.sample({"op": "compare", "input": c, "model": mo, "impl": io})


# ------------------------------------------------------------------------------------------------
# oracle: the property itself on the real code.
#
# Independent structural check (positions only; shares nothing with the profile code):
#   introns(blocks)            = gaps between consecutive blocks
#   matches(r, k, d)           = |r.start - k.start| <= d and |r.end - k.end| <= d
#   compatible(read, I, d)     = every read intron that overlaps I's span matches an intron of I within d, and every intron
#                                of I lying strictly inside the read's span is matched by a read intron within d
#   follows(read, T, d)        = the read introns match a contiguous run of T's introns one to one (each T intron being the
#                                closest annotated intron for its read intron, reading rule in docs/C01.md), the read starts
#                                inside the exon of T preceding the run (first exon: not before T's start) and ends inside the
#                                exon following it (last exon: not beyond T's end)
#   far(read, I)               = see far_from()
FAR_SITE = 100         # a splice site moved by at least this much is "far beyond" every preset's delta (max 12) and
                       # max_intron_shift (max 60: an intron moved as a whole by <= 60 is an `intron_shift` artifact)
FAR_LEN = 200          # skipped / extra exon, retained intron, extension length that is "far beyond" all tolerances
MIN_ANNOT_EXON = 110   # annotated exons of the oracle's domain are longer than max_missed_exon_len (max 100)
MAX_FAKE_EXON = 40     # max_fake_terminal_exon_len over all presets
FAR_EXON = 60          # blocks of a "far" read are longer than max_fake_terminal_exon_len (max 40): no micro terminal exons
CONSISTENT = ("unique", "unique_minor_difference", "ambiguous")
WIDE_MIN_EXON = 20     # audit G6: annotations without micro-features (exons >= 20 bp, introns >= 30 bp) are inside the domain
WIDE_MIN_INTRON = 30   # of the forward clause; the converse clause is judged on every annotation (G4, G5)


def o_introns(blocks):
    return [(blocks[i][1] + 1, blocks[i + 1][0] - 1) for i in range(len(blocks) - 1) if blocks[i][1] + 1 < blocks[i + 1][0]]


def o_match(r, k, d):
    return abs(r[0] - k[0]) <= d and abs(r[1] - k[1]) <= d


def o_dist(r, k):
    return abs(r[0] - k[0]) + abs(r[1] - k[1])


def o_compatible(blocks, exons, d):
    R, K = o_introns(blocks), o_introns(exons)
    span = (blocks[0][0], blocks[-1][1])
    ispan = (exons[0][0], exons[-1][1])
    for r in R:
        if r[1] >= ispan[0] and r[0] <= ispan[1]:
            if not any(o_match(r, k, d) for k in K):
                return "read intron %s has no intron of the isoform within %d" % (list(r), d)
    for k in K:
        if span[0] < k[0] and k[1] < span[1]:
            if not any(o_match(r, k, d) for r in R):
                return "isoform intron %s lies inside the read span %s and is not matched" % (list(k), list(span))
    return None


def o_follows(blocks, t, all_introns, d):
    """None if the read does not follow isoform t; else dict(full_length=bool).  `all_introns` = the annotated introns among
    which T's intron has to be (one of) the closest to each read intron (tie-loser reading rule); passing T's own introns
    drops that rule ("within delta of T, whatever the other isoforms are")"""
    exons = t["exons"]
    R, K = o_introns(blocks), o_introns(exons)
    if len(K) != len(exons) - 1:
        return None          # touching exons: not a clean chain
    if not R:
        for i, e in enumerate(exons):
            if e[0] <= blocks[0][0] and blocks[-1][1] <= e[1]:
                return {"full_length": len(exons) == 1 and blocks[0][0] - e[0] <= 40 and e[1] - blocks[-1][1] <= 40,
                        "first": i, "last": i}
        return None
    if len(R) != len(blocks) - 1:
        return None
    for o in range(len(K) - len(R) + 1):
        if all(o_match(R[j], K[o + j], d) for j in range(len(R))):
            # reading rule: T's intron is (one of) the closest annotated introns for each read intron
            for j in range(len(R)):
                best = min(o_dist(R[j], k) for k in all_introns if o_match(R[j], k, d))
                if o_dist(R[j], K[o + j]) != best:
                    return None
            first, last = exons[o], exons[o + len(R)]
            if not (first[0] <= blocks[0][0] <= first[1] and last[0] <= blocks[-1][1] <= last[1]):
                return None
            fl = (len(R) == len(K) and blocks[0][0] - exons[0][0] <= 40 and exons[-1][1] - blocks[-1][1] <= 40)
            return {"full_length": fl, "first": o, "last": o + len(R)}
    return None


AT_END = 2             # "a polyA tail at T's 3' end": a reported tail position within the finder's own 2-base look-back of
                       # T's annotated 3' end


def norm_tails(tail):
    """the tail positions a read carries, {"A": [...], "T": [...]} (reference positions reported by the polyA finder,
    external and internal).  Accepts None, the old ("A"|"T", position) pair, or the dict itself."""
    if tail is None:
        return {"A": [], "T": []}
    if isinstance(tail, dict):
        return {"A": sorted(tail.get("A") or []), "T": sorted(tail.get("T") or [])}
    return {"A": [tail[1]] if tail[0] == "A" else [], "T": [tail[1]] if tail[0] == "T" else []}


def tails_of_polya(polya):
    """[external polyA, external polyT, internal polyA, internal polyT] (-1 = absent) -> tails"""
    return {"A": sorted({p for p in (polya[0], polya[2]) if p != -1}), "T": sorted({p for p in (polya[1], polya[3]) if p != -1})}


def tail_status(strand, exons, tails):
    """where the read's tail sits with respect to an isoform (reading rule DESIGN 6 / docs/C01.md "tail position"):
      none        no tail on either side
      wrong_side  a tail on the isoform's 5' side (polyT head for '+', polyA tail for '-'): not one of the tolerances
      at_end      some reported position within AT_END of the annotated 3' end  -> forward clause applies
      far         every reported position >= FAR_LEN from the annotated 3' end (and the isoform exons lying beyond the
                  tail, if any, are longer than max_missed_exon_len together)   -> distant end, converse clause
      near        anything else                                                 -> not constrained"""
    rel, wrong = (tails["A"], tails["T"]) if strand == "+" else (tails["T"], tails["A"]) if strand == "-" else ([], [])
    if wrong:
        return "wrong_side"
    if not rel:
        return "none"
    e3 = exons[-1][1] if strand == "+" else exons[0][0]
    if any(abs(p - e3) <= AT_END for p in rel):
        return "at_end"
    if all(abs(p - e3) >= FAR_LEN for p in rel):
        for p in rel:
            beyond = [e for e in exons if e[0] >= p] if strand == "+" else [e for e in exons if e[1] <= p]
            if beyond and len(beyond) < len(exons) and sum(e[1] - e[0] + 1 for e in beyond) <= 100:
                return "near"      # `detect_reference_exons_beyond_polya`: missed terminal exons <= max_missed_exon_len
        return "far"
    return "near"


def o_far_from(blocks, exons, strand=None, tail=None):
    """True when the read differs from the isoform by a structural change far beyond all tolerances.
    tail = the tail positions the read carries (norm_tails); for an isoform of the matching strand a tail at least
    FAR_LEN away from the annotated 3' end is a distant end."""
    if tail is not None and tail_status(strand, exons, norm_tails(tail)) == "far":
        return True
    R, K = o_introns(blocks), o_introns(exons)
    span = (blocks[0][0], blocks[-1][1])
    ispan = (exons[0][0], exons[-1][1])
    if span[1] < ispan[0] or ispan[1] < span[0]:
        return True
    # a read intron (long enough to be a real one) overlapping the isoform span with no isoform intron anywhere near
    for r in R:
        if r[1] - r[0] + 1 >= FAR_LEN and r[1] >= ispan[0] + FAR_SITE and r[0] <= ispan[1] - FAR_SITE:
            if not any(abs(r[0] - k[0]) < FAR_SITE and abs(r[1] - k[1]) < FAR_SITE for k in K):
                return True
    # a long isoform intron well inside the read span that the read does not have (retained)
    for k in K:
        if k[1] - k[0] + 1 >= FAR_LEN and span[0] + FAR_SITE <= k[0] and k[1] <= span[1] - FAR_SITE:
            if not any(abs(r[0] - k[0]) < FAR_SITE and abs(r[1] - k[1]) < FAR_SITE for r in R):
                return True
    # read extends far beyond the isoform
    if ispan[0] - span[0] >= FAR_LEN or span[1] - ispan[1] >= FAR_LEN:
        return True
    return False


def jaccard(blocks, exons):
    a = set()
    for x, y in blocks:
        a.update(range(x, y + 1))
    b = set()
    for x, y in exons:
        b.update(range(x, y + 1))
    return Fraction(len(a & b), len(a | b))


MONITOR = {}            # counters of the hypothesis monitors (copied into ctx.count by the oracle stages)


def monitor_count(key):
    MONITOR[key] = MONITOR.get(key, 0) + 1


def skips_short_annotated_exon(isoforms, blocks):
    """tolerance (c) as the CODE applies it: an annotated exon of at most max_missed_exon_len (100, over all presets) that
    lies inside a read intron may be an `exon_misalignment` artifact - such a read is not judged as far (audit G4: the test
    is per READ; short exons elsewhere in the annotation are allowed)"""
    R = o_introns(blocks)
    return any(r[0] <= e[0] and e[1] <= r[1] and e[1] - e[0] + 1 <= 100 for r in R for t in isoforms for e in t["exons"])


def check_assignment(isoforms, delta, blocks, tail, result, judge_follow=True, params=None):
    """the property on one read.  result = {"type": str, "isoforms": [ids]}.  `tail` = the tail positions the read carries
    (None, the old ("A"|"T", position) pair, or {"A": [...], "T": [...]} as reported by the real polyA finder: see
    tail_status).  Returns list of (kind, detail).  judge_follow=False: only the converse clause is evaluated (annotations
    with micro-features, where the forward clause's reading rules do not apply: known finding micro_feature_sweep_skip).

    Clauses and the isoforms they are judged on (audit-2 C01: the closest-intron rule no longer removes a read from ALL
    clauses):
      follows T within delta (T's own introns; tail absent or at T's 3' end)  -> type consistent, reported isoforms compatible,
                                                                                  unique when only one isoform is compatible
      ... and T's introns are the closest annotated ones (tie-loser rule)      -> T reported when full-length
      follows T, tail elsewhere (near / wrong side)                            -> not constrained
      far from every isoform (structure or tail >= FAR_LEN from the 3' end)     -> not consistent"""
    fails = []
    tails = norm_tails(tail)
    has_tail = bool(tails["A"] or tails["T"])
    by_id = {t["id"]: t for t in isoforms}
    all_introns = sorted({k for t in isoforms for k in o_introns(t["exons"])})
    followed, followed_any, followed_struct = {}, {}, {}
    for t in isoforms:
        f0 = o_follows(blocks, t, sorted(set(o_introns(t["exons"]))), delta)
        if f0 is None:
            continue
        st = tail_status(t["strand"], t["exons"], tails)
        followed_struct[t["id"]] = st
        if st not in ("none", "at_end"):
            # "a polyA tail at T's 3' end": a tail elsewhere is not one of T's tolerances
            continue
        followed_any[t["id"]] = f0
        f = o_follows(blocks, t, all_introns, delta)
        if f is not None:
            followed[t["id"]] = f
    rep = [i for i in result["isoforms"] if i in by_id]
    typ = result["type"]
    if params is not None and has_tail:
        # the TAIL CLAUSE exactly as proved (Props/C01Tail.lean `tail_far_never_consistent_geom`, proof-closure round):
        # every reported tail position farther than apa_delta from the 3' end of EVERY isoform of the gene (`TailFar`, incl.
        # "no missed terminal exons") and the read's end `EndGeom`-clean for every isoform  =>  never unique /
        # unique_minor_difference / ambiguous.  Judged in EVERY annotation (the theorem has no well-formedness hypothesis)
        # and at every distance beyond apa_delta: the zone apa_delta < distance < FAR_LEN used to be "not constrained".
        hyp, _rows = py_tail_clause_hyp(isoforms, params, blocks, tails)
        if hyp:
            dist = min(abs((t["exons"][-1][1] if t["strand"] == "+" else t["exons"][0][0]) - q)
                       for t in isoforms for q in tails["A" if t["strand"] == "+" else "T"])
            monitor_count("oracle:tail_clause_judged(%s)" % ("zone apa_delta<d<%d" % FAR_LEN if dist < FAR_LEN else "d>=%d" % FAR_LEN))
            if typ in CONSISTENT:
                fails.append(("tail_far_consistent", "hypotheses of tail_far_never_consistent_geom hold (nearest 3' end %d bp from "
                              "the tail, apa_delta %d) but the read is reported %s %s" % (dist, params.apa_delta, typ, rep)))
                return fails
        else:
            monitor_count("oracle:tail_clause_hypotheses_fail")
    if followed_struct and not judge_follow:
        return fails

    def reported_compatible():
        for i in rep:
            why = o_compatible(blocks, by_id[i]["exons"], delta)
            if why:
                fails.append(("reported_incompatible", "reported isoform %s: %s" % (i, why)))

    if followed_any:
        if has_tail:
            monitor_count("oracle:forward_clause_with_tail_at_3p_end")
        if len(followed) < len(followed_any):
            monitor_count("oracle:follows_but_another_variant_is_closer(judged: consistent, compatible)")
        if typ not in CONSISTENT:
            fails.append(("follows_not_consistent", "read follows %s but is reported %s %s" % (sorted(followed_any), typ, rep)))
        else:
            reported_compatible()
            for tid, f in followed.items():
                if f["full_length"] and tid not in rep:
                    # audit G3: the score hypothesis of `full_length_reported` (hbest / hmin) is MONITORED, not copied:
                    # reading rule "full-length => T reported unless another candidate's Jaccard score exceeds 3/2 of T's"
                    # (resolve_by_nucleotide_score keeps every candidate with score * 3/2 >= best; the best candidate is
                    # always reported, so the rule is decided on the reported isoforms)
                    jt = jaccard(blocks, by_id[tid]["exons"])
                    best = max([jaccard(blocks, by_id[i]["exons"]) for i in rep] or [Fraction(0)])
                    if jt * 3 < best * 2:
                        monitor_count("oracle:full_length_dropped_by_score(reading rule)")
                    else:
                        fails.append(("full_length_not_reported", "full-length read of %s (Jaccard %s, best reported %s) "
                                      "reported as %s %s" % (tid, jt, best, typ, rep)))
                elif f["full_length"]:
                    monitor_count("oracle:full_length_reported")
            # span tolerance: min_abs_exon_overlap (10) - or the user's delta when that is larger: the real code calls an end
            # within delta of the isoform's end a precise terminal match (terminal_site_match_*_precise) and reports such an
            # isoform next to T (false alarm of the audit-2 round: --delta 20 / 50 with the tolerance hard-coded to 10)
            tol = max(10, delta)
            comp = [t["id"] for t in isoforms if o_compatible(blocks, t["exons"], delta) is None and
                    t["exons"][0][0] - tol <= blocks[0][0] and blocks[-1][1] <= t["exons"][-1][1] + tol]
            if len(comp) == 1 and (rep != comp or typ not in ("unique", "unique_minor_difference")):
                fails.append(("only_compatible_not_unique", "only %s is compatible; reported %s %s" % (comp, typ, rep)))
    else:
        if followed_struct:
            # the read follows an isoform but carries a tail that is neither absent nor at that isoform's 3' end: the type
            # is decided by the tail (converse clause below when it is far from EVERY isoform's end)
            for st in set(followed_struct.values()):
                monitor_count("oracle:follows_with_tail_" + st)
        # the "fake terminal exon" tolerance can excuse at most the outermost exon (<= max_fake_terminal_exon_len) and its
        # intron: a read whose remaining blocks are far from every isoform is far whatever its outermost exons are
        core = far_core(blocks, tails if has_tail else None)
        if min(b[1] - b[0] + 1 for b in core) >= FAR_EXON and not skips_short_annotated_exon(isoforms, blocks) and \
                all(o_far_from(core, t["exons"], t["strand"], tails) for t in isoforms):
            if has_tail and all(tail_status(t["strand"], t["exons"], tails) == "far" for t in isoforms):
                monitor_count("oracle:far_by_tail_position_only" if followed_struct else "oracle:far_by_tail_and_structure")
            if typ in CONSISTENT:
                fails.append(("far_read_consistent", "read is far from every isoform but reported %s %s" % (typ, rep)))
    return fails


def far_core(blocks, tail):
    """the read without its (at most one per side) outermost exon of at most MAX_FAKE_EXON bases; reads with a polyA/T
    tail are kept as they are"""
    core = list(blocks)
    if tail is not None:
        return core
    if len(core) >= 2 and core[0][1] - core[0][0] + 1 <= MAX_FAKE_EXON:
        core = core[1:]
    if len(core) >= 2 and core[-1][1] - core[-1][0] + 1 <= MAX_FAKE_EXON:
        core = core[:-1]
    return core


# ---- oracle annotations / reads: kept clear of the borders of the tolerances

def oracle_annotation(rng, n_genes=None):
    """one cluster: exons >= 120 bp, introns >= 300 bp; alternative sites at distances 3..12 (within some deltas) or >= 60"""
    isoforms = []
    pos = rng.randint(3000, 4000)          # room for up to three extra upstream exons (flank_l reads)
    n_genes = n_genes or rng.randint(1, 3)
    for gi in range(n_genes):
        strand = rng.choice("+-")
        n = rng.choice([1, 2, 3, 4, 5, 6, 7])
        base = A._chain(rng, pos, n, (120, 500), (300, 2500))
        chains = [base]
        for _ in range(rng.randint(0, 4)):
            kind = rng.choice(["skip", "alt5", "alt3", "retain", "trunc_l", "trunc_r", "ext", "mono", "novel_exon"])
            ex = [list(e) for e in base]
            if kind == "skip" and n >= 3:
                i = rng.randint(1, n - 2)
                ex = ex[:i] + ex[i + 1:]
            elif kind == "alt5" and n >= 2:
                i = rng.randint(0, n - 2)
                ex[i][1] += rng.choice([-1, 1]) * rng.choice([3, 5, 9, 12, 60, 90])
            elif kind == "alt3" and n >= 2:
                i = rng.randint(1, n - 1)
                ex[i][0] += rng.choice([-1, 1]) * rng.choice([3, 5, 9, 12, 60, 90])
            elif kind == "retain" and n >= 2:
                i = rng.randint(0, n - 2)
                ex = ex[:i] + [[ex[i][0], ex[i + 1][1]]] + ex[i + 2:]
            elif kind == "trunc_l" and n >= 3:
                ex = ex[rng.randint(1, n - 2):]
            elif kind == "trunc_r" and n >= 3:
                ex = ex[:rng.randint(2, n - 1)]
            elif kind == "ext":
                if rng.random() < 0.5:
                    ex[0][0] -= rng.choice([100, 250, 400])
                else:
                    ex[-1][1] += rng.choice([100, 250, 400])
            elif kind == "mono":
                i = rng.randint(0, n - 1)
                ex = [[ex[i][0] - rng.choice([0, 30]), ex[i][1] + rng.choice([0, 30])]]
            elif kind == "novel_exon" and n >= 2:
                i = rng.randint(0, n - 2)
                a, b = ex[i][1] + 1, ex[i + 1][0] - 1
                if b - a > 700:
                    s0 = rng.randint(a + 250, b - 400)
                    ex = ex[:i + 1] + [[s0, s0 + rng.randint(120, 150)]] + ex[i + 1:]
            ex = [tuple(e) for e in ex]
            # every annotated exon stays longer than max_missed_exon_len (100): a skipped exon is never an
            # `exon_misalignment` artifact, so "skipped exon" is always far beyond the tolerances
            if A.valid_blocks(ex) and all(ex[i][1] + 1 < ex[i + 1][0] for i in range(len(ex) - 1)) and ex not in chains \
                    and min(e[1] - e[0] + 1 for e in ex) >= MIN_ANNOT_EXON:
                chains.append(ex)
        for ex in chains:
            isoforms.append({"gene": "g%d" % gi, "strand": strand, "exons": [tuple(e) for e in ex]})
        span = base[-1][1] - base[0][0]
        mode = rng.choice(["overlap", "inside", "after", "after"])
        if mode == "overlap":
            pos = base[0][0] + rng.randint(0, span)
        elif mode == "inside" and len(base) >= 2:
            i = rng.randint(0, len(base) - 2)
            pos = base[i][1] + rng.randint(50, max(51, base[i + 1][0] - base[i][1] - 1))
        else:
            pos = base[-1][1] + rng.randint(100, 900)
    rng.shuffle(isoforms)
    for i, t in enumerate(isoforms):
        t["id"] = "t%04d" % i
    return isoforms


def oracle_follow_read(rng, t, delta):
    """(blocks, reaches_3p_end) following isoform t within the tolerances, clear of their borders"""
    ex = [list(e) for e in t["exons"]]
    n = len(ex)
    i, j = 0, n - 1
    if n >= 2 and rng.random() < 0.5:
        i = rng.randint(0, n - 1)
        j = rng.randint(i, n - 1)
    sub = [list(e) for e in ex[i:j + 1]]
    for k in range(len(sub) - 1):
        sub[k][1] += rng.randint(-delta, delta)
        sub[k + 1][0] += rng.randint(-delta, delta)
    l0 = ex[i][1] - ex[i][0] + 1
    l1 = ex[j][1] - ex[j][0] + 1
    cut0 = rng.randint(0, min(40, l0 // 8)) if i == 0 else rng.randint(0, max(0, l0 - 40))
    cut1 = rng.randint(0, min(40, l1 // 8)) if j == n - 1 else rng.randint(0, max(0, l1 - 40))
    if len(sub) == 1:
        cut0 = rng.randint(0, l0 // 3)
        cut1 = rng.randint(0, l0 // 3)
        if i == 0:
            cut0 = min(cut0, 40)
        if j == n - 1:
            cut1 = min(cut1, 40)
    sub[0][0] = ex[i][0] + cut0
    sub[-1][1] = ex[j][1] - cut1
    blocks = [tuple(e) for e in sub]
    if not A.valid_blocks(blocks):
        return None, None, None
    return blocks, (i == 0), (j == n - 1)


def oracle_far_read(rng, t):
    ex = [list(e) for e in t["exons"]]
    n = len(ex)
    kind = rng.choice(["skip", "novel_exon", "retain", "shift5", "shift3", "extend_l", "extend_r", "apa",
                       "flank_l", "flank_r", "fake_ext_l", "fake_ext_r"])
    if kind in ("fake_ext_l", "fake_ext_r"):
        # audit G1: ONE short (1..40 bp) extra outermost exon - inside some presets' fake-terminal-exon tolerance, which may
        # excuse that exon and its intron only - in front of an outermost exon of T that is itself extended far (>= FAR_LEN)
        # beyond T's annotated end.  The overhang of the NEXT exon is far beyond every elongation tolerance.
        ln = rng.randint(1, 20) if rng.random() < 0.5 else rng.randint(1, MAX_FAKE_EXON)
        ext = rng.randint(FAR_LEN, 3 * FAR_LEN)
        gap = rng.randint(80, 900)
        if n > 2 and rng.random() < 0.3:
            ex = ex[:rng.randint(2, n)] if kind == "fake_ext_l" else ex[rng.randint(0, n - 2):]       # 3'/5' truncated rest
        if kind == "fake_ext_l":
            ex[0][0] -= ext
            e_end = ex[0][0] - gap - 1
            ex.insert(0, [e_end - ln + 1, e_end])
        else:
            ex[-1][1] += ext
            e_start = ex[-1][1] + gap + 1
            ex.append([e_start, e_start + ln - 1])
    elif kind in ("flank_l", "flank_r"):
        # 2-3 extra exons beyond the transcript's low- / high-coordinate end (unannotated upstream / downstream exons): the
        # inner ones long (>= FAR_LEN), the outermost one short (1..40 bp, inside some presets' fake-terminal-exon
        # tolerance, which may excuse that exon only)
        n_extra = rng.choice([2, 3])
        lens = [rng.randint(FAR_LEN, FAR_LEN + 150) for _ in range(n_extra - 1)] + \
               [rng.randint(1, 20) if rng.random() < 0.4 else rng.randint(1, MAX_FAKE_EXON)]      # inner ... outermost
        if n > 2 and rng.random() < 0.3:
            ex = ex[:rng.randint(2, n)] if kind == "flank_l" else ex[rng.randint(0, n - 2):]       # 3'/5' truncated rest
        if kind == "flank_l":
            pos = ex[0][0]
            for ln in lens:
                e_end = pos - rng.randint(300, 800) - 1
                ex.insert(0, [e_end - ln + 1, e_end])
                pos = e_end - ln + 1
        else:
            pos = ex[-1][1]
            for ln in lens:
                e_start = pos + rng.randint(300, 800) + 1
                ex.append([e_start, e_start + ln - 1])
                pos = e_start + ln - 1
    elif kind == "apa":
        # polyA tail far inside the terminal exon (alternative polyA site): (blocks, kind) with kind "apa"; the caller adds
        # the tail at the truncated end
        if t["strand"] == "+" and ex[-1][1] - ex[-1][0] + 1 >= FAR_LEN + FAR_EXON + 20:
            ex[-1][1] -= rng.randint(FAR_LEN, ex[-1][1] - ex[-1][0] + 1 - FAR_EXON - 10)
        elif t["strand"] == "-" and ex[0][1] - ex[0][0] + 1 >= FAR_LEN + FAR_EXON + 20:
            ex[0][0] += rng.randint(FAR_LEN, ex[0][1] - ex[0][0] + 1 - FAR_EXON - 10)
        else:
            return None, kind
    elif kind == "skip" and n >= 3:
        i = rng.randint(1, n - 2)
        if ex[i][1] - ex[i][0] + 1 >= FAR_LEN:
            ex = ex[:i] + ex[i + 1:]
    elif kind == "novel_exon" and n >= 2:
        i = rng.randint(0, n - 2)
        a, b = ex[i][1] + 1, ex[i + 1][0] - 1
        if b - a > 3 * FAR_LEN + 300:
            s0 = rng.randint(a + FAR_LEN + 50, b - 2 * FAR_LEN - 50)
            ex = ex[:i + 1] + [[s0, s0 + FAR_LEN]] + ex[i + 1:]
    elif kind == "retain" and n >= 2:
        i = rng.randint(0, n - 2)
        ex = ex[:i] + [[ex[i][0], ex[i + 1][1]]] + ex[i + 2:]
    elif kind == "shift5" and n >= 2:
        i = rng.randint(0, n - 2)
        d = rng.randint(FAR_SITE, 2 * FAR_SITE)
        if rng.random() < 0.5 or ex[i][1] - ex[i][0] - 30 < d:
            ex[i][1] += d
        else:
            ex[i][1] -= d
    elif kind == "shift3" and n >= 2:
        i = rng.randint(1, n - 1)
        d = rng.randint(FAR_SITE, 2 * FAR_SITE)
        if rng.random() < 0.5 or ex[i][1] - ex[i][0] - 30 < d:
            ex[i][0] -= d
        else:
            ex[i][0] += d
    elif kind == "extend_l":
        ex[0][0] -= rng.randint(FAR_LEN, 3 * FAR_LEN)
    elif kind == "extend_r":
        ex[-1][1] += rng.randint(FAR_LEN, 3 * FAR_LEN)
    if kind not in ("apa", "extend_l", "extend_r", "flank_l", "flank_r", "fake_ext_l", "fake_ext_r") and rng.random() < 0.35:
        # a small (tolerated) end extension on top of the far change: minor and major events then occur together
        if rng.random() < 0.5:
            ex[0][0] -= rng.randint(13, 45)
        else:
            ex[-1][1] += rng.randint(13, 45)
    blocks = [tuple(e) for e in ex]
    return (blocks, kind) if A.valid_blocks(blocks) and blocks[0][0] >= 1 else (None, kind)


def inprocess_result(built, blocks, polya):
    prof = built.profiles(blocks, polya)
    r = built.assigner.assign_to_isoform("r", prof)
    return {"type": r.assignment_type.name,
            "isoforms": sorted(m.assigned_transcript for m in r.isoform_matches if m.assigned_transcript is not None),
            "events": {m.assigned_transcript: [e.event_type.name for e in m.match_subclassifications]
                       for m in r.isoform_matches if m.assigned_transcript is not None}}


def tail_of(blocks, polya):
    """the tail argument of check_assignment: the four positions handed to the profile constructor ARE what the polyA finder
    reported for the read (external / internal polyA, external / internal polyT); every combination is inside the domain
    (audit-2 C01-a: positions away from the read ends used to be dropped as "outside the property's domain")"""
    t = tails_of_polya(polya)
    return t if (t["A"] or t["T"]) else None


def oracle_inprocess_case(isoforms, strategy, blocks, polya, delta_override=None):
    """evaluate the property on one read with the real profile constructor + assigner; returns failures"""
    params = make_params(strategy, delta=delta_override)
    built = Built(isoforms, params)
    blocks = [tuple(b) for b in blocks]
    res = inprocess_result(built, blocks, polya)
    return check_assignment(isoforms, params.delta, blocks, tail_of(blocks, polya), res, params=params), res


def zone_read(rng, t, blocks, polya, params, apply=False):
    """a follower of T that reaches T's 3' terminal exon, cut so that its aligned end lies apa_delta+1 .. FAR_LEN-1 bases
    before T's annotated 3' end, with the tail positions the finder reports for an A-/T-rich aligned end (internal), a
    soft-clipped tail (external) or both.  apply=False: can such a read be made (terminal exon long enough, more than
    max_fake_terminal_exon_len bases left)?  apply=True: returns the blocks and fills `polya`."""
    plus = t["strand"] == "+"
    ex = t["exons"]
    term = ex[-1] if plus else ex[0]
    b = blocks[-1] if plus else blocks[0]
    if not (b[0] <= term[1] and term[0] <= b[1]):
        return None
    room = (term[1] - b[0]) if plus else (b[1] - term[0])       # bases of the terminal exon the read may keep
    lo, hi = params.apa_delta + 1, FAR_LEN - 1
    hi = min(hi, room - params.max_fake_terminal_exon_len - 1)
    if hi < lo:
        return None
    if not apply:
        return True
    d = rng.choice([lo, lo + 1, hi, rng.randint(lo, hi), rng.randint(lo, hi)])
    how = rng.choice(["int", "int", "ext", "both"])
    if plus:
        e = term[1] - d
        blocks = blocks[:-1] + [(b[0], e)]
        if how in ("int", "both"):
            polya[2] = e - rng.randint(0, min(20, e - b[0], d - lo))
        if how in ("ext", "both"):
            polya[0] = e + rng.choice([0, 1])
    else:
        e = term[0] + d
        blocks = [(e, b[1])] + blocks[1:]
        if how in ("int", "both"):
            polya[3] = e + rng.randint(0, min(20, b[1] - e, d - lo))
        if how in ("ext", "both"):
            polya[1] = max(1, e - rng.choice([0, 1]))
    return blocks


def oracle_inprocess(ctx, n_worlds, reads_per_iso, user_delta=None):
    """user_delta: `--delta` given by the user (audit-2: 20, 50 - beyond every preset; FAR_SITE = 100 stays far beyond it)"""
    rng = ctx.rng
    n = 0
    for _ in range(n_worlds):
        isoforms = oracle_annotation(rng)
        for strategy in A.PRESETS:
            params = make_params(strategy, delta=user_delta)
            built = Built(isoforms, params)
            for t in isoforms:
                for _ in range(reads_per_iso):
                    if rng.random() < 0.7:
                        blocks, at5, at3 = oracle_follow_read(rng, t, params.delta)
                        kind = "follow"
                    else:
                        blocks, kind = oracle_far_read(rng, t)
                        at5 = at3 = False
                    if blocks is None:
                        continue
                    polya = [-1, -1, -1, -1]
                    if kind == "apa":
                        if t["strand"] == "+":
                            polya[0] = blocks[-1][1] + 1
                        else:
                            polya[1] = max(1, blocks[0][0] - 1)
                    if kind == "follow" and rng.random() < 0.4:
                        # "a polyA tail at T's 3' end": the read then ends at the annotated end (reading rule, docs/C01.md)
                        if t["strand"] == "+" and at3:
                            blocks = blocks[:-1] + [(blocks[-1][0], t["exons"][-1][1])]
                            polya[0] = blocks[-1][1] + 1
                        elif t["strand"] == "-" and at5:
                            blocks = [(t["exons"][0][0], blocks[0][1])] + blocks[1:]
                            polya[1] = max(1, blocks[0][0] - 1)
                    elif kind == "follow" and (at3 if t["strand"] == "+" else at5) and rng.random() < 0.18 and \
                            zone_read(rng, t, blocks, polya, params):
                        # proof-closure round: the zone apa_delta < distance < FAR_LEN (judged by the tail clause only)
                        kind = "prime_zone"
                        blocks = zone_read(rng, t, blocks, polya, params, apply=True)
                    elif kind == "follow" and rng.random() < 0.25:
                        # audit-2 C01-a (internal priming): the finder reports a tail at / just inside the aligned end of a
                        # read that is truncated anywhere: internal position (A-rich aligned end), external position (soft
                        # clip behind it) or both; on T's 3' side ("prime") or on its 5' side ("prime_wrong_side")
                        kind = "prime" if rng.random() < 0.8 else "prime_wrong_side"
                        hi = (t["strand"] == "+") == (kind == "prime")
                        how = rng.choice(["int", "int", "ext", "both"])
                        if hi:
                            e = blocks[-1][1]
                            if how in ("int", "both"):
                                polya[2] = e - rng.randint(0, min(40, blocks[-1][1] - blocks[-1][0]))
                            if how in ("ext", "both"):
                                polya[0] = e + rng.choice([-2, -1, 0, 0, 1])
                        else:
                            b = blocks[0][0]
                            if how in ("int", "both"):
                                polya[3] = b + rng.randint(0, min(40, blocks[0][1] - blocks[0][0]))
                            if how in ("ext", "both"):
                                polya[1] = max(1, b + rng.choice([-1, -1, 0, 1, 2]))
                    try:
                        res = inprocess_result(built, blocks, polya)
                    except ERRS as ex:
                        ctx.fail("assigner_raises", {"mode": "inprocess", "isoforms": strip(isoforms), "strategy": strategy,
                                                     "blocks": blocks, "polya": polya}, type(ex).__name__)
                        continue
                    n += 1
                    ctx.count("oracle:" + kind + ("" if user_delta is None else ":user_delta"))
                    for k, detail in check_assignment(isoforms, params.delta, blocks, tail_of(blocks, polya), res, params=params):
                        ctx.fail(k, {"mode": "inprocess", "isoforms": strip(isoforms), "strategy": strategy, "delta": user_delta,
                                     "blocks": [list(b) for b in blocks], "polya": polya, "reported_events": res["events"]},
                                 detail + " | events %s" % res["events"])
    return n


# ---- audit G4-G6: annotations outside the old generator domain (short exons 3..109 bp, short introns 1..99 bp)

def oracle_annotation_wide(rng):
    """1-2 genes whose base chain has exons of 3..19 (12 %), 20..109 (38 %), 110..500 bp and introns of 1..12 (12 %),
    13..99 (18 %), 100..2500 bp, plus the isoform variants of the correspondence generator (skipped exons, alt sites at
    0..13 / 20..150 bp, retained introns, truncated / extended ends, mono-exon, novel exons)"""
    def chain(pos, n):
        ex = []
        for _ in range(n):
            r = rng.random()
            ln = rng.randint(3, 19) if r < 0.12 else rng.randint(20, 109) if r < 0.5 else rng.randint(110, 500)
            ex.append((pos, pos + ln - 1))
            r = rng.random()
            gap = rng.randint(1, 12) if r < 0.12 else rng.randint(13, 99) if r < 0.3 else rng.randint(100, 2500)
            pos += ln + gap
        return ex
    iso = []
    pos = rng.randint(3000, 4000)
    for gi in range(rng.randint(1, 2)):
        strand = rng.choice("+-")
        base = chain(pos, rng.randint(2, 7))
        seen = set()
        for ex in [base] + A.variants(rng, base, 1.0):
            if tuple(ex) in seen or not A.valid_blocks(ex):
                continue
            seen.add(tuple(ex))
            iso.append({"gene": "g%d" % gi, "strand": strand, "exons": [tuple(e) for e in ex]})
        if rng.random() < 0.4:
            pos = base[0][0] + rng.randint(0, base[-1][1] - base[0][0])
        else:
            pos = base[-1][1] + rng.randint(100, 900)
    rng.shuffle(iso)
    for i, t in enumerate(iso):
        t["id"] = "t%04d" % i
    return iso


def oracle_far_read_wide(rng, t):
    """ONE change far beyond every tolerance that does not touch a short feature (skipped exon >= 200 bp, novel 200-bp exon
    >= 250 bp from both neighbours, retained intron >= 200 bp, site moved by 100..200 bp with >= 60 bp of exon / 100 bp of
    intron left, end extended by 200..600 bp), optionally behind a short (1..40 bp) extra outermost exon (audit G1)"""
    ex = [list(e) for e in t["exons"]]
    n = len(ex)
    kind = rng.choice(["skip", "novel_exon", "retain", "shift5", "shift3", "extend_l", "extend_r", "fake_ext_l", "fake_ext_r"])
    L = lambda e: e[1] - e[0] + 1
    if kind == "skip":
        c = [i for i in range(1, n - 1) if L(ex[i]) >= FAR_LEN]
        if not c:
            return None, kind
        i = rng.choice(c)
        ex = ex[:i] + ex[i + 1:]
    elif kind == "novel_exon":
        c = [i for i in range(n - 1) if ex[i + 1][0] - ex[i][1] - 1 >= 750]
        if not c:
            return None, kind
        i = rng.choice(c)
        a, b = ex[i][1] + 1, ex[i + 1][0] - 1
        s0 = rng.randint(a + 250, b - 450)
        ex = ex[:i + 1] + [[s0, s0 + 199]] + ex[i + 1:]
    elif kind == "retain":
        c = [i for i in range(n - 1) if ex[i + 1][0] - ex[i][1] - 1 >= FAR_LEN]
        if not c:
            return None, kind
        i = rng.choice(c)
        ex = ex[:i] + [[ex[i][0], ex[i + 1][1]]] + ex[i + 2:]
    elif kind in ("shift5", "shift3"):
        if n < 2:
            return None, kind
        d = rng.randint(FAR_SITE, 2 * FAR_SITE)
        if kind == "shift5":
            i = rng.randint(0, n - 2)
            if L(ex[i]) - d >= FAR_EXON and rng.random() < 0.5:
                ex[i][1] -= d
            elif ex[i + 1][0] - ex[i][1] - 1 - d >= 100:
                ex[i][1] += d
            else:
                return None, kind
        else:
            i = rng.randint(1, n - 1)
            if L(ex[i]) - d >= FAR_EXON and rng.random() < 0.5:
                ex[i][0] += d
            elif ex[i][0] - ex[i - 1][1] - 1 - d >= 100:
                ex[i][0] -= d
            else:
                return None, kind
    elif kind == "extend_l":
        ex[0][0] -= rng.randint(FAR_LEN, 3 * FAR_LEN)
    elif kind == "extend_r":
        ex[-1][1] += rng.randint(FAR_LEN, 3 * FAR_LEN)
    elif kind in ("fake_ext_l", "fake_ext_r"):
        ln = rng.randint(1, MAX_FAKE_EXON)
        ext = rng.randint(FAR_LEN, 3 * FAR_LEN)
        gap = rng.randint(80, 900)
        if kind == "fake_ext_l":
            ex[0][0] -= ext
            e_end = ex[0][0] - gap - 1
            ex.insert(0, [e_end - ln + 1, e_end])
        else:
            ex[-1][1] += ext
            e_start = ex[-1][1] + gap + 1
            ex.append([e_start, e_start + ln - 1])
    b = [tuple(e) for e in ex]
    return (b if A.valid_blocks(b) and b[0][0] >= 1 else None), kind


def oracle_inprocess_wide(ctx, n_worlds, reads_per_iso):
    """audit G4-G6: the property on annotations OUTSIDE the old oracle domain.  Converse clause: every world (short exons and
    micro-introns anywhere; the far change never touches a short feature; reads that skip a short annotated exon are not
    judged - tolerance (c) per read).  Forward clause: worlds without micro-features (exons >= 20 bp, introns >= 30 bp)."""
    rng = ctx.rng
    n = 0
    for _ in range(n_worlds):
        isoforms = oracle_annotation_wide(rng)
        micro = min(e[1] - e[0] + 1 for t in isoforms for e in t["exons"]) < WIDE_MIN_EXON or \
            any(t["exons"][i + 1][0] - t["exons"][i][1] - 1 < WIDE_MIN_INTRON for t in isoforms for i in range(len(t["exons"]) - 1))
        ctx.count("oracle_wide:world_" + ("micro" if micro else "no_micro"))
        for strategy in A.PRESETS:
            params = make_params(strategy)
            built = Built(isoforms, params)
            for t in isoforms:
                for _ in range(reads_per_iso):
                    if rng.random() < 0.5:
                        blocks, kind = oracle_far_read_wide(rng, t)
                    elif not micro:
                        blocks, kind = A.follow_read(rng, t["exons"], params.delta), "follow"
                    else:
                        continue
                    if blocks is None:
                        continue
                    polya = [-1, -1, -1, -1]
                    try:
                        res = inprocess_result(built, blocks, polya)
                    except ERRS as ex:
                        ctx.fail("assigner_raises", {"mode": "inprocess", "isoforms": strip(isoforms), "strategy": strategy,
                                                     "blocks": blocks, "polya": polya}, type(ex).__name__)
                        continue
                    n += 1
                    ctx.count("oracle_wide:" + kind)
                    for k, detail in check_assignment(isoforms, params.delta, blocks, None, res, judge_follow=not micro):
                        ctx.fail(k, {"mode": "inprocess", "isoforms": strip(isoforms), "strategy": strategy, "wide": True,
                                     "micro": micro, "blocks": [list(b) for b in blocks], "polya": polya,
                                     "reported_events": res["events"]}, detail + " | events %s" % res["events"])
    return n


# ---- audit G2: hypothesis `PolyAOutside` of consistent_path_sound / unique_when_only MONITORED on the real PolyAFinder

def polya_outside(read_exons, pa):
    """Props/C01Path.lean `PolyAOutside` on the real objects: the external polyA position is not left of the start of a
    read intron, the external polyT position not right of the end of one"""
    R = o_introns(read_exons)
    a, t = pa.external_polya_pos, pa.external_polyt_pos
    return (a == -1 or all(r[0] <= a for r in R)) and (t == -1 or all(t <= r[1] for r in R))


def real_polya_info(rec, params):
    """what alignment_processor does per BAM record: AlignmentInfo + PolyAFinder.detect_polya + PolyAFixer (polyA exon
    trimming, shift_polya / shift_polyt) -> (read_exons, PolyAInfo)"""
    _impl()
    from src.alignment_info import AlignmentInfo
    from src.polya_finder import PolyAFinder
    from src.polya_verification import PolyAFixer
    ai = AlignmentInfo(rec)
    ai.add_polya_info(PolyAFinder(params.polya_window, params.polya_fraction), PolyAFixer(params))
    return ai.read_exons, ai.polya_info


def judge_polya_outside(ctx, where, strategy, name, aligned_exons, rec_desc, read_exons, pa):
    """the monitored hypothesis on one record.  Class recorded by the audit (finding candidate
    `polya_outside_short_terminal_exon`): the aligned block next to the tail is 1-2 bases long - find_polya_external
    starts its window 2 read bases before the mapped end and walks back across the intron."""
    ctx.count("polya_outside:%s_checked" % where)
    if pa.external_polya_pos != -1 or pa.external_polyt_pos != -1:
        ctx.count("polya_outside:%s_with_external_position" % where)
    if polya_outside(read_exons, pa):
        return True
    short = (pa.external_polya_pos != -1 and aligned_exons[-1][1] - aligned_exons[-1][0] + 1 <= 2) or \
            (pa.external_polyt_pos != -1 and aligned_exons[0][1] - aligned_exons[0][0] + 1 <= 2)
    ctx.fail("polya_outside_violated", dict(rec_desc, mode="polya_finder", strategy=strategy, read=name,
                                             short_terminal_block=short),
             "hypothesis PolyAOutside fails on the real PolyAFinder: read exons %s, external polyA %d, external polyT %d%s"
             % (read_exons, pa.external_polya_pos, pa.external_polyt_pos,
                " (terminal aligned block of <= 2 bases: class polya_outside_short_terminal_exon)" if short else ""))
    return False


def synth_record(ref, exons, tail_a=0, tail_t=0, last_bases=None, first_bases=None, reverse=False):
    import pysam
    a = pysam.AlignedSegment(pysam.AlignmentHeader.from_dict({"HD": {"VN": "1.6"}, "SQ": [{"SN": "chr1", "LN": len(ref)}]}))
    a.query_name = "r"
    a.flag = 16 if reverse else 0
    a.reference_id = 0
    a.reference_start = exons[0][0] - 1
    a.mapping_quality = 60
    cig, seq = [], ""
    if tail_t:
        cig.append((4, tail_t))
    for i, (x, y) in enumerate(exons):
        if i:
            cig.append((3, x - exons[i - 1][1] - 1))
        cig.append((0, y - x + 1))
        seq += ref[x - 1:y]
    if last_bases:
        seq = seq[:-len(last_bases)] + last_bases
    if first_bases:
        seq = first_bases + seq[len(first_bases):]
    seq = "T" * tail_t + seq
    if tail_a:
        cig.append((4, tail_a))
        seq += "A" * tail_a
    a.cigartuples = cig
    a.query_sequence = seq
    return a


POLYA_OUTSIDE_WITNESS = {"exons": [[1000, 1100], [1601, 1601]], "tail_a": 30, "last_bases": "AA"}


def oracle_polya_finder(ctx, n):
    """search for a violation of `PolyAOutside` on the real finder: spliced records whose terminal aligned block is 1..60
    bases long, with a soft-clipped polyA / polyT tail and A / T at the last aligned bases.  Inside the domain "terminal
    aligned block >= 3 bases" a violation is reported as a failure; the audit's witness (1-base block) is replayed every
    run and recorded as the class `polya_outside_short_terminal_exon` (known-finding candidate, not yet listed: a note)."""
    rng = ctx.rng
    ref = quiet_genome(rng, 12000)
    params = make_params("default")
    listed = any(e.get("property") == ID and e.get("id") == "polya_outside_short_terminal_exon"
                 for e in vlib.load_known_findings().get("findings", []))
    # the witness of the audit
    w = POLYA_OUTSIDE_WITNESS
    ex = [tuple(e) for e in w["exons"]]
    try:
        read_exons, pa = real_polya_info(synth_record(ref, ex, tail_a=w["tail_a"], last_bases=w["last_bases"]), params)
        if polya_outside(read_exons, pa):
            ctx.notes.append("audit G2 witness: PolyAOutside now HOLDS for the 1-base terminal exon + soft-clipped tail "
                             "(read exons %s, external polyA %d)" % (read_exons, pa.external_polya_pos))
            ctx.count("polya_outside:witness_holds")
        else:
            ctx.count("polya_outside:witness_violates(class polya_outside_short_terminal_exon)")
            if listed:
                judge_polya_outside(ctx, "finder", "default", "witness", ex, dict(w), read_exons, pa)
            else:
                ctx.notes.append("audit G2: hypothesis PolyAOutside fails on the real PolyAFinder for a terminal aligned block "
                                 "of 1-2 bases followed by a soft-clipped tail (witness: read exons %s, external polyA %d left "
                                 "of intron start %d); class polya_outside_short_terminal_exon - proposed known finding"
                                 % (read_exons, pa.external_polya_pos, o_introns(read_exons)[0][0]))
    except ERRS as e:
        ctx.notes.append("audit G2 witness could not be replayed: %s" % type(e).__name__)
    for _ in range(n):
        k = rng.randint(2, 4)
        pos = rng.randint(500, 1500)
        exons = []
        for j in range(k):
            ln = rng.randint(60, 300)
            exons.append([pos, pos + ln - 1])
            pos += ln + rng.randint(60, 900)
        side = rng.choice("AT")
        tl = rng.choice([1, 2, 3, 3, 4, 5, 8, 15, 16, 17, 30, 60])
        if side == "A":
            exons[-1][1] = exons[-1][0] + tl - 1
        else:
            exons[0][0] = exons[0][1] - tl + 1
        ex = [tuple(e) for e in exons]
        nb = rng.choice([0, 1, 2, 2, 3, 8])
        tail = rng.choice([0, 8, 12, 20, 30, 45])
        kw = {"exons": [list(e) for e in ex]}
        if side == "A":
            kw.update(tail_a=tail, last_bases="A" * min(nb, tl) if nb else None)
        else:
            kw.update(tail_t=tail, first_bases="T" * min(nb, tl) if nb else None, reverse=True)
        try:
            rec = synth_record(ref, ex, **{k2: v for k2, v in kw.items() if k2 != "exons"})
            read_exons, pa = real_polya_info(rec, params)
        except ERRS as e:
            ctx.count("polya_outside:finder_raises_" + type(e).__name__)
            continue
        if tl <= 2:
            ctx.count("polya_outside:finder_short_terminal_block")
            if not polya_outside(read_exons, pa):
                ctx.count("polya_outside:finder_short_terminal_block_violations(class polya_outside_short_terminal_exon)")
                if listed:
                    judge_polya_outside(ctx, "finder", "default", "gen", ex, kw, read_exons, pa)
            continue
        judge_polya_outside(ctx, "finder", "default", "gen", ex, kw, read_exons, pa)


def finder_spec_check(ctx, strategy, rec, aligned, pa):
    """the oracle takes a read's tail from the REAL finder; this is an independent, position-only check of what the finder
    reports (documented rule: a tail = 16 consecutive read bases with >= 12 A, looked for around the aligned end - external:
    from 2 bases before it into the soft clip; internal: in the last 64 aligned bases, A-rich up to the end):
      (1) a soft-clipped run of >= 20 A behind the aligned end   => an external polyA position within 2 bases of that end
      (2) no soft clip at that end                               => no external position
      (3) no 16-base window with >= 12 A in the last 66 aligned bases (+ 2 clipped) => no internal position
      (4) an internal position p                                 => the read bases from p to the aligned end are >= 60 % A
                                                                    (the code asks for 75 % of a string that may start one
                                                                    base later and includes 2 clipped bases)
      (5) the last 16 aligned bases all A, no clip, the 48 bases before them A-poor (every 16-window < 8 A, no AA in the
          last 12)                                               => an internal position
    mirrored (T, low-coordinate end).  A miss is the failure `finder_spec_violated`."""
    seq = rec.query_sequence
    cig = rec.cigartuples
    if not seq or not cig:
        return
    for which, b in finder_spec_eval(seq, cig, aligned, pa, ctx):
        ctx.fail("finder_spec_violated", {"mode": "finder_spec", "strategy": strategy, "read": rec.query_name, "cigar": rec.cigarstring,
                                          "pos": rec.reference_start + 1, "side": which, "seq": seq},
                 "polyA finder against its documented rule, poly%s side: %s" % (which, b))


def finder_spec_eval(seq, cig, aligned, pa, ctx=None):
    """-> [(side, what is wrong)]"""
    comp = {"A": "T", "C": "G", "G": "C", "T": "A", "N": "N"}
    out = []

    def side(tail_seq_aligned, clip, ext, int_, end_pos, which, dist_of):
        # tail_seq_aligned: aligned read bases, oriented so that the checked end is LAST and the tail base is 'A'
        bad = []
        if clip and len(clip) >= 20 and set(clip) == {"A"}:
            if ext == -1 or abs(ext - end_pos) > 2:
                bad.append("(1) %d clipped bases but external position %d (aligned end %d)" % (len(clip), ext, end_pos))
        if not clip and ext != -1:
            bad.append("(2) external position %d without a soft clip" % ext)
        win = tail_seq_aligned[-66:] + clip[:2]
        has = any(win[q:q + 16].count("A") >= 12 for q in range(0, max(1, len(win) - 15)))
        if not has and int_ != -1:
            bad.append("(3) internal position %d but no A-rich window" % int_)
        if int_ != -1:
            d = dist_of(int_)
            if 0 <= d <= len(tail_seq_aligned) and d > 0:
                seg = tail_seq_aligned[-d:]
                if seg.count("A") < 0.6 * len(seg):
                    bad.append("(4) internal position %d: %d A in the %d bases up to the aligned end" % (int_, seg.count("A"), len(seg)))
        pre = win[:-16]
        if not clip and len(tail_seq_aligned) >= 16 and set(tail_seq_aligned[-16:]) == {"A"} and int_ == -1 and \
                not any(pre[q:q + 16].count("A") >= 8 for q in range(0, max(1, len(pre) - 15))) and "AA" not in pre[-12:]:
            # (the finder judges the FIRST A-rich window of the last 64 bases: an earlier A-rich stretch, or an AA shortly
            # before the run, can make it reject a genuine A-run at the end - such reads are not demanded)
            bad.append("(5) 16 aligned A at the end behind A-poor sequence, no internal position")
        out.extend((which, b) for b in bad)
        if ctx is not None:
            ctx.count("finder_spec:%s_checked" % which)
            if int_ != -1:
                ctx.count("finder_spec:%s_internal_reported" % which)
            if ext != -1:
                ctx.count("finder_spec:%s_external_reported" % which)

    lclip = cig[0][1] if cig[0][0] == 4 else 0
    rclip = cig[-1][1] if cig[-1][0] == 4 else 0
    body = seq[lclip:len(seq) - rclip]
    # indels make "bases from p to the end" approximate: rule (4) only when the last block carries no indel near the end
    end1 = aligned[-1][1]
    start1 = aligned[0][0]
    side(body, seq[len(seq) - rclip:] if rclip else "", pa.external_polya_pos, pa.internal_polya_pos, end1, "A",
         lambda p: end1 - p + 1 if aligned[-1][0] <= p else -1)
    rc = lambda x: "".join(comp.get(c, "N") for c in reversed(x))
    side(rc(body), rc(seq[:lclip]) if lclip else "", pa.external_polyt_pos, pa.internal_polyt_pos, start1 - 1, "T",
         lambda p: p - start1 + 1 if p <= aligned[0][1] else -1)
    return out


def monitor_polya_outside_bam(ctx, bam_path, strategy):
    """the hypothesis on every record of the BAM a pipeline run reads (same per-record code as the pipeline).
    -> {read name: (read exons after polyA-exon trimming, [external polyA, external polyT, internal polyA, internal polyT])}:
    what the REAL finder reports for each record - the oracle's tail positions (audit-2 C01-a)"""
    import pysam
    params = make_params(strategy)
    found = {}
    with pysam.AlignmentFile(bam_path, "rb") as f:
        for rec in f:
            if rec.is_unmapped or rec.is_secondary or rec.is_supplementary:
                continue
            aligned = [(a + 1, b) for a, b in rec.get_blocks()]
            try:
                read_exons, pa = real_polya_info(rec, params)
            except ERRS as e:
                ctx.count("polya_outside:pipeline_raises_" + type(e).__name__)
                continue
            found[rec.query_name] = ([tuple(e) for e in read_exons],
                                     [pa.external_polya_pos, pa.external_polyt_pos, pa.internal_polya_pos, pa.internal_polyt_pos])
            if [tuple(e) for e in read_exons] == aligned:      # positions are re-mapped when the fixer trims polyA exons
                finder_spec_check(ctx, strategy, rec, aligned, pa)
            judge_polya_outside(ctx, "pipeline", strategy, rec.query_name, aligned,
                                {"cigar": rec.cigarstring, "pos": rec.reference_start + 1}, read_exons, pa)
    return found


def narrow_gene_lines(rng, gtf_path):
    """audit G7: the pipeline takes the gene region from the GTF `gene` line, the model from the span of the transcripts'
    exons.  Rewrites about half of the gene lines to a region NARROWER than the gene's transcripts (a malformed annotation:
    start moved right / end moved left by up to 60 % of the span).  -> {gene id: rewritten (start, end)}"""
    lines = open(gtf_path).read().splitlines()
    n = {}
    for i, ln in enumerate(lines):
        f = ln.split("\t")
        if len(f) > 8 and f[2] == "gene" and rng.random() < 0.5:
            a, b = int(f[3]), int(f[4])
            span = b - a
            if rng.random() < 0.5:
                a += rng.randint(span // 10, max(span // 10, (6 * span) // 10))
            else:
                b -= rng.randint(span // 10, max(span // 10, (6 * span) // 10))
            f[3], f[4] = str(a), str(b)
            lines[i] = "\t".join(f)
            n[re.search(r'gene_id "([^"]+)"', f[8]).group(1)] = (a, b)
    with open(gtf_path, "w") as fh:
        fh.write("\n".join(lines) + "\n")
    return n


# ---- the same property through the real pipeline (synthetic genome + GTF + BAM -> read_assignments.tsv)

def quiet_genome(rng, length):
    """random sequence without A-/T-rich windows (no dinucleotide AA / TT at even offsets): the polyA finder never
    sees a tail inside aligned sequence, so tails are exactly the soft clips the generator adds"""
    pairs = [a + b for a in "ACGT" for b in "ACGT" if a + b not in ("AA", "TT")]
    return "".join(rng.choice(pairs) for _ in range(length // 2 + 1))[:length]


def cigar_for(rng, blocks, indels):
    """CIGAR following the blocks; optional small insertions / deletions strictly inside exons (invisible at exon level)"""
    parts = []
    for i, (a, b) in enumerate(blocks):
        if i > 0:
            parts.append("%dN" % (a - blocks[i - 1][1] - 1))
        ln = b - a + 1
        if indels and ln >= 80 and rng.random() < 0.5:
            left = rng.randint(25, ln - 40)
            if rng.random() < 0.5:
                k = rng.randint(1, 4)
                parts.append("%dM%dI%dM" % (left, k, ln - left))
            else:
                k = rng.randint(1, 4)
                parts.append("%dM%dD%dM" % (left, k, ln - left - k))
        else:
            parts.append("%dM" % ln)
    return "".join(parts)


def plant_stretches(rng, seq, isoforms):
    """audit-2 C01-a: A-/T-rich genomic stretches INSIDE exons (internal priming sites) and across annotated transcript
    ends.  `seq` = list of bases (0-based), edited in place.  -> [(base, a, b)] 1-based closed, base in "AT"."""
    out = []
    exons = sorted({e for t in isoforms for e in t["exons"]})
    for (a, b) in exons:
        ln = b - a + 1
        if ln >= 150 and rng.random() < 0.6:
            run = rng.randint(13, 30)
            s0 = rng.randint(a + 45, b - 25 - run) if b - 25 - run >= a + 45 else None
            if s0 is not None:
                base = rng.choice("AT")
                body = [base] * run
                for _ in range(rng.choice([0, 0, 1, 2])):          # an A-RICH stretch need not be pure
                    body[rng.randint(1, run - 2)] = rng.choice("CG")
                seq[s0 - 1:s0 - 1 + run] = body
                out.append((base, s0, s0 + run - 1))
    for t in isoforms:
        if rng.random() < 0.15:
            # the annotated 3' end itself lies in an A-rich (T-rich) stretch reaching into the exon
            ins = rng.randint(0, 12)
            if t["strand"] == "+":
                e = t["exons"][-1][1]
                if e + 20 <= len(seq) and t["exons"][-1][1] - t["exons"][-1][0] > 60:
                    seq[e - ins:e + 18] = ["A"] * (18 + ins)
                    out.append(("A", e - ins + 1, e + 18))
            else:
                e = t["exons"][0][0]
                if e - 20 >= 1 and t["exons"][0][1] - t["exons"][0][0] > 60:
                    seq[e - 19:e - 1 + ins] = ["T"] * (18 + ins)
                    out.append(("T", e - 18, e - 1 + ins))
    return out


def prime_read(rng, t, stretches, delta):
    """a read following t (exact or <= delta jittered splice sites) that is truncated so that its aligned end lies in / just
    behind an A-rich stretch (high-coordinate end) or in / just before a T-rich stretch (low-coordinate end); the stretch may
    be on t's 3' side (internal priming) or on its 5' side.  -> (blocks, soft-clip base or None)"""
    ex = t["exons"]
    cand = [(base, a, b, j) for (base, a, b) in stretches for j, e in enumerate(ex) if e[0] + 30 <= a and b <= e[1]]
    if not cand:
        return None, None
    base, a, b, j = rng.choice(cand)
    n = len(ex)
    if base == "A":
        i = rng.randint(0, j)
        end = min(ex[j][1], b + rng.choice([-7, -4, -2, 0, 0, 0, 1, 3, 5]))
        sub = [list(e) for e in ex[i:j + 1]]
        sub[-1][1] = end
        l0 = ex[i][1] - ex[i][0] + 1
        if i < j:
            sub[0][0] = ex[i][0] + (rng.randint(0, min(40, l0 // 8)) if i == 0 else rng.randint(0, max(0, l0 - 40)))
        else:
            sub[0][0] = ex[i][0] + rng.randint(0, max(0, a - ex[i][0] - 30))
    else:
        i = j
        j = rng.randint(i, n - 1)
        start = max(ex[i][0], a - rng.choice([-7, -4, -2, 0, 0, 0, 1, 3, 5]))
        sub = [list(e) for e in ex[i:j + 1]]
        sub[0][0] = start
        l1 = ex[j][1] - ex[j][0] + 1
        if i < j:
            sub[-1][1] = ex[j][1] - (rng.randint(0, min(40, l1 // 8)) if j == n - 1 else rng.randint(0, max(0, l1 - 40)))
        else:
            sub[-1][1] = ex[j][1] - rng.randint(0, max(0, ex[j][1] - b - 30))
    for k in range(len(sub) - 1):
        sub[k][1] += rng.randint(-delta, delta)
        sub[k + 1][0] += rng.randint(-delta, delta)
    blocks = [tuple(e) for e in sub]
    if not A.valid_blocks(blocks):
        return None, None
    return blocks, (base if rng.random() < 0.3 else None)


def random_genome(rng, length):
    return "".join(rng.choice("ACGT") for _ in range(length))


def build_pipeline_dataset(rng, n_chroms, clusters_per_chrom, reads_per_iso, delta, genome="stretches", borders=True):
    """-> (Dataset, clusters, truth) with truth[read_name] = dict(chr, cluster, blocks, kind, tid).
    genome: "stretches" = quiet background (no AA / TT at even offsets) + planted A-/T-rich stretches inside exons and across
    transcript ends (audit-2 C01-a); "random" = uniform random bases (A-rich windows occur by chance); "quiet" = the old
    genome.  The tail a read carries is NOT taken from here: the oracle asks the real polyA finder (oracle_pipeline).
    borders: on the first chromosome the first cluster starts at base 1 and the last cluster ends at the last base."""
    from gen import synth
    ds = synth.Dataset(rng.randint(1, 10 ** 9))
    truth = {}
    clusters = {}
    rid = 0
    for c in range(n_chroms):
        chrom = "chr%d" % (c + 1)
        placed = []
        offset = 2000
        at_border = borders and c == 0
        for ci in range(clusters_per_chrom):
            iso = oracle_annotation(rng)
            lo = min(t["exons"][0][0] for t in iso)
            hi = max(t["exons"][-1][1] for t in iso)
            shift = (1 - lo) if (at_border and ci == 0) else offset - lo + 1000
            for t in iso:
                t["exons"] = [(a + shift, b + shift) for a, b in t["exons"]]
                t["id"] = "%s_c%d_%s" % (chrom, ci, t["id"])
                t["gene"] = "%s_c%d_%s" % (chrom, ci, t["gene"])
            offset = hi + shift + 6000       # clusters far apart: separate GeneInfo objects / read regions
            placed.append(iso)
        length = (offset - 6000) if at_border else offset + 5000
        seq = list(random_genome(rng, length) if genome == "random" else quiet_genome(rng, length))
        stretches = {}
        for ci, iso in enumerate(placed):
            stretches[ci] = plant_stretches(rng, seq, iso) if genome == "stretches" else []
        ds.chroms[chrom] = "".join(seq)
        for ci, iso in enumerate(placed):
            clusters[(chrom, ci)] = iso
            genes = {}
            for t in iso:
                genes.setdefault((t["gene"], t["strand"]), []).append((t["id"], t["exons"]))
            for (gid, strand), txs in genes.items():
                ds.add_gene(chrom, gid, strand, txs, plant=True)
            for t in iso:
                for _ in range(reads_per_iso):
                    clip = None
                    r0 = rng.random()
                    if r0 < 0.2 and stretches[ci]:
                        blocks, clip = prime_read(rng, t, stretches[ci], delta)
                        kind = "prime"
                        at5 = at3 = False
                    elif r0 < 0.75:
                        blocks, at5, at3 = oracle_follow_read(rng, t, delta)
                        kind = "follow"
                    else:
                        blocks, kind = oracle_far_read(rng, t)
                        at5 = at3 = False
                    if blocks is None:
                        continue
                    pa = pt = 0
                    if clip == "A":
                        pa = rng.randint(15, 30)
                    elif clip == "T":
                        pt = rng.randint(15, 30)
                    if kind == "apa":
                        if t["strand"] == "+":
                            pa = rng.randint(20, 35)
                        else:
                            pt = rng.randint(20, 35)
                    if kind == "follow" and rng.random() < 0.4:
                        if t["strand"] == "+" and at3:
                            blocks = blocks[:-1] + [(blocks[-1][0], t["exons"][-1][1])]
                            pa = rng.randint(20, 35)
                        elif t["strand"] == "-" and at5:
                            blocks = [(t["exons"][0][0], blocks[0][1])] + blocks[1:]
                            pt = rng.randint(20, 35)
                    if not A.valid_blocks(blocks) or blocks[0][0] < 1 or blocks[-1][1] > length:
                        continue
                    name = "r%06d" % rid
                    rid += 1
                    cig = ("%dS" % pt if pt else "") + cigar_for(rng, blocks, indels=(kind == "follow")) + ("%dS" % pa if pa else "")
                    ds.add_read(name, chrom, blocks[0][0] - 1, cig, flag=(16 if t["strand"] == "-" else 0), mapq=60)
                    r = ds.reads[-1]
                    seq_r = ds._seq_for(r)
                    if pt:
                        seq_r = "T" * pt + seq_r[pt:]
                    if pa:
                        seq_r = seq_r[:len(seq_r) - pa] + "A" * pa
                    r["seq"] = seq_r
                    truth[name] = {"chr": chrom, "cluster": ci, "blocks": [list(b) for b in blocks], "kind": kind,
                                   "tid": t["id"], "polya": bool(pa or pt),
                                   "at_border": bool(at_border and (blocks[0][0] == 1 or blocks[-1][1] == length))}
    return ds, clusters, truth


def oracle_pipeline(ctx, strategies, n_chroms, clusters_per_chrom, reads_per_iso, narrow_genes=False, genome="stretches"):
    """strategies: preset names, or (preset, delta) for a user `--delta` (audit-2: 20, 50 - beyond every preset)"""
    import pipeline as P
    rng = ctx.rng
    n = 0
    for strategy in strategies:
        user_delta = None
        if isinstance(strategy, (tuple, list)):
            strategy, user_delta = strategy
        run_params = make_params(strategy, delta=user_delta)
        delta = run_params.delta
        d = P.scratch("isoverif_c01_")
        try:
            ds, clusters, truth = build_pipeline_dataset(rng, n_chroms, clusters_per_chrom, reads_per_iso, min(delta, 12)
                                                         if user_delta is None else delta, genome=genome)
            paths = ds.write(os.path.join(d, "in"))
            narrowed = {}
            if narrow_genes:
                narrowed = narrow_gene_lines(rng, paths["gtf"])
                ctx.count("pipeline:gene_lines_narrowed", len(narrowed))
            found = {}
            try:
                found = monitor_polya_outside_bam(ctx, paths["bam"], strategy)
            except ERRS as e:
                ctx.notes.append("PolyAOutside monitor could not read the BAM: %s" % type(e).__name__)
            out = os.path.join(d, "out")
            # interface hypotheses of C11 / C14 / C15 / C19 theorems watched on the real assigner (hypothesis audit G4, G3, G7,
            # C19-G1): harness/mon_wrap.py evaluates them on every instrumented call of this run; the real code's own
            # warning "Odd case for exon elongation" (= not HasCommon) is counted in the log as well
            import mon_wrap
            mon = os.path.join(d, "mon.jsonl")
            rc, log = P.run_isoquant(out, P.std_args(paths, prefix="S", threads=2,
                                                     extra=["--matching_strategy", strategy, "--no_model_construction"] +
                                                     (["--delta", str(user_delta)] if user_delta is not None else [])),
                                     wrapper=os.path.join(vlib.HERE, "mon_wrap.py"),
                                     env={"MON_FILE": mon, "MON_SET": "elong,binsearch,c14events,penalty"})
            calls, viol = mon_wrap.read_monitor(mon)
            for mname, cnt in calls.items():
                ctx.count("pipeline_hypothesis_monitor:%s:calls" % mname, cnt)
            seen_kinds = set()
            for r_ in viol:
                if r_.get("kind") not in seen_kinds:
                    seen_kinds.add(r_.get("kind"))
                    ctx.fail("hyp_" + str(r_.get("kind")), {"mode": "pipeline", "strategy": strategy, "monitor": r_.get("mon")},
                             "interface hypothesis violated on the real pipeline: %s" % {k: v for k, v in r_.items() if k != "mon"})
            if "Odd case for exon elongation" in log and "no_common_split_exon" not in seen_kinds:
                ctx.fail("hyp_no_common_split_exon", {"mode": "pipeline", "strategy": strategy, "monitor": "log"},
                         "the real assigner logged 'Odd case for exon elongation' %d time(s)" % log.count("Odd case for exon elongation"))
            files = P.out_files(out, "S")
            ra = files.get("S.read_assignments.tsv")
            if rc != 0 or not ra:
                ctx.fail("pipeline_failed", {"mode": "pipeline", "strategy": strategy}, "rc=%s %s" % (rc, log[-800:]))
                continue
            rows = {}
            for r in P.read_assignments(ra):
                rows.setdefault(r["read_id"], []).append(r)
            for name, tr in truth.items():
                rr = rows.get(name)
                if not rr:
                    ctx.fail("read_missing", {"mode": "pipeline", "strategy": strategy, "read": tr}, "read %s has no line" % name)
                    continue
                types = {r["assignment_type"] for r in rr}
                if len(types) != 1:
                    ctx.fail("mixed_types", {"mode": "pipeline", "strategy": strategy, "read": tr}, str(sorted(types)))
                    continue
                iso = clusters[(tr["chr"], tr["cluster"])]
                if narrowed:
                    # a read lying entirely outside the rewritten gene line of its own gene: the (malformed) annotation says
                    # the gene is not there - such a read alone in its cluster is intergenic; not judged
                    g = next((t["gene"] for t in iso if t["id"] == tr["tid"]), None)
                    if g in narrowed and (tr["blocks"][-1][1] < narrowed[g][0] or narrowed[g][1] < tr["blocks"][0][0]):
                        ctx.count("pipeline:read_outside_narrowed_gene_line(not judged)")
                        continue
                res = {"type": types.pop(), "isoforms": sorted(r["isoform_id"] for r in rr if r["isoform_id"] not in (".", "*", "")),
                       "events": {r["isoform_id"]: r.get("assignment_events", "") for r in rr}}
                n += 1
                ctx.count("pipeline:" + tr["kind"])
                ctx.count("pipeline_type:%s:%s" % (tr["kind"], res["type"]))
                if tr.get("at_border"):
                    ctx.count("pipeline:read_touching_contig_border")
                blocks = [tuple(b) for b in tr["blocks"]]
                # the tail the read carries = what the REAL finder reports for its record (never the generator's intention)
                if name not in found:
                    ctx.fail("read_missing", {"mode": "pipeline", "strategy": strategy, "read": tr}, "no finder result for %s" % name)
                    continue
                fexons, polya = found[name]
                if fexons != blocks:
                    ctx.count("pipeline:polya_exons_trimmed_by_fixer" if len(fexons) < len(blocks) else "pipeline:read_exons_differ")
                    blocks = fexons          # the assigner is given the read without its polyA exons (PolyAFixer; C16)
                tails = tail_of(blocks, polya)
                if tails:
                    ctx.count("pipeline_tail:%s:%s" % (tr["kind"], "+".join(k for k, v in zip(("extA", "extT", "intA", "intT"), polya) if v != -1)))
                for k, detail in check_assignment(iso, delta, blocks, tails, res, params=run_params):
                    ctx.fail(k, {"mode": "pipeline", "isoforms": strip(iso), "strategy": strategy, "blocks": [list(b) for b in blocks],
                                 "polya": polya, "delta": user_delta, "derived_from": tr["tid"], "read_kind": tr["kind"],
                                 "reported_events": res["events"], "gene_lines_narrowed": narrow_genes},
                             detail + " | events %s" % res["events"])
        finally:
            shutil.rmtree(d, ignore_errors=True)
    return n


def oracle_comparator(ctx, n):
    """clauses (2) and (3) of Props/C01Compare / C01Converse evaluated on the REAL comparator, inside the domain of the
    theorems (py_chains_wf): (2) detect_contradiction_type is consulted iff some read intron overlapping the isoform span /
    isoform intron overlapping the read span has no partner within delta; (3) a read intron with no isoform intron within
    delta and outside every tolerance class gets a major event.  A broken instance is turned into a single-isoform
    annotation and judged by the property oracle `check_assignment` (the assignment type of the real assigner)."""
    rng = ctx.rng
    isoquant, GI, LP, LA, IA, PF = _impl()
    major = {e.name for e in IA.nic_event_types} | {e.name for e in IA.nnic_event_types}
    presets = [(s, make_params(s)) for s in A.PRESETS]
    by_obj = {id(p): s for s, p in presets}
    n_inst = 0
    for params, c in CMP.wf_cases(rng, n, [p for _, p in presets]):
        io, tr = CMP.impl_compare(c, params)
        if vlib.is_err(io):
            ctx.fail("comparator_raises", {"mode": "comparator", "case": c, "strategy": by_obj.get(id(params), "default")},
                     str(io))
            continue
        tol = CMP.py_tolerance(c)
        broken = []
        if c["iso_junctions"] and (("pairs" not in tr) != CMP.py_no_contradiction_rhs(c)):
            broken.append("no_contradiction_iff")
        for i, row in enumerate(tol["introns"]):
            if row["far"] and not row["tolerated"]:
                n_inst += 1
                if not any(e[0] in major for e in io):
                    broken.append("far_intron_major_event[%d]" % i)
        ctx.count("oracle:comparator_cases")
        if not broken:
            continue
        ctx.count("oracle:comparator_clause_broken")
        # property level: the read against the annotation that consists of this isoform only
        strategy = by_obj.get(id(params), "default")
        exons = CMP.blocks_of(c["iso_region"], [tuple(x) for x in c["iso_junctions"]])
        blocks = CMP.blocks_of(c["read_region"], [tuple(x) for x in c["read_junctions"]])
        if not (A.valid_blocks(exons) and A.valid_blocks(blocks)):
            continue
        isoforms = [{"id": "t0000", "gene": "g0", "strand": "+", "exons": exons}]
        try:
            fails, res = oracle_inprocess_case(isoforms, strategy, blocks, [-1, -1, -1, -1])
        except ERRS:
            continue
        for k, detail in fails:
            ctx.fail(k, {"mode": "inprocess", "isoforms": strip(isoforms), "strategy": strategy,
                         "blocks": [list(b) for b in blocks], "polya": [-1, -1, -1, -1], "reported_events": res["events"],
                         "comparator_clauses": broken}, detail + " | comparator clauses broken: %s" % broken)
    ctx.extra["oracle_theorem3_instances"] = n_inst


def in_domain(isoforms, blocks, polya, delta):
    """the input domain on which the oracle may judge an arbitrary (correspondence-generated) input: the property's
    tolerances are stated for real exons / introns; micro-features (shorter than the fake-terminal-exon, absence-overlap
    or delta thresholds) and polyA positions away from the 3' end are outside it (docs/C01.md, reading rules)"""
    if delta > 50:
        return False          # FAR_SITE (100) has to stay far beyond delta; user deltas 20 / 50 are inside (audit-2)
    if min(b[1] - b[0] + 1 for b in blocks) < FAR_EXON:
        return False
    for a, b in o_introns(blocks):
        if b - a + 1 < WIDE_MIN_INTRON:
            return False
    for t in isoforms:
        ex = t["exons"]
        # audit G4-G6: the domain is what the theorems assume - no micro-features (exons >= 20 bp, introns >= 30 bp);
        # short annotated exons are handled per read (skips_short_annotated_exon in check_assignment)
        if min(e[1] - e[0] + 1 for e in ex) < WIDE_MIN_EXON:
            return False
        if any(ex[i + 1][0] - ex[i][1] - 1 < WIDE_MIN_INTRON for i in range(len(ex) - 1)):
            return False
    return True


def strip(isoforms):
    return [{"id": t["id"], "gene": t["gene"], "strand": t["strand"], "exons": [list(e) for e in t["exons"]]} for t in isoforms]


def oracle(ctx, disagreements, broken):
    # 1. the disagreeing inputs of the correspondence first (property evaluated on the real code only)
    for d in disagreements:
        if d["op"] != "assign":
            continue
        kw = d["input"]
        isoforms = [{"id": "t%04d" % i, "gene": "g", "strand": t["strand"], "exons": [tuple(e) for e in t["exons"]]}
                    for i, t in enumerate(kw["isoforms"])]
        if not in_domain(isoforms, kw["blocks"], kw["polya"], kw["params"]["delta"]):
            ctx.count("oracle:seed_outside_domain")
            continue
        ctx.count("oracle:seed_in_domain")
        for strategy in A.PRESETS:
            try:
                fails, res = oracle_inprocess_case(isoforms, strategy, kw["blocks"], kw["polya"], delta_override=kw["params"]["delta"])
            except ERRS:
                continue
            for k, detail in fails:
                ctx.fail(k, {"mode": "inprocess", "isoforms": strip(isoforms), "strategy": strategy,
                             "delta": kw["params"]["delta"], "blocks": kw["blocks"], "polya": kw["polya"]}, detail)
    replay_known_findings(ctx)
    quick = ctx.tier == "quick"
    MONITOR.clear()
    replay_reading_rule_witnesses(ctx)
    n = oracle_inprocess(ctx, 150 if quick else 3000, 3 if quick else 5)
    # audit-2: user --delta 20 / 50 (the correspondence seeds with delta > 12 are no longer dropped either: in_domain)
    for ud in (20, 50):
        n += oracle_inprocess(ctx, 15 if quick else 300, 3 if quick else 5, user_delta=ud)
    ctx.extra["oracle_inprocess_reads"] = n
    # audit G4-G6: annotations with short exons / introns (outside the old generator domain)
    n = oracle_inprocess_wide(ctx, 120 if quick else 2500, 3 if quick else 4)
    ctx.extra["oracle_inprocess_wide_reads"] = n
    oracle_comparator(ctx, 1500 if quick else 30000)
    # audit G2: the hypothesis PolyAOutside on the real PolyAFinder (search + the audit's witness)
    oracle_polya_finder(ctx, 400 if quick else 8000)
    # 3. the same check on read_assignments.tsv of real pipeline runs, one per matching strategy
    #    (genome with planted A-/T-rich stretches in exons; first chromosome: clusters at base 1 and at the last base)
    n = oracle_pipeline(ctx, A.PRESETS, 2 if quick else 4, 6 if quick else 14, 5 if quick else 12)
    # audit G7: one more run on a GTF whose gene lines are narrower than their transcripts (malformed annotation); uniform
    # random genome (no "quiet" assumption at all)
    n += oracle_pipeline(ctx, ["default"], 1 if quick else 2, 5 if quick else 12, 4 if quick else 10, narrow_genes=True,
                         genome="random")
    # audit-2: user --delta beyond every preset
    n += oracle_pipeline(ctx, [("default", 20), ("precise", 50)] if quick else [("default", 20), ("default", 50), ("precise", 50),
                                                                               ("loose", 20)],
                         1 if quick else 2, 5 if quick else 12, 4 if quick else 10)
    ctx.extra["oracle_pipeline_reads"] = n
    for k, v in MONITOR.items():
        ctx.count(k, v)


def matches_finding(failure, entry):
    """known finding `terminal_exon_misalignment_far`: a far read made consistent ONLY by the comparator's
    terminal_exon_misalignment_* artifact event (every reported isoform carries one)"""
    if failure["kind"] != entry.get("kind"):
        return False
    if entry.get("id") == "polya_outside_short_terminal_exon":
        # proposed entry (audit G2): PolyAOutside fails only behind a terminal aligned block of 1-2 bases
        return bool(failure["input"].get("short_terminal_block"))
    if entry.get("id") == "terminal_exon_misalignment_far":
        ev = failure["input"].get("reported_events") or {}
        if not ev:
            return False
        return all("terminal_exon_misalignment_" in (",".join(v) if isinstance(v, list) else str(v)) for v in ev.values())
    return True


FULL_LENGTH_RULE_WITNESS = {
    # audit G3: T = t0000 is followed full-length (both introns... the single intron, ends within 40 bp) but t0001 fits the
    # read much better (Jaccard 58/61 against 61/101): resolve_by_nucleotide_score drops T.  Covered by the reading rule
    # "full-length => T reported unless another candidate's Jaccard score exceeds 3/2 of T's"
    "isoforms": [{"id": "t0000", "gene": "g0", "strand": "+", "exons": [(1000, 1100), (2000, 2100)]},
                 {"id": "t0001", "gene": "g0", "strand": "+", "exons": [(1043, 1100), (2000, 2057)]}],
    "blocks": [(1040, 1100), (2000, 2060)]}


def replay_reading_rule_witnesses(ctx):
    """the input on which the literal clause "T is among them whenever the read is full-length" fails by design: it must be
    classified by the MONITORED score hypothesis (counter), never silently skipped and never flagged"""
    w = FULL_LENGTH_RULE_WITNESS
    for strategy in A.PRESETS:
        before = MONITOR.get("oracle:full_length_dropped_by_score(reading rule)", 0)
        try:
            fails, res = oracle_inprocess_case(w["isoforms"], strategy, w["blocks"], [-1, -1, -1, -1])
        except ERRS:
            continue
        dropped = MONITOR.get("oracle:full_length_dropped_by_score(reading rule)", 0) > before
        ctx.count("oracle:full_length_rule_witness:%s:%s" % (strategy, "T_dropped_by_score" if dropped else
                                                            ("T_reported" if "t0000" in res["isoforms"] else "other")))
        for k, detail in fails:
            ctx.fail(k, {"mode": "inprocess", "isoforms": strip(w["isoforms"]), "strategy": strategy,
                         "blocks": [list(b) for b in w["blocks"]], "polya": [-1, -1, -1, -1],
                         "reported_events": res["events"]}, detail)


def replay_known_findings(ctx):
    """the listed witnesses are re-run on the real code on every run"""
    for e in vlib.load_known_findings().get("findings", []):
        if e.get("property") != ID or "witness" not in e or "isoforms" not in e["witness"]:
            continue            # witnesses of another shape (polya_outside_*) are replayed by the PolyAOutside monitors
        w = e["witness"]
        isoforms = [{"id": t["id"], "gene": t["gene"], "strand": t["strand"], "exons": [tuple(x) for x in t["exons"]]}
                    for t in w["isoforms"]]
        try:
            fails, res = oracle_inprocess_case(isoforms, w["strategy"], w["blocks"], w["polya"])
            if "cj" in w:
                # the Lean witness (`far_consistent_witness`) feeds exactly these comparator events to the model
                built = Built(isoforms, make_params(w["strategy"]))
                cj = built.compare_all(built.profiles([tuple(b) for b in w["blocks"]], w["polya"]))
                if cj != w["cj"]:
                    ctx.notes.append("known finding %s: the real comparator now answers %s for the witness (Lean witness uses %s)"
                                     % (e["id"], cj, w["cj"]))
        except ERRS:
            continue
        for k, detail in fails:
            ctx.fail(k, dict(w, reported_events=res["events"]), detail + " | events %s" % res["events"])


def replay(ctx, failure):
    """re-run one failing input on the real code (pipeline failures are replayed in-process on the same annotation,
    blocks and tail: same profile constructor and assigner as the pipeline uses)"""
    inp = failure["input"]
    if inp.get("mode") == "comparator" and "case" in inp:
        c = inp["case"]
        params = make_params(inp.get("strategy", "default"))
        params.delta = c["params"]["delta"]
        return vlib.is_err(CMP.impl_compare(c, params)[0])
    if inp.get("mode") == "finder_spec":
        # the record is rebuilt from its CIGAR, position and read sequence; real AlignmentInfo + PolyAFinder + PolyAFixer again
        if "seq" not in inp:
            return False
        import pysam
        a = pysam.AlignedSegment(pysam.AlignmentHeader.from_dict({"HD": {"VN": "1.6"}, "SQ": [{"SN": "chr1", "LN": 10 ** 8}]}))
        a.query_name, a.flag, a.reference_id, a.reference_start, a.mapping_quality = "r", 0, 0, inp["pos"] - 1, 60
        a.cigarstring = inp["cigar"]
        a.query_sequence = inp["seq"]
        aligned = [(x + 1, y) for x, y in a.get_blocks()]
        read_exons, pa = real_polya_info(a, make_params(inp.get("strategy", "default")))
        if [tuple(e) for e in read_exons] != aligned:
            return False
        return any(w == inp.get("side") for w, _ in finder_spec_eval(inp["seq"], a.cigartuples, aligned, pa))
    if inp.get("mode") == "polya_finder":
        # audit G2 monitor: rebuild the record (quiet reference; only the aligned bases next to the tail matter) and re-run
        # the real AlignmentInfo + PolyAFinder + PolyAFixer
        if "exons" not in inp:
            return False
        import random
        ref = quiet_genome(random.Random(1), 12000)
        kw = {k: inp[k] for k in ("tail_a", "tail_t", "last_bases", "first_bases", "reverse") if inp.get(k) is not None}
        read_exons, pa = real_polya_info(synth_record(ref, [tuple(e) for e in inp["exons"]], **kw),
                                         make_params(inp.get("strategy", "default")))
        return not polya_outside(read_exons, pa)
    if "isoforms" not in inp:
        return False
    isoforms = [{"id": t["id"], "gene": t["gene"], "strand": t["strand"], "exons": [tuple(e) for e in t["exons"]]}
                for t in inp["isoforms"]]
    polya = inp.get("polya")
    if polya is None:
        polya = [-1, -1, -1, -1]
        blocks = inp["blocks"]
        if inp.get("polya_tail"):
            # the generator put the tail at the read end on the transcript's 3' side
            src = next((t for t in isoforms if t["id"] == inp.get("derived_from")), None)
            if src is not None and src["strand"] == "+":
                polya[0] = blocks[-1][1] + 1
            elif src is not None:
                polya[1] = max(1, blocks[0][0] - 1)
    fails, _ = oracle_inprocess_case(isoforms, inp["strategy"], inp["blocks"], polya, inp.get("delta"))
    return any(k == failure["kind"] for k, _ in fails)
