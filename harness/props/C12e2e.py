"""C12 end to end — model-vs-implementation correspondence of Model/BamPipeline.lean (`downstream`, `stampChr`,
`countUnaligned`): everything downstream of the per-alignment records, on the real code, in-process.

  * `DatasetProcessor.collect_reads` (real: list building of both memory modes, `resolve_multimappers`, the verdict files,
    `count_unaligned_reads`) with `collect_reads_in_parallel` / `BasicReadAssignmentLoader` / `pysam.AlignmentFile`
    replaced by stubs that replay generated `ReadAssignment` objects (real class, real `BasicReadAssignment(ra)`);
  * the verdict file of every chromosome read back the way `construct_models_in_parallel` reads it;
  * the real `ReadAssignmentLoader.get_next` over a stub unpickler (several gene regions per chromosome);
  * the real gene and transcript counters (`create_gene_counter` / `create_transcript_counter`, `add_read_info`, `dump`),
    the real `merge_counts` and `convert_counts_to_tpm`.
The model gets the compact view the real `BasicReadAssignment(ra)` computes, the assignment ids the stub hands out, the
number of unaligned reads per file, and returns the loaded records per chromosome, the per-chromosome tables, the merged
tables and the TPM tables.
"""
import collections
import copy
import os
import shutil
import types as _types
from fractions import Fraction

import vlib
from gen import resolver as G
from props import C02, C08flow

COUNTING = ["unique_only", "with_ambiguous", "unique_splicing_consistent", "unique_inconsistent", "all"]
NORMS = ["simple", "usable_reads"]
LABEL = "XQ"
UNASSIGNED = G.UNASSIGNED
IMPL_ERRORS = (IndexError, AssertionError, ZeroDivisionError, KeyError, ValueError, TypeError, AttributeError)


def _mods():
    DP, IA, MR, SER, IG, ST = C08flow._mods()
    import src.long_read_counter as LC
    import src.file_utils as FU
    import src.alignment_processor as AP
    return DP, IA, ST, LC, FU, AP


# ------------------------------------------------------------------------------------------------
# cases

def chr_layout(rng, n):
    """n chromosome names in increasing `str` order (= processing order: lengths decrease) and the order in which
    `merge_files` visits the per-chromosome files (natural sort of the names)"""
    nums = rng.sample([1, 2, 3, 9, 10, 11, 20, 100], n)
    names = sorted("c%d" % k for k in nums)
    lengths = [5000 - 100 * i for i in range(n)]
    # provisional (names are c<k> with distinct k); `model_merge_orders` replaces it by the C06 model's visiting order
    merge_order = sorted(range(n), key=lambda i: int(names[i][1:]))
    return names, lengths, merge_order


def model_merge_orders(ctx, cases):
    """visiting order of the per-chromosome parts = C06's natural-order model (Model/Schedule.lean mergeOrder), not a
    harness-side sort: the real merge_counts / merge_files then has to agree with it through `compare`"""
    outs = ctx.driver.run([vlib.req("C06.merge_order", names=c["names"]) for c in cases])
    for c, mo in zip(cases, outs):
        if isinstance(mo, list) and sorted(mo) == sorted(c["names"]):
            order = [c["names"].index(nm) for nm in mo]
            if order != c["merge_order"]:
                ctx.count("downstream:merge_order_model_vs_provisional_differs")
            c["merge_order"] = order


def gen_matches(rng, atype):
    """[[gene|None, transcript|None, penalty*2^20]] ; transcripts 2k, 2k+1 belong to gene k"""
    if atype in UNASSIGNED:
        return [] if rng.random() < 0.2 else [[None, None, 0]]
    if atype in ("ambiguous", "inconsistent_ambiguous"):
        ts = rng.sample(range(6), rng.choice([2, 2, 3]))
    elif rng.random() < 0.9:
        ts = [rng.randrange(6)]
    else:
        t = rng.randrange(6)
        ts = [t, t]                      # two matches of the same transcript: one feature
    pen = rng.choice([0, 0, 1, 2, 3]) * (G.SHORT_FLOAT_MULTIPLIER // 2) if atype in G.INCONSISTENT else 0
    ms = [[t // 2, t, pen] for t in ts]
    if rng.random() < 0.03:
        ms[0][1] = None                  # first match without a transcript: skipped by the counters
    return ms


def gen_record(rng, read, rest):
    t = rng.choice(G.TYPES)
    s = rng.choice([100, 100, 300, rng.randrange(50, 400)])
    e = s + rng.choice([40, 40, 60, rng.randrange(1, 90)])
    rs = rng.choice([s - 10, s + 5, 90, 250])
    ms = gen_matches(rng, t)
    ii = []
    for t_id in sorted(set(m[1] for m in ms if m[1] is not None)):
        if rng.random() < 0.97:          # a missing key is a KeyError in confirms_feature
            ii.append([t_id, rng.choice([0, 1, 2])])
    return {"read": read, "start": s, "end": e, "region": [rs, rs + rng.randrange(20, 200)], "mm": rng.random() < 0.5,
            "polya": rng.random() < 0.3, "atype": t, "m": ms, "nce": rng.choice([1, 1, 2, 3]), "ii": ii, "rest": rest}


def gen_case(rng, cid, conflict=0.5):
    n = rng.choice([1, 2, 2, 3])
    names, lengths, merge_order = chr_layout(rng, n)
    chroms = [[] for _ in range(n)]
    rest = 0
    for read in range(rng.randint(1, 9)):
        k = rng.choice([1, 1, 2, 2, 3, 4])
        mine = []
        for _ in range(k):
            rest += 1
            if mine and rng.random() < 0.3:
                c0, r0 = rng.choice(mine)     # an `__eq__`-duplicate: same chromosome, coordinates, isoforms
                r = copy.deepcopy(r0)
                r["rest"] = rest
                if rng.random() < conflict:
                    r["mm"] = rng.random() < 0.5
                    r["nce"] = rng.choice([1, 2, 3])
                    r["region"] = [r["region"][0] + rng.choice([-5, 0, 5]), r["region"][1]]
                c = c0
            else:
                r = gen_record(rng, read, rest)
                c = rng.randrange(n)
            mine.append((c, r))
            chroms[c].append(r)
    for c in range(n):
        rng.shuffle(chroms[c])
    ids = []
    for c in range(n):
        a = rng.randrange(1, 50)
        row = []
        for _ in chroms[c]:
            a += rng.choice([1, 1, 2, 5])
            row.append(a)
        ids.append(row)
    return {"id": cid, "names": names, "lengths": lengths, "merge_order": merge_order, "chroms": chroms, "ids": ids,
            "unmapped": [rng.choice([0, 0, 1, 2, 3]) for _ in range(rng.choice([1, 2, 3]))],
            "high_memory": rng.random() < 0.5, "gene_strategy": rng.choice(COUNTING),
            "transcript_strategy": rng.choice(COUNTING), "norm": rng.choice(NORMS),
            "complete_genes": [sorted(rng.sample(range(4), rng.randrange(0, 4))) for _ in range(n)],
            "complete_transcripts": [sorted(rng.sample(range(7), rng.randrange(0, 5))) for _ in range(n)],
            "gene_regions": [rng.choice([1, 2, 3]) for _ in range(n)]}


# ------------------------------------------------------------------------------------------------
# real objects

def make_ra(rec, chr_name, aid):
    DP, IA, ST, LC, FU, AP = _mods()
    ra = IA.ReadAssignment.__new__(IA.ReadAssignment)
    ra.assignment_id = aid
    ra.read_id = G.name_read(rec["read"])
    ra.genomic_region = (rec["region"][0], rec["region"][1])
    ra.exons = [(rec["start"], rec["end"])]
    ra.corrected_exons = [(10 * k, 10 * k + 5) for k in range(rec["nce"])]
    ra.gene_info = _types.SimpleNamespace(all_isoforms_introns={G.name_iso(t): [(1, 2)] * k for t, k in rec["ii"]})
    ra.multimapper = rec["mm"]
    ra.polyA_found = rec["polya"]
    ra.read_group = "NA"
    ra.chr_id = chr_name
    ra.assignment_type = IA.ReadAssignmentType[rec["atype"]]
    genes = [m[0] for m in rec["m"]]
    ra.gene_assignment_type = IA.ReadAssignmentType[G.gtype_for(rec["atype"], genes)]
    ra.isoform_matches = [IA.IsoformMatch(IA.MatchClassification.undefined,
                                          assigned_gene=None if g is None else G.name_gene(g),
                                          assigned_transcript=None if t is None else G.name_iso(t),
                                          penalty_score=float(p) / G.SHORT_FLOAT_MULTIPLIER) for g, t, p in rec["m"]]
    ra.rest = rec["rest"]
    return ra


def basic_json(b, pos_of):
    d = G.from_basic(b)
    d["chr"] = pos_of[b.chr_id]
    return d


def model_request(case):
    """the driver request; the compact view of every record is what the real `BasicReadAssignment(ra)` computes"""
    DP, IA, ST, LC, FU, AP = _mods()
    pos_of = {nm: i for i, nm in enumerate(case["names"])}
    chroms = []
    for c, recs in enumerate(case["chroms"]):
        row = []
        for rec in recs:
            b = IA.BasicReadAssignment(make_ra(rec, case["names"][c], 0))
            row.append({"rec": basic_json(b, pos_of), "m": [[m[0], m[1]] for m in rec["m"]], "nce": rec["nce"],
                        "ii": rec["ii"], "rest": rec["rest"]})
        chroms.append(row)
    cfg = {"high_memory": case["high_memory"], "gene_strategy": case["gene_strategy"],
           "transcript_strategy": case["transcript_strategy"], "norm": case["norm"],
           "complete_genes": case["complete_genes"], "complete_transcripts": case["complete_transcripts"],
           "merge_order": case["merge_order"]}
    return vlib.req("C12.downstream", cfg=cfg, ids=case["ids"], unmapped=case["unmapped"], chroms=chroms)


def _counter(d, c_name, lvl, strategy, complete):
    DP, IA, ST, LC, FU, AP = _mods()
    suffix = ".gene" if lvl == "gene" else ".transcript"
    name = (LABEL if c_name is None else "%s_%s" % (LABEL, c_name)) + suffix
    f = LC.create_gene_counter if lvl == "gene" else LC.create_transcript_counter
    nm = G.name_gene if lvl == "gene" else G.name_iso
    return f(os.path.join(d, name), strategy, complete_feature_list=[nm(x) for x in complete], read_groups=None,
             output_zeroes=True)


def _part(counter):
    rows, _ = C02.parse_counts_file(counter.output_counts_file_name)
    _, stats = C02.parse_counts_file(counter.output_stats_file_name)
    return {"rows": [[G.num(f), v] for f, v in rows],
            "stats": [stats.get("__ambiguous"), stats.get("__no_feature"), stats.get("__not_aligned"), stats.get("__usable")]}


def real_downstream(case):
    """the real code on the generated records; returns the driver's shape or {"error": ...}"""
    DP, IA, ST, LC, FU, AP = _mods()
    import src.multimap_resolver as MR
    d = vlib.scratch_dir("isoverif_c12e2e_")
    names = case["names"]
    pos_of = {nm: i for i, nm in enumerate(names)}
    try:
        ras = {nm: [make_ra(rec, nm, aid) for rec, aid in zip(case["chroms"][c], case["ids"][c])]
               for c, nm in enumerate(names)}
        out_raw = os.path.join(d, "s.save")
        files = ["f%d.bam" % i for i in range(len(case["unmapped"]))]
        sample = _types.SimpleNamespace(out_raw_file=out_raw, file_list=[(f,) for f in files], prefix="s")
        dp = DP.DatasetProcessor.__new__(DP.DatasetProcessor)
        dp.args = _types.SimpleNamespace(resume=False, threads=1, high_memory=case["high_memory"], keep_tmp=True, read_group=None,
                                         gunzipped_reference=None,
                                         multimap_strategy=MR.MultimapResolvingStrategy.take_best)
        dp.reference_record_dict = collections.OrderedDict((nm, "A" * ln) for nm, ln in zip(names, case["lengths"]))
        dp.alignment_stat_counter = ST.EnumStats()
        dp.gffutils_db = None           # read by warn_about_skipped_sequences (fix b09aace)

        def fake_collect(sample_, chr_id, args_):
            objs = ras[chr_id]
            pr = [IA.BasicReadAssignment(o) for o in objs] if args_.high_memory else [o.read_id for o in objs]
            return set(), ST.EnumStats(), pr

        class FakeLoader:
            def __init__(self, fname):
                self.objs = [IA.BasicReadAssignment(o) for o in ras[fname[len(out_raw) + 1:]]]
                self.done = False

            def has_next(self):
                return not self.done

            def get_next(self):
                self.done = True
                for o in self.objs:
                    yield o

        class FakeBam:
            def __init__(self, fname, *a, **kw):
                self.unmapped = case["unmapped"][files.index(fname)]

            def __enter__(self):
                return self

            def __exit__(self, *a):
                return False

            def get_index_statistics(self):
                return []               # no alignment on a sequence outside the reference (warn_about_skipped_sequences)

            def close(self):
                pass

        saved = (DP.collect_reads_in_parallel, DP.BasicReadAssignmentLoader, DP.pysam)
        DP.collect_reads_in_parallel = fake_collect
        DP.BasicReadAssignmentLoader = FakeLoader
        DP.pysam = _types.SimpleNamespace(AlignmentFile=FakeBam)
        try:
            dp.collect_reads(sample)
        except IMPL_ERRORS as ex:
            return {"error": "error", "exc": type(ex).__name__, "stage": "collect_reads"}
        finally:
            DP.collect_reads_in_parallel, DP.BasicReadAssignmentLoader, DP.pysam = saved
        unaligned = dp.alignment_stat_counter.stats_dict[AP.AlignmentType.unaligned]
        chr_ids = dp.get_chr_list()
        if chr_ids != names:
            return {"error": "harness", "why": "processing order %s" % chr_ids}
        chrs = []
        for c, nm in enumerate(names):
            verdicts = C08flow.read_verdict_file(out_raw + "_multimappers_" + nm, nm)
            objs = [copy.copy(o) for o in ras[nm]]
            # several gene regions per chromosome
            k = max(1, min(case["gene_regions"][c], len(objs) or 1))
            items, step = [], (len(objs) + k - 1) // k if objs else 1
            for i in range(0, max(len(objs), 1), step):
                items.append(("gene", "GENE"))
                items += [("read", o) for o in objs[i:i + step]]
            loader = DP.ReadAssignmentLoader.__new__(DP.ReadAssignmentLoader)
            loader.save_file_name = "stub"
            loader.unpickler = C08flow.FakeUnpickler(items)
            loader.multimapped_chr_dict = verdicts
            gc = _counter(d, nm, "gene", case["gene_strategy"], case["complete_genes"][c])
            tc = _counter(d, nm, "transcript", case["transcript_strategy"], case["complete_transcripts"][c])
            loaded = []
            try:
                while loader.has_next():
                    _, storage = loader.get_next()
                    for ra in storage:
                        gc.add_read_info(ra)
                        tc.add_read_info(ra)
                        loaded.append(ra)
                gc.dump()
                tc.dump()
            except IMPL_ERRORS as ex:
                return {"error": "error", "exc": type(ex).__name__, "stage": "chromosome " + nm}
            chrs.append({"records": [{"rec": basic_json(IA.BasicReadAssignment(ra), pos_of), "rest": ra.rest} for ra in loaded],
                         "gene": _part(gc), "transcript": _part(tc)})
        res = {"chrs": chrs}
        for lvl, strategy in (("gene", case["gene_strategy"]), ("transcript", case["transcript_strategy"])):
            main = _counter(d, None, lvl, strategy, [])
            try:
                FU.merge_counts(main, LABEL, chr_ids, unaligned)
                rows, stats = C02.parse_counts_file(main.output_counts_file_name)
                usable = main.reads_for_tpm
                main.convert_counts_to_tpm(case["norm"])
                trows, un = C02.parse_tpm_file(main.output_tpm_file_name)
            except IMPL_ERRORS as ex:
                return {"error": "error", "exc": type(ex).__name__, "stage": "merge " + lvl}
            res[lvl] = {"rows": [[G.num(f), v] for f, v in rows],
                        "stats": [stats.get("__ambiguous"), stats.get("__no_feature"), stats.get("__not_aligned"), usable]}
            res[lvl + "_tpm"] = {"tpm": [[G.num(f), v] for f, v in trows], "unassigned": un}
        res["unaligned"] = unaligned
        return res
    finally:
        shutil.rmtree(d, ignore_errors=True)


def compare(mo, io):
    """None or the reason of the disagreement"""
    if isinstance(mo, dict) and "driver_error" in mo:
        return "driver error"
    if vlib.is_err(mo) or vlib.is_err(io):
        return None if (vlib.is_err(mo) and vlib.is_err(io)) else "error mismatch"
    if len(mo["chrs"]) != len(io["chrs"]):
        return "number of chromosomes"
    for c, (mc, ic) in enumerate(zip(mo["chrs"], io["chrs"])):
        if vlib.canon(mc["records"]) != vlib.canon(ic["records"]):
            return "loaded records of chromosome %d" % c
        for lvl in ("gene", "transcript"):
            if mc[lvl] != ic[lvl]:
                return "%s table of chromosome %d" % (lvl, c)
    for lvl in ("gene", "transcript"):
        if mo[lvl] != io[lvl]:
            return "merged %s table" % lvl
        why = C02.same_tpm(mo[lvl + "_tpm"], io[lvl + "_tpm"])
        if why:
            return "%s TPM: %s" % (lvl, why)
    return None


def strip(io):
    if isinstance(io, dict) and "gene_tpm" in io:
        io = dict(io)
        for k in ("gene_tpm", "transcript_tpm"):
            io[k] = {"tpm": [[f, str(v)] for f, v in io[k]["tpm"]], "unassigned": str(io[k]["unassigned"])}
    return io


def nontrivial(case, mo):
    if vlib.is_err(mo):
        return False
    n_in = sum(len(c) for c in case["chroms"])
    n_out = sum(len(c["records"]) for c in mo["chrs"])
    counted = any(v != 0 for _, v in mo["transcript"]["rows"]) or any(v != 0 for _, v in mo["gene"]["rows"])
    return n_out < n_in and n_out > 0 and counted


def correspondence(ctx):
    rng = ctx.rng
    quick = ctx.tier == "quick"
    cases = [gen_case(rng, i) for i in range(220 if quick else 2500)]
    model_merge_orders(ctx, cases)
    outs = ctx.driver.run([model_request(c) for c in cases])
    for c, mo in zip(cases, outs):
        ctx.evaluations += 1
        ctx.count("op:downstream:" + ("high_memory" if c["high_memory"] else "default"))
        ctx.count("downstream:chromosomes:%d" % len(c["names"]))
        if c["merge_order"] != sorted(c["merge_order"]):
            ctx.count("downstream:merge_order_differs")
        io = real_downstream(c)
        ctx.traces_validated += 1
        if isinstance(io, dict) and io.get("error") == "harness":
            raise RuntimeError("C12e2e harness: " + io["why"])
        if vlib.is_err(mo):
            ctx.count("model_error:downstream")
        why = compare(mo, io)
        if why:
            ctx.disagree("downstream", c, {"why": why, "model": mo}, strip(io))
        elif nontrivial(c, mo):
            ctx.mark_nontrivial(["downstream", c["id"], c["chroms"]])
        if len(ctx.samples) < 8 and rng.random() < 0.01 and not vlib.is_err(mo):
            ctx.sample({"op": "downstream", "input": {k: c[k] for k in ("names", "merge_order", "ids", "unmapped", "high_memory")},
                        "model_records": [len(x["records"]) for x in mo["chrs"]], "model_transcript": mo["transcript"]})
    # count_unaligned_reads alone, many files
    ucases = [[rng.randrange(0, 5) for _ in range(rng.randint(1, 6))] for _ in range(60)]
    outs = ctx.driver.run([vlib.req("C12.count_unaligned", unmapped=u) for u in ucases])
    for u, mo in zip(ucases, outs):
        ctx.evaluations += 1
        ctx.count("op:count_unaligned")
        io = real_count_unaligned(u)
        ctx.traces_validated += 1
        if mo != io:
            ctx.disagree("count_unaligned", u, mo, io)
        elif len(u) > 1 and any(x > 0 for x in u[:-1]):
            ctx.mark_nontrivial(["count_unaligned", u])


def real_count_unaligned(unmapped):
    DP, IA, ST, LC, FU, AP = _mods()
    files = ["f%d.bam" % i for i in range(len(unmapped))]

    class FakeBam:
        def __init__(self, fname, *a, **kw):
            self.unmapped = unmapped[files.index(fname)]

        def __enter__(self):
            return self

        def __exit__(self, *a):
            return False

    dp = DP.DatasetProcessor.__new__(DP.DatasetProcessor)
    dp.args = _types.SimpleNamespace(keep_tmp=True, gunzipped_reference=None)
    dp.alignment_stat_counter = ST.EnumStats()
    saved = DP.pysam
    DP.pysam = _types.SimpleNamespace(AlignmentFile=FakeBam)
    try:
        dp.count_unaligned_reads(_types.SimpleNamespace(file_list=[(f,) for f in files]))
    finally:
        DP.pysam = saved
    return dp.alignment_stat_counter.stats_dict[AP.AlignmentType.unaligned]


# ------------------------------------------------------------------------------------------------
# oracle: the end-to-end statement on the real code (independent of the Lean side)

def eq_key(rec):
    """the `__eq__` fields of the compact view besides the read id and the chromosome"""
    return (rec["start"], rec["end"], tuple(sorted(set(m[1] for m in rec["m"] if m[1] is not None))))


def in_domain(case):
    """no `suspended` input; records of one read on one chromosome that `__eq__` identifies are identical (up to `rest`):
    the hypothesis of `downstream_perm_invariant_partial` for every chromosome list"""
    for recs in case["chroms"]:
        seen = {}
        for r in recs:
            k = (r["read"],) + eq_key(r)
            body = {x: r[x] for x in r if x != "rest"}
            if k in seen and seen[k] != body:
                return False
            seen[k] = body
    return True


def permuted(rng, case):
    """the same records: every chromosome list reordered, other assignment ids, the unaligned reads spread over another
    number of files"""
    c2 = copy.deepcopy(case)
    for c, recs in enumerate(c2["chroms"]):
        rng.shuffle(recs)
        a, row = rng.randrange(1, 90), []
        for _ in recs:
            a += rng.choice([1, 3])
            row.append(a)
        c2["ids"][c] = row
    total = sum(case["unmapped"])
    k = rng.choice([1, 2, 3, 4])
    cuts = sorted(rng.randint(0, total) for _ in range(k - 1))
    c2["unmapped"] = [b - a for a, b in zip([0] + cuts, cuts + [total])]
    return c2


def observable(io):
    """what the statement compares: loaded records as multisets (ids and `rest` dropped), tables as they are"""
    if vlib.is_err(io):
        return {"error": "error"}
    chrs = []
    for c in io["chrs"]:
        recs = []
        for r in c["records"]:
            d = dict(r["rec"])
            d.pop("aid")
            recs.append(vlib.json.dumps(vlib.canon(d), sort_keys=True))
        chrs.append({"records": sorted(recs), "gene": c["gene"], "transcript": c["transcript"]})
    return {"chrs": chrs, "gene": io["gene"], "transcript": io["transcript"],
            "gene_tpm": strip(io)["gene_tpm"], "transcript_tpm": strip(io)["transcript_tpm"]}


def order_check(case, other):
    """None or a description of the difference between the two real runs"""
    a, b = observable(real_downstream(case)), observable(real_downstream(other))
    if a == b:
        return None
    if "error" in a or "error" in b:
        return "one order raises, the other does not"
    for c, (x, y) in enumerate(zip(a["chrs"], b["chrs"])):
        for k in ("records", "gene", "transcript"):
            if x[k] != y[k]:
                return "chromosome %d: %s differ: %s | %s" % (c, k, str(x[k])[:300], str(y[k])[:300])
    for k in ("gene", "transcript", "gene_tpm", "transcript_tpm"):
        if a[k] != b[k]:
            return "merged %s differ: %s | %s" % (k, str(a[k])[:300], str(b[k])[:300])
    return "differ"


def oracle_downstream(ctx, disagreements):
    rng = ctx.rng
    quick = ctx.tier == "quick"
    cases = []
    for d in disagreements:
        if d.get("op") == "downstream" and isinstance(d.get("input"), dict) and "chroms" in d["input"]:
            cases.append(d["input"])
    cases = cases[:20] + [gen_case(rng, 10 ** 6 + i, conflict=0.08) for i in range(120 if quick else 1500)]
    model_merge_orders(ctx, cases)
    for c in cases:
        if not in_domain(c):
            ctx.count("oracle:downstream:outside_domain")
            continue
        for _ in range(2):
            o = permuted(rng, c)
            ctx.evaluations += 1
            ctx.count("oracle:downstream_order")
            why = order_check(c, o)
            if why:
                ctx.fail("downstream:order_dependent", {"a": c, "b": o}, why)
                break


# ------------------------------------------------------------------------------------------------
# known finding: two `__eq__`-equal but different alignment records of one read (same start, same end, same isoform),
# the retained one depends on the order of the input files (Lean: Props/C12EndToEnd.bam_clause_witness)

DUP_KIND = "pipeline:eq_duplicate_file_order"


def dup_file_order_probe():
    """None, or the difference between `--bam A.bam B.bam` and `--bam B.bam A.bam` where A and B each hold one primary
    alignment of the read `dup` with the same start and end (first intron shifted by 3 bp in B)"""
    from gen import synth
    from props import C12
    root = vlib.scratch_dir("isoverif_c12dup_")
    try:
        ds = synth.Dataset(seed=5)
        ds.add_chrom("chr1", 6000)
        ds.add_gene("chr1", "G0", "+", [("T0", [(1000, 1200), (1500, 1700), (2000, 2300)])])
        d = os.path.join(root, "data")
        paths = ds.write(d)

        def rd(name, cigar):
            return {"name": name, "chr": "chr1", "start0": 999, "cigar": cigar, "flag": 0, "mapq": 60, "tags": [], "seq": None}
        recs = {"A": [rd("dup", "201M299N201M299N301M"), rd("r2", "201M299N201M299N301M")],
                "B": [rd("dup", "204M296N201M299N301M")]}
        bams = {k: ds.write(d, bam_name="%s.bam" % k, reads=recs[k], write_ref=False)["bam"] for k in recs}
        ab = C12.run_one(root, "ab", [bams["A"], bams["B"]], paths["ref"], paths["gtf"], True)
        ba = C12.run_one(root, "ba", [bams["B"], bams["A"]], paths["ref"], paths["gtf"], True)
        if ab["rc"] != 0 or ba["rc"] != 0:
            return "infra: a run failed (%s, %s)" % (ab["rc"], ba["rc"])
        return C12.compare_runs(ab, ba, ["read_assignments.tsv", "corrected_reads.bed", "gene_counts.tsv",
                                         "transcript_counts.tsv"])
    finally:
        shutil.rmtree(root, ignore_errors=True)


def oracle_known_finding(ctx):
    ctx.count("oracle:eq_duplicate_file_order_probe")
    r = dup_file_order_probe()
    if r and r.startswith("infra"):
        ctx.notes.append("eq-duplicate probe: " + r)
    elif r:
        ctx.fail(DUP_KIND, {"kind": "eq_duplicate_file_order"}, r)
    else:
        ctx.notes.append("eq-duplicate probe: the two file orders now give the same records (finding not re-observed)")
