"""C05 (growth, seed C05_b4) — which alignments of a region WITHOUT genes get a read assignment
(Model/IntergenicFilter.lean, Props/C05Intergenic.lean).

The earlier generators had only unspliced `%dM` reads with MAPQ 60 (or MAPQ 0..5, one exon) in gene-free regions; the class
added here: spliced intergenic alignments (1..5 exons) whose terminal exon(s) are fake polyA / polyT exons that
`add_polya_info` trims, MAPQ 0..3 around --simple_alignments_mapq_cutoff, secondary records.  The documented filter
("alignments with 1 or 2 exons and MAPQ below the cut-off") counts the exons of the ALIGNMENT - the correspondence decides
that the model takes the count before the trimming.

correspondence: `C05.intergenic_records` against the real `AlignmentCollector.process_intergenic` (real loop, real
  ReadAssignment construction, real strand / read-group code); `AlignmentInfo` is a stand-in that carries the number of
  exons of the alignment and the number left after `add_polya_info` (what the real AlignmentInfo / PolyAFixer compute from
  CIGAR and sequence is C16's subject and runs unreplaced in the pipeline scenario below).
oracle: the clause itself on the real function (an alignment with >= 3 exons that passes the region-independent filters has
  a record) and the real pipeline, annotation-free and with an annotation whose only gene is far away, on a BAM with
  3-exon MAPQ 0..2 reads whose last / first exon is an aligned polyA tail / polyT head.
"""
import collections
import os
import re
import shutil
import types

import vlib
from props import C05multi as M

ERRS = M.ERRS


class _Info:
    """AlignmentInfo stand-in: `exons` aligned blocks; add_polya_info leaves `trimmed` of them (tail or head removed)"""
    table = {}

    def __init__(self, alignment):
        n, t, side = _Info.table[alignment.rid]
        s = alignment.reference_start
        self.read_exons = [(s + 1 + 100 * i, s + 60 + 100 * i) for i in range(n)]
        self._t, self._side = t, side
        self.exons_changed = False
        self.cage_hits = []
        self.polya_info = None
        if self.read_exons:
            self.read_start, self.read_end = self.read_exons[0][0], self.read_exons[-1][1]

    def add_polya_info(self, polya_finder, polya_fixer):
        cut = len(self.read_exons) - self._t
        pa = self.read_exons[self._t - 1][1] if (cut and self._side == "A") else -1
        pt = self.read_exons[cut][0] if (cut and self._side == "T") else -1
        self.polya_info = types.SimpleNamespace(external_polya_pos=-1, external_polyt_pos=-1,
                                                internal_polya_pos=pa, internal_polyt_pos=pt)
        if cut:
            self.read_exons = self.read_exons[:self._t] if self._side == "A" else self.read_exons[cut:]
            self.exons_changed = True
            self.read_start, self.read_end = self.read_exons[0][0], self.read_exons[-1][1]


def real_intergenic(case):
    """ids of the read assignments the real process_intergenic returns, in order"""
    AP, ST, RG, DP = M._mods()
    params = M._params(False)
    params.no_secondary = case["params"]["no_secondary"]
    params.min_mapq = case["params"]["min_mapq"] or None
    params.simple_alignments_mapq_cutoff = case["cutoff"]
    params.bam_tags = []
    params.delta = 6
    objs = []
    _Info.table = {}
    for x in case["alns"]:
        objs.append(M.FakeAln(x["aln"]))
        _Info.table[x["aln"][4]] = (x["exons"], x["trimmed"], x.get("side", "A"))
    saved = AP.AlignmentInfo
    AP.AlignmentInfo = _Info
    try:
        col = AP.AlignmentCollector("chr1", [(M.FakeBam([], 10 ** 7), "f.bam")], params, None, None, "ACGT" * 2000)
        res = col.process_intergenic([(0, a) for a in objs], (0, 10 ** 6))
        return [int(ra.read_id[1:]) for ra in res]
    except ERRS as ex:
        return {"error": "error", "exc": type(ex).__name__}
    finally:
        AP.AlignmentInfo = saved


def gen_case(rng):
    alns = []
    for i in range(rng.randint(1, 14)):
        s = rng.randint(0, 5000)
        fl = rng.choice([0, 0, 0, 0, 1, 1, 2, 4, 3])
        n = rng.choice([0, 1, 1, 2, 2, 3, 3, 3, 4, 5])
        t = n if n <= 1 else max(1, n - rng.choice([0, 0, 1, 1, 2]))
        alns.append({"aln": [s, s + 700, fl, rng.choice([0, 0, 1, 1, 2, 3, 60]), i], "exons": n, "trimmed": t,
                     "side": rng.choice("AT")})
    return {"alns": alns, "params": {"no_secondary": rng.random() < 0.3, "min_mapq": rng.choice([0, 0, 0, 1, 2])},
            "cutoff": rng.choice([0, 1, 1, 1, 2, 3])}


FIXED = [
    # the seed's input: primary, MAPQ 0, three exons, the last one trimmed
    {"alns": [{"aln": [2000, 3530, 0, 0, 7], "exons": 3, "trimmed": 2, "side": "A"},
              {"aln": [4000, 5530, 0, 0, 8], "exons": 3, "trimmed": 2, "side": "T"},
              {"aln": [6000, 7530, 0, 0, 9], "exons": 4, "trimmed": 2, "side": "A"},
              {"aln": [8000, 9530, 1, 0, 10], "exons": 3, "trimmed": 1, "side": "A"},
              {"aln": [9000, 9530, 0, 0, 11], "exons": 2, "trimmed": 1, "side": "A"},
              {"aln": [9600, 9930, 0, 1, 12], "exons": 2, "trimmed": 1, "side": "A"}],
     "params": {"no_secondary": False, "min_mapq": 0}, "cutoff": 1},
]


def model_req(case):
    return vlib.req("C05.intergenic_records", alns=[{"aln": x["aln"], "exons": x["exons"], "trimmed": x["trimmed"]} for x in case["alns"]],
                    params=case["params"], cutoff=case["cutoff"])


def correspondence(ctx):
    rng = ctx.rng
    quick = ctx.tier == "quick"
    cases = FIXED + [gen_case(rng) for _ in range(400 if quick else 4000)]
    outs = ctx.driver.run([model_req(c) for c in cases])
    for c, mo in zip(cases, outs):
        ctx.evaluations += 1
        ctx.count("op:C05.intergenic_records")
        if isinstance(mo, dict) and "driver_error" in mo:
            ctx.disagree("C05.intergenic_records", c, mo, None)
            continue
        io = vlib.canon(real_intergenic(c))
        ctx.traces_validated += 1
        if any(x["exons"] >= 3 and x["trimmed"] <= 2 and x["aln"][3] < c["cutoff"] for x in c["alns"]):
            ctx.count("c05i_case_with_trimmed_spliced_low_mapq")
        if not vlib.same(mo, io):
            ctx.disagree("C05.intergenic_records", c, mo, io)
        elif not vlib.is_err(mo) and mo and len(mo) < len(c["alns"]):
            ctx.mark_nontrivial(M._digest("intergenic_records", c))


# ------------------------------------------------------------------------------------------------
# oracle

def check_case(case):
    """the clause on the real function: every alignment with >= 3 exons passing the region-independent filters has a record;
    one with 1-2 exons has one iff primary and MAPQ >= cut-off; nothing else has one"""
    r = real_intergenic(case)
    if vlib.is_err(r):
        return ("intergenic_raises", r.get("exc"))
    got = collections.Counter(r)
    p = case["params"]
    for x in case["alns"]:
        a = x["aln"]
        first = not (a[2] & 4) and not (a[2] & 2) and not (p["no_secondary"] and a[2] & 1) and not (p["min_mapq"] and a[3] < p["min_mapq"])
        if x["exons"] >= 3:
            want = first
        elif x["exons"] >= 1:
            want = first and not (a[2] & 1) and a[3] >= case["cutoff"]
        else:
            want = False
        if got[a[4]] != (1 if want else 0):
            return ("intergenic_spliced_alignment_dropped" if want and x["exons"] >= 3 else "intergenic_filter_mismatch",
                    "alignment %s with %d exons (%d after polyA trimming), cut-off %d, params %s: %d record(s), expected %d"
                    % (a, x["exons"], x["trimmed"], case["cutoff"], p, got[a[4]], 1 if want else 0))
    return None


def oracle(ctx, disagreements, broken):
    rng = ctx.rng
    quick = ctx.tier == "quick"
    n = 0
    base = len(ctx.failures)
    cases = [d["input"] for d in disagreements if d.get("op") == "C05.intergenic_records" and isinstance(d.get("input"), dict)][:20]
    for c in cases + FIXED + [gen_case(rng) for _ in range(300 if quick else 3000)]:
        if len(ctx.failures) - base >= 3:
            break
        n += 1
        r = check_case(c)
        if r:
            ctx.fail(r[0], {"level": "intergenic", "case": c}, r[1])
    for spec in ([{"seed": 7, "genes": False}, {"seed": 8, "genes": True}] if quick else
                 [{"seed": s, "genes": bool(s % 2)} for s in range(7, 15)]):
        if ctx.elapsed() > (150 if quick else 1000):
            ctx.notes.append("intergenic pipeline oracle skipped (time budget)")
            break
        n += 1
        ctx.count("oracle_intergenic_pipeline")
        r = check_pipeline_intergenic(spec)
        if r:
            ctx.fail(r[0], {"level": "intergenic_pipeline", "spec": spec}, r[1])
    ctx.extra["oracle_intergenic_cases"] = n


def check_pipeline_intergenic(spec):
    """real isoquant.py on spliced reads of gene-free regions: 3-exon reads whose last (first) exon is an aligned polyA tail
    (polyT head) with MAPQ 0..2 and 60, plain 3-/2-/1-exon reads with MAPQ 0 / 1.  Expected in corrected_reads.bed (and
    read_assignments.tsv with an annotation): every primary read with >= 3 exons in the CIGAR, and the 1-2 exon reads with
    MAPQ >= 1 (default --simple_alignments_mapq_cutoff); both memory modes"""
    import random
    import pipeline as P
    from gen import synth
    rng = random.Random(spec["seed"])
    ds = synth.Dataset(spec["seed"])
    ds.add_chrom("chrI", 60000)
    # no long A / T runs in the random sequence: tails are planted explicitly
    s = list(ds.chroms["chrI"])
    for i in range(len(s) - 3):
        if s[i] == s[i + 1] == s[i + 2] and s[i] in "AT":
            s[i + 2] = "C" if s[i] == "A" else "G"
    ds.chroms["chrI"] = "".join(s)
    genes = bool(spec.get("genes"))
    if genes:
        ds.add_gene("chrI", "G1", "+", [("T1", [(50001, 50500), (51501, 52000)])])
        ds.read_from_exons("genic_0", "chrI", [(50001, 50500), (51501, 52000)])
    ref = ds.chroms["chrI"]
    need, never, cats = set(), set(), collections.Counter()

    def seq_of(start0, blocks, fake):
        """blocks: [(kind, len)], kind M / N / S; fake = 'A' (last M block + clipped tail are A) / 'T' (first ...) / None"""
        out, pos = [], start0
        ms = [i for i, (k, _) in enumerate(blocks) if k == "M"]
        for i, (k, ln) in enumerate(blocks):
            if k == "M":
                if fake == "A" and i == ms[-1]:
                    out.append("A" * ln)
                elif fake == "T" and i == ms[0]:
                    out.append("T" * ln)
                else:
                    out.append(ref[pos:pos + ln])
                pos += ln
            elif k == "N":
                pos += ln
            else:
                out.append(("T" if i == 0 else "A") * ln)
        return "".join(out)

    def add(name, start0, blocks, mapq, fake=None, flag=0):
        cigar = "".join("%d%s" % (ln, k) for k, ln in blocks)
        ds.add_read(name, "chrI", start0, cigar, flag=flag, mapq=mapq, seq=seq_of(start0, blocks, fake))
        cats["secondary" if flag & 256 else "primary"] += 1
        n_exons = sum(1 for k, _ in blocks if k == "N") + 1
        if flag & 256:
            return
        if n_exons >= 3 or mapq >= 1:
            need.add(name)
        else:
            never.add(name)
    tail_len = rng.choice([25, 30, 40])
    three_tail = [("M", 300), ("N", 500), ("M", 300), ("N", 400), ("M", tail_len), ("S", 25)]
    three_head = [("S", 25), ("M", tail_len), ("N", 400), ("M", 300), ("N", 500), ("M", 300)]
    four_tail = [("M", 200), ("N", 300), ("M", 300), ("N", 500), ("M", 28), ("N", 200), ("M", 30), ("S", 20)]
    plain3 = [("M", 300), ("N", 500), ("M", 300), ("N", 400), ("M", 300)]
    plain2 = [("M", 300), ("N", 500), ("M", 300)]
    pos = 2000
    for q in (0, 0, 1, 2, 60):
        add("polyA_3ex_q%d_%d" % (q, pos), pos, three_tail, q, "A")
        pos += 2500
    for q in (0, 1, 60):
        add("polyT_3ex_q%d_%d" % (q, pos), pos, three_head, q, "T", flag=16)
        pos += 2500
    add("polyA_4ex_q0", pos, four_tail, 0, "A")
    pos += 2500
    add("plain_3ex_q0", pos, plain3, 0)
    pos += 2500
    add("plain_2ex_q0", pos, plain2, 0)
    pos += 2500
    add("plain_2ex_q1", pos, plain2, 1)
    pos += 2500
    add("plain_1ex_q0", pos, [("M", 600)], 0)
    pos += 2500
    add("plain_1ex_q1", pos, [("M", 600)], 1)
    for mode in ("default", "high_memory"):
        d = P.scratch("isoverif_c05i_p_")
        try:
            paths = ds.write(os.path.join(d, "in"))
            out = os.path.join(d, "out")
            rc, log = P.run_isoquant(out, P.std_args(paths, genedb=genes, extra=(["--high_memory"] if mode == "high_memory" else [])))
            if rc != 0:
                return ("intergenic_pipeline_fails:" + mode, log[-700:])
            files = P.out_files(out)
            outs = [("corrected_reads.bed", collections.Counter(r[3] for r in P.read_bed(files[[f for f in files if f.endswith("corrected_reads.bed")][0]])))]
            if genes:
                tsv = [f for f in files if f.endswith("read_assignments.tsv")][0]
                outs.append(("read_assignments.tsv", collections.Counter(set(l.split("\t")[0] for l in P.read_lines(files[tsv])))))
            for label, got in outs:
                missing = sorted(n for n in need if got[n] == 0)
                if missing:
                    return ("intergenic_read_missing:" + mode, "%d of %d reads the documented filters keep are absent from %s, e.g. %s"
                            % (len(missing), len(need), label, missing[:4]))
                extra_ = sorted(n for n in got if (n in never) or got[n] > 1)
                if extra_:
                    return ("intergenic_read_unexpected:" + mode, "%s: %s" % (label, extra_[:4]))
            m = re.search(r"overall alignment statistics:?(.*?)(?:Finishing read assignment|No reads were assigned)", log, re.S)
            st = {k_: int(v) for k_, v in re.findall(r"(primary|secondary|supplementary|unaligned): (\d+)", m.group(1))} if m else {}
            exp = dict(cats)
            if genes:
                exp["primary"] += 1
            if {k_: v for k_, v in st.items() if v} != exp:
                return ("intergenic_log_stats_mismatch:" + mode, "log %s vs input %s" % (st, exp))
        finally:
            shutil.rmtree(d, ignore_errors=True)
    return None


def replay(ctx, failure):
    inp = failure["input"]
    if inp.get("level") == "intergenic":
        return check_case(inp["case"]) is not None
    if inp.get("level") == "intergenic_pipeline":
        return check_pipeline_intergenic(inp["spec"]) is not None
    return False
