"""Pipeline part of the C02 oracle: the real isoquant.py on synthetic data, every count / TPM table recomputed
from the reported read assignments with an independent implementation of the documented weighting.

What is read:  *.read_assignments.tsv (one line per isoform match; consecutive lines of one alignment record share
read id, chromosome and exon string), *.corrected_reads.bed (one line per record, same order: blockCount = number of
corrected exons), the annotation (mono-exonic isoforms), *.transcript_model_reads.tsv, the BAM (unmapped reads),
and the six tables *_counts.tsv / *_tpm.tsv.
"""
import os
import shutil
from collections import defaultdict
from decimal import Decimal
from fractions import Fraction

import pipeline as P
from gen import counts as G

UNIQUE = ("unique", "unique_minor_difference")
USE_AMB = ("with_ambiguous", "all")


def _c02():
    from props import C02
    return C02


def parse_table(path):
    rows, stats = [], {}
    with open(path) as f:
        for i, l in enumerate(f):
            l = l.rstrip("\n")
            # the header is the FIRST line; a feature id may itself start with '#'
            if not l or (i == 0 and l.startswith("#feature_id\t")):
                continue
            p = l.split("\t")
            if p[0] in ("__ambiguous", "__no_feature", "__not_aligned", "__usable", "__unassigned"):
                stats[p[0]] = p[1]
            else:
                rows.append((p[0], p[1]))
    return rows, stats


def records_from_tsv(tsv_path, bed_path):
    """-> list of records: dict(read, chr, atype, gtype, isoforms[], genes[], n_corr_exons|None)"""
    recs = []
    last_key = None
    for l in P.read_assignments(tsv_path):
        if not isinstance(l, dict):
            continue
        key = (l["read_id"], l["chr"], l["exons"])
        info = l.get("additional_info", "")
        gt = None
        for kv in info.split(";"):
            kv = kv.strip()
            if kv.startswith("gene_assignment="):
                gt = kv.split("=", 1)[1]
        # one record = consecutive lines with equal (read, chr, exons).  Two records of ONE read with the same exon string
        # (two primary records with one name and the same span; audit2-A, fuzz seed 20026) follow each other: a record
        # lists an isoform once and carries one assignment type, so a repeated isoform id, a second '.' line or another
        # assignment type starts the next record (the BED file has one line per record: `aligned` below re-checks)
        if key == last_key and (l["assignment_type"] != recs[-1]["atype"] or l["isoform_id"] in recs[-1]["seen"]):
            last_key = None
        if key != last_key:
            recs.append({"read": l["read_id"], "chr": l["chr"], "atype": l["assignment_type"], "gtype": gt,
                         "isoforms": [], "genes": [], "exons": l["exons"], "nce": None, "seen": set()})
            last_key = key
        r = recs[-1]
        r["seen"].add(l["isoform_id"])
        if l["isoform_id"] != ".":
            r["isoforms"].append(l["isoform_id"])
            r["genes"].append(l["gene_id"])
        if r["gtype"] is None:
            r["gtype"] = gt
    for r in recs:
        del r["seen"]
    bed = P.read_bed(bed_path)
    aligned = len(bed) == len(recs) and all(b[3] == r["read"] and b[0] == r["chr"] for b, r in zip(bed, recs))
    if aligned:
        for b, r in zip(bed, recs):
            r["nce"] = int(b[9])
    return recs, aligned


def record_level(rec, lvl):
    """(class, type at level, distinct features)"""
    if rec["atype"] in ("noninformative", "intergenic") or not rec["isoforms"]:
        return "no_feature", None, []
    if lvl == "gene":
        return "assigned", (rec["gtype"] or rec["atype"]), sorted(set(rec["genes"]))
    return "assigned", rec["atype"], sorted(set(rec["isoforms"]))


def check_reference_table(lvl, strategy, recs, multi, mono_isoforms, rows, stats, n_unmapped, complete):
    """returns (failures [(kind, info, detail)], expected usable)"""
    C = _c02()
    fails = []
    sums = defaultdict(Fraction)
    must = set()
    tie_touched = set()
    n_amb = n_nofeat = usable = 0
    per_read = defaultdict(Fraction)
    for r in recs:
        cls, typ, fs = record_level(r, lvl)
        if cls == "no_feature":
            n_nofeat += 1
            continue
        usable += 1
        if typ == "ambiguous":
            n_amb += 1
        k = len(fs)
        is_tie = typ in ("ambiguous", "inconsistent_ambiguous") and k == 1
        if is_tie and r["read"] not in multi:
            # not the known class: the documentation gives such a record 1/1 only when ambiguous reads are counted
            w = C.doc_weight(strategy, typ, 2) * 2 if typ == "ambiguous" else C.doc_weight(strategy, typ, 1)
        else:
            w = C.doc_weight(strategy, typ, k)
        if typ in UNIQUE and k != 1:
            fails.append(("unique_record_with_several_features", {"read": r["read"]}, str(fs)))
            continue
        for f in fs:
            sums[f] += w
            per_read[r["read"]] += w
            if r["read"] in multi:
                tie_touched.add(f)
        if typ in UNIQUE and (lvl == "gene" or (r["nce"] is not None and r["nce"] > 1) or fs[0] in mono_isoforms):
            must.add(fs[0])
    table = {}
    for f, v in rows:
        if f in table:
            fails.append(("duplicate_row", {"feature": f}, "two rows"))
        table[f] = int(Decimal(v) * 100)
    for f, h in table.items():
        if h != 0 and not C.printed_ok(h, sums.get(f, Fraction(0)), 100):
            fails.append(("table_not_sum", {"feature": f, "level": lvl},
                          "%s printed %s, documented sum over reported assignments %s" % (f, Decimal(h) / 100, sums.get(f, 0))))
    for f in must:
        if table.get(f, 0) == 0:
            fails.append(("confirmed_feature_zeroed", {"feature": f, "level": lvl}, "uniquely assigned spliced read, printed %s" % table.get(f)))
    for f in complete:
        if f not in table:
            fails.append(("feature_missing", {"feature": f, "level": lvl}, "annotated feature without a row"))
    for f in sums:
        if f not in table and sums[f] > 0:
            fails.append(("feature_missing", {"feature": f, "level": lvl}, "assigned feature without a row"))
    # read-level clause: total weight of one read in this table
    for read, tot in per_read.items():
        if tot > 1:
            nrec = sum(1 for r in recs if r["read"] == read)
            fails.append(("multilocus_tie_weight" if nrec >= 2 else "read_weight_above_one",
                          {"read": read, "n_records": nrec, "level": lvl, "strategy": strategy},
                          "read %s contributes %s to the %s table through %d retained alignment records" % (read, tot, lvl, nrec)))
    exp = {"__ambiguous": n_amb, "__no_feature": n_nofeat, "__not_aligned": n_unmapped}
    got = {k: int(stats.get(k, -1)) for k in exp}
    if got != exp:
        if got["__ambiguous"] != exp["__ambiguous"] or got["__no_feature"] != exp["__no_feature"] or got["__not_aligned"] != exp["__not_aligned"]:
            fails.append(("stats_lines", {"level": lvl}, "printed %s, records in the classes %s" % (got, exp)))
    return fails, usable


def check_model_table(strategy, recs, multi, r2t_path, model_ids, rows, stats, n_unmapped):
    C = _c02()
    fails = []
    by_read = defaultdict(list)
    n_star = 0
    with open(r2t_path) as f:
        for i, l in enumerate(f):
            if (i == 0 and l.startswith("#read_id\t")) or not l.strip():
                continue
            rd, t = l.rstrip("\n").split("\t")[:2]
            if t == "*":
                n_star += 1
            else:
                by_read[rd].append(t)
    sums = defaultdict(Fraction)
    upper = defaultdict(Fraction)
    undetermined = set()
    n_amb = 0
    lower = defaultdict(Fraction)
    bounded = set()
    several = set()
    for rd, ts in by_read.items():
        if rd in multi and len(set(ts)) == 1:
            # every alignment record of the read supports ONE model: the read is shared with no other model, so it is
            # no ambiguous read and the model gets at least the weight of one uniquely assigned read (read level: 1,
            # record level: one per record - DESIGN section 6 leaves both readings open)
            lower[ts[0]] += 1
            upper[ts[0]] += len(ts)
            bounded.add(ts[0])
            continue
        if rd in multi:
            # lines of a multi-locus read may come from different loci (one model constructor per locus)
            several.add(rd)
            for t in ts:
                upper[t] += 1
                undetermined.add(t)
            continue
        n = len(ts)
        if n > 1:
            n_amb += 1
        w = Fraction(1) if n == 1 else (Fraction(1, n) if strategy in USE_AMB else Fraction(0))
        for t in ts:
            sums[t] += w
            upper[t] += w
    table = {}
    for f, v in rows:
        if f in table:
            fails.append(("duplicate_row", {"feature": f}, "two rows (model table)"))
        table[f] = int(Decimal(v) * 100)
    for f, h in table.items():
        if f not in model_ids:
            fails.append(("model_row_without_model", {"feature": f}, "row for an id that is not in transcript_models.gtf"))
        if f in undetermined:
            if Fraction(h, 100) > upper[f] + Fraction(1, 100):
                fails.append(("table_not_sum", {"feature": f, "level": "model"}, "printed %s above every admissible sum %s" % (h, upper[f])))
        elif f in bounded:
            lo, hi = sums.get(f, Fraction(0)) + lower[f], upper[f]
            if Fraction(h, 100) < lo - Fraction(1, 100) or Fraction(h, 100) > hi + Fraction(1, 100):
                fails.append(("dup_read_model_weight", {"feature": f, "level": "model"},
                              "%s printed %s, but the reads listed under it alone (some on several alignment records) weigh "
                              "between %s and %s" % (f, Decimal(h) / 100, lo, hi)))
        elif not C.printed_ok(h, sums.get(f, Fraction(0)), 100):
            fails.append(("table_not_sum", {"feature": f, "level": "model"},
                          "%s printed %s, sum over transcript_model_reads %s" % (f, Decimal(h) / 100, sums.get(f, 0))))
    for f, v in list(sums.items()) + list(lower.items()):
        if v > 0 and f not in table and f not in undetermined:
            fails.append(("feature_missing", {"feature": f, "level": "model"}, "model with assigned reads has no row (all models are confirmed)"))
    if not several:
        exp = {"__ambiguous": n_amb, "__no_feature": n_star, "__not_aligned": n_unmapped}
        got = {k: int(stats.get(k, -1)) for k in exp}
        if got != exp:
            fails.append(("dup_read_model_weight" if bounded and got["__ambiguous"] > exp["__ambiguous"] else "stats_lines",
                          {"level": "model"}, "printed %s, lines in the classes %s (a read listed under ONE model is no "
                          "ambiguous read)" % (got, exp)))
    usable = None if several else len(by_read) + n_star
    return fails, usable


def tpm_check(C, counts_rows, tpm_path, norm, usable, output_zeroes, what):
    trows, tstats = parse_table(tpm_path)
    crow = [(f, int(Decimal(v) * 100)) for f, v in counts_rows]
    un = Decimal(tstats["__unassigned"]) if "__unassigned" in tstats else None
    if norm == "usable_reads" and usable is None:
        # usable not determinable from the outputs: ratios only
        total = sum(Fraction(h, 100) for _, h in crow)
        tp = {f: Fraction(Decimal(v)) for f, v in trows}
        nz = [(f, Fraction(h, 100)) for f, h in crow if h]
        out = []
        if nz:
            f0, c0 = nz[0]
            for f, c in nz:
                if f in tp and f0 in tp and abs(tp[f] * c0 - tp[f0] * c) > Fraction(2, 10 ** 6) * max(c, c0):
                    out.append(("tpm_ratio", {"table": what}, "%s vs %s" % (f, f0)))
                    break
        return out
    fl = C.tpm_clauses(crow, [(f, Decimal(v)) for f, v in trows], un, norm, usable, output_zeroes)
    return [(k, {"table": what}, d) for k, d in fl]


def run_one(ctx, d, seed, strategy, norm, tie=False, underscore=False, threads=1, tag="p", hash_id=False, dup=False,
            gene_strategy=None, dataset=None, extra=()):
    """one pipeline run; returns list of (kind, input, detail).
    audit-2: `gene_strategy` (default: = `strategy`, the transcript strategy) - the two tables are judged by their OWN
    strategy; `dataset` = None (c02_dataset) | "layout" (overlapping / antisense / nested genes, tails) | "zero:<case>"
    (all-zero tables) | "deep" (read clusters > 1024 reads, cut at coverage valleys); `extra` = further options."""
    C = _c02()
    gs = gene_strategy or strategy
    sub = os.path.join(d, "%s_%d_%s" % (tag, seed, strategy))
    os.makedirs(sub, exist_ok=True)
    if dataset == "layout":
        ds = G.c02_layout_dataset(seed)
    elif dataset and dataset.startswith("zero:"):
        ds = G.c02_zero_dataset(dataset[5:])
    elif dataset == "deep":
        ds = G.c02_deep_dataset(seed)
    else:
        ds = G.c02_dataset(seed, tie=tie, underscore=underscore, hash_id=hash_id, dup=dup)
    paths = ds.write(os.path.join(sub, "data"))
    base = {"mode": "pipeline", "ds_seed": seed, "strategy": strategy, "norm": norm, "tie": tie, "underscore": underscore,
            "threads": threads, "hash_id": hash_id, "dup": dup, "gene_strategy": gene_strategy, "dataset": dataset,
            "extra": list(extra)}
    rc, log = P.run_isoquant(os.path.join(sub, "out"),
                             P.std_args(paths, prefix="S", threads=threads,
                                        extra=["--transcript_quantification", strategy, "--gene_quantification", gs,
                                               "--normalization_method", norm] + list(extra)))
    if rc != 0:
        return [("pipeline_failed", base, log[-800:])]
    fs = P.out_files(os.path.join(sub, "out"), "S")
    need = ["S.read_assignments.tsv", "S.corrected_reads.bed", "S.gene_counts.tsv", "S.transcript_counts.tsv",
            "S.gene_tpm.tsv", "S.transcript_tpm.tsv", "S.transcript_model_counts.tsv", "S.transcript_model_tpm.tsv",
            "S.transcript_model_reads.tsv", "S.transcript_models.gtf"]
    miss = [n for n in need if n not in fs]
    if miss:
        return [("pipeline_failed", base, "missing outputs %s" % miss)]
    recs, aligned = records_from_tsv(fs["S.read_assignments.tsv"], fs["S.corrected_reads.bed"])
    ctx.count("pipeline_records", len(recs))
    if not aligned:
        ctx.count("bed_not_aligned_with_tsv")
    nrec = defaultdict(int)
    for r in recs:
        nrec[r["read"]] += 1
    multi = {r for r, n in nrec.items() if n >= 2}
    ctx.count("pipeline_multi_record_reads", len(multi))
    mono = {tid for g in ds.genes for tid, ex in g["transcripts"] if len(ex) == 1}
    genes = [g["gene_id"] for g in ds.genes]
    txs = [tid for g in ds.genes for tid, _ in g["transcripts"]]
    n_unmapped = ds.meta["n_unmapped"]
    fails = []
    for lvl, cfile, tfile, complete in (("gene", "S.gene_counts.tsv", "S.gene_tpm.tsv", genes),
                                        ("transcript", "S.transcript_counts.tsv", "S.transcript_tpm.tsv", txs)):
        rows, stats = parse_table(fs[cfile])
        fl, usable = check_reference_table(lvl, gs if lvl == "gene" else strategy, recs, multi, mono, rows, stats, n_unmapped,
                                           complete)
        if dataset and dataset.startswith("zero:"):
            ctx.count("pipeline_zero_total:%s:%s:rows=%d:nonzero=%d" % (dataset[5:], lvl, len(rows), sum(1 for _, v in rows if Decimal(v) != 0)))
        fails += fl
        fails += tpm_check(C, rows, fs[tfile], norm, usable, True, lvl)
        for r in recs:
            cls, typ, fsx = record_level(r, lvl)
            ctx.count("pipeline_%s:%s" % (lvl, typ if cls == "assigned" else cls))
    model_ids = {x["attrs"].get("transcript_id") for x in P.parse_gtf(fs["S.transcript_models.gtf"]) if x["feature"] == "transcript"}
    rows, stats = parse_table(fs["S.transcript_model_counts.tsv"])
    fl, usable = check_model_table(strategy, recs, multi, fs["S.transcript_model_reads.tsv"], model_ids, rows, stats, n_unmapped)
    fails += fl
    fails += tpm_check(C, rows, fs["S.transcript_model_tpm.tsv"], norm, usable, False, "model")
    ctx.count("pipeline_model_rows", len(rows))
    shutil.rmtree(sub, ignore_errors=True)
    out = []
    for kind, info, detail in fails:
        inp = dict(base)
        inp.update(info)
        out.append((kind, inp, detail))
    return out


def run_multisample(ctx, d, seed, n_exp=2, yaml=False):
    """two or three experiments in one invocation: the combined_* tables (src/stats.py) must carry, per sample column,
    exactly the values of that sample's own tables, an empty cell exactly where the sample has no row, the experiment
    names as header, no statistics line of a counts file"""
    sub = os.path.join(d, "ms_%d_%d" % (seed, n_exp))
    os.makedirs(sub, exist_ok=True)
    ds = G.c02_dataset(seed)
    names = ["S1", "S2", "S3"][:n_exp]
    paths = []
    for j, nm in enumerate(names):
        if j == 0:
            paths.append(ds.write(os.path.join(sub, "data"), bam_name="%s.bam" % nm.lower()))
        else:
            part = [r for i, r in enumerate(ds.reads) if i % (j + 1) == 0]
            paths.append(ds.write(os.path.join(sub, "data"), bam_name="%s.bam" % nm.lower(), reads=part, write_ref=False))
    p1 = paths[0]
    base = {"mode": "pipeline_multisample", "ds_seed": seed, "n_exp": n_exp, "yaml": yaml}
    out = os.path.join(sub, "out")
    if yaml:
        # audit-2: the experiments come from a YAML file and the FIRST experiment has TWO files (with labels: the grouped
        # tables are switched on by IsoQuant itself); second file of S1 = every 5th read of the data set
        p_extra = ds.write(os.path.join(sub, "data"), bam_name="s1b.bam", reads=[r for i, r in enumerate(ds.reads) if i % 5 == 0],
                           write_ref=False)
        y = os.path.join(sub, "data", "in.yaml")
        with open(y, "w") as f:
            f.write('[\n  data format: "bam",\n  {name: "S1", long read files: ["%s", "%s"], labels: ["rep1", "rep2"]},\n'
                    % (os.path.basename(p1["bam"]), os.path.basename(p_extra["bam"])))
            f.write("".join('  {name: "%s", long read files: ["%s"], labels: ["solo"]},\n' % (nm, os.path.basename(p_["bam"]))
                            for nm, p_ in list(zip(names, paths))[1:]))
            f.write("]\n")
        rc, log = P.run_isoquant(out, ["--threads", "2", "--yaml", y, "--reference", p1["ref"], "--data_type", "nanopore",
                                       "--no_gzip", "--genedb", p1["gtf"], "--complete_genedb", "-p", "PFX"])
    else:
        lst = os.path.join(sub, "list.txt")
        with open(lst, "w") as f:
            f.write("".join("#%s\n%s\n" % (nm, p["bam"]) for nm, p in zip(names, paths)))
        rc, log = P.run_isoquant(out, ["--threads", "1", "--bam_list", lst, "--reference", p1["ref"], "--data_type", "nanopore",
                                       "--no_gzip", "--genedb", p1["gtf"], "--complete_genedb"])
    if rc != 0:
        return [("pipeline_failed", base, log[-800:])]
    fails = []
    for what, suffix in (("gene_counts", "gene_counts.tsv"), ("transcript_counts", "transcript_counts.tsv"),
                         ("gene_tpm", "gene_tpm.tsv"), ("transcript_tpm", "transcript_tpm.tsv")):
        comb = os.path.join(out, "combined_%s" % suffix)
        if not os.path.exists(comb):
            fails.append(("combined_table_differs", dict(base, table=what), "missing"))
            continue
        with open(comb) as f:
            lines = [l.rstrip("\n").split("\t") for l in f if l.strip()]
        hdr, body = lines[0], lines[1:]
        if hdr != ["#feature_id"] + names:
            fails.append(("combined_table_differs", dict(base, table=what), "header %s" % hdr))
            continue
        ids = [r[0] for r in body]
        if len(set(ids)) != len(ids):
            fails.append(("combined_table_differs", dict(base, table=what), "a feature has two rows"))
        union = set()
        for col, smp in enumerate(names, start=1):
            rows, stats = parse_table(os.path.join(out, smp, "%s.%s" % (smp, suffix)))
            own = {f_: Decimal(v) for f_, v in rows}
            if "tpm" in what and "__unassigned" in stats:
                own["__unassigned"] = Decimal(stats["__unassigned"])
            union |= set(own)
            got = {r[0]: Decimal(r[col]) for r in body if len(r) > col and r[col] != ""}
            if got != own:
                diff = sorted(set(got.items()) ^ set(own.items()))[:4]
                fails.append(("combined_table_differs", dict(base, table=what, sample=smp), "differs from %s.%s: %s" % (smp, suffix, diff)))
        if set(ids) != union:
            fails.append(("combined_table_differs", dict(base, table=what), "rows that are no feature of any experiment: %s"
                          % sorted(set(ids) ^ union)[:4]))
        ctx.count("pipeline_combined_rows", len(body))
    if yaml:
        # the two-file experiment: its grouped gene table (one column per file label) must sum to its ungrouped table
        g = os.path.join(out, "S1", "S1.gene_grouped_counts.tsv")
        if not os.path.exists(g):
            fails.append(("combined_table_differs", dict(base, table="gene_grouped_counts"), "the two-file experiment has no grouped table"))
        else:
            ung = {f_: Decimal(v) for f_, v in parse_table(os.path.join(out, "S1", "S1.gene_counts.tsv"))[0]}
            with open(g) as f:
                for l in f:
                    p_ = l.rstrip("\n").split("\t")
                    if p_[0].startswith("#") and len(p_) > 1 and p_[0] == "#feature_id":
                        if sorted(p_[1:]) != ["rep1", "rep2"]:
                            fails.append(("combined_table_differs", dict(base, table="gene_grouped_counts"), "header %s" % p_))
                        continue
                    if p_[0].startswith("__"):
                        continue
                    tot = sum(Decimal(x) for x in p_[1:])
                    if abs(tot - ung.get(p_[0], Decimal(-1))) > Decimal("0.011"):
                        fails.append(("combined_table_differs", dict(base, table="gene_grouped_counts"),
                                      "row %s sums to %s, ungrouped %s" % (p_[0], tot, ung.get(p_[0]))))
                        break
        ctx.count("pipeline_yaml_two_file_experiment")
    shutil.rmtree(sub, ignore_errors=True)
    return fails


def run(ctx, d, broken):
    quick = ctx.tier == "quick"
    seeds = [ctx.rng.randint(1, 10 ** 6) for _ in range(2 if quick else 12)]
    n = 0
    for si, seed in enumerate(seeds):
        for i, strategy in enumerate(G.STRATEGIES):
            norm = "simple" if (i + si) % 2 == 0 else "usable_reads"
            for kind, inp, detail in run_one(ctx, d, seed, strategy, norm, tie=False, underscore=(si % 2 == 0 and i == 0),
                                             threads=1 + (i % 2), hash_id=(i == 1)):
                ctx.fail(kind, inp, detail)
            n += 1
    # the multi-locus tie (known finding multilocus_tie_weight): one run per tier keeps it observed
    for strategy in (["unique_only"] if quick else ["unique_only", "all"]):
        for kind, inp, detail in run_one(ctx, d, seeds[0], strategy, "simple", tie=True, tag="tie"):
            ctx.fail(kind, inp, detail)
        n += 1
    # one read name on two primary records inside one gene (C02 GAP-1): the model table must give the read to its model
    for strategy in (["unique_only"] if quick else ["unique_only", "with_ambiguous"]):
        for kind, inp, detail in run_one(ctx, d, seeds[-1], strategy, "simple", dup=True, tag="dup"):
            ctx.fail(kind, inp, detail)
        n += 1
    # several experiments in one invocation (combined_* tables): three experiments in the quick tier,
    # two and three in the thorough tier
    for n_exp, seed in ([(3, seeds[0])] if quick else [(2, seeds[0]), (3, seeds[1]), (3, seeds[2])]):
        for kind, inp, detail in run_multisample(ctx, d, seed, n_exp):
            ctx.fail(kind, inp, detail)
        n += 1
    # ---- audit-2 (C02): option combinations / layouts / inputs outside the old generator
    mixed = [("unique_only", "all"), ("all", "unique_only"), ("with_ambiguous", "unique_inconsistent"),
             ("unique_splicing_consistent", "with_ambiguous"), ("unique_inconsistent", "unique_splicing_consistent"),
             ("all", "with_ambiguous")]
    opts = [[], ["--polya_requirement", "always"], ["--polya_requirement", "never", "--model_construction_strategy", "all",
                                                     "--report_novel_unspliced", "true"],
            ["--matching_strategy", "loose", "--stranded", "forward"], ["--high_memory"], ["--no_model_construction"]]
    k0 = ctx.seed % len(mixed)
    for j in range(1 if quick else len(mixed)):
        gs, ts = mixed[(k0 + j) % len(mixed)]
        # gene strategy != transcript strategy on the ordinary data set and on the overlapping / antisense / nested layout
        for dataset in (None, "layout"):
            ex = opts[(k0 + j + (1 if dataset else 0)) % len(opts)]
            if "--no_model_construction" in ex:
                ex = []          # run_one needs the model tables
            for kind, inp, detail in run_one(ctx, d, seeds[j % len(seeds)] + j, ts, "simple" if j % 2 else "usable_reads",
                                             gene_strategy=gs, dataset=dataset, extra=ex, threads=1 + j % 3, tag="mix%d" % j):
                ctx.fail(kind, inp, detail)
            ctx.count("pipeline_mixed_strategies:%s/%s:%s" % (gs, ts, dataset or "plain"))
            n += 1
    for j, case in enumerate(G.ZERO_CASES if not quick else [G.ZERO_CASES[ctx.seed % 4]]):
        for kind, inp, detail in run_one(ctx, d, 1, G.STRATEGIES[(ctx.seed + j) % len(G.STRATEGIES)],
                                         "simple" if j % 2 else "usable_reads", dataset="zero:" + case, tag="zero%d" % j):
            ctx.fail(kind, inp, detail)
        n += 1
    for threads, mode in ([(3, [])] if quick else [(1, []), (3, []), (1, ["--high_memory"]), (3, ["--high_memory"])]):
        for kind, inp, detail in run_not_aligned(ctx, d, threads, mode):
            ctx.fail(kind, inp, detail)
        n += 1
    for kind, inp, detail in run_multisample(ctx, d, seeds[-1], 2, yaml=True):
        ctx.fail(kind, inp, detail)
    n += 1
    for seed, mode in ([(seeds[0], [])] if quick else [(seeds[0], []), (seeds[1], ["--high_memory"])]):
        for kind, inp, detail in run_one(ctx, d, seed, "with_ambiguous", "simple", dataset="deep", extra=mode, threads=2, tag="deep"):
            ctx.fail(kind, inp, detail)
        n += 1
    ctx.extra["oracle_pipeline_runs"] = n


def run_not_aligned(ctx, d, threads, mode):
    """`__not_aligned` with an experiment of THREE files: unplaced unmapped reads (flag 4, no position) in two of them and
    PLACED unmapped reads (flag 4 + RNAME / POS: the SAM convention for the unmapped mate) in two of them; every count table
    must say 5 + 3 = 8 (audit-2 probe C02/p4)"""
    from gen import synth
    sub = os.path.join(d, "na_%d_%s" % (threads, "hm" if mode else "lm"))
    os.makedirs(sub, exist_ok=True)
    t = [(2001, 2300), (2601, 3000), (3501, 3800)]

    def mk(n_unm, n_placed, names):
        ds = synth.Dataset(1)
        ds.add_chrom("chr1", 20000)
        ds.add_chrom("chr2", 9000)
        ds.add_gene("chr1", "G1", "+", [("T1", t)])
        ds.add_gene("chr2", "G2", "-", [("T2", t)])
        for i, nm in enumerate(names):
            ds.read_from_exons(nm, "chr1" if i % 2 else "chr2", t, flag=0 if i % 2 else 16)
        for i in range(n_unm):
            ds.add_read("%s_u%d" % (names[0], i), None, 0, None, flag=4, seq="ACGT" * 20)
        for i in range(n_placed):
            ds.add_raw_record("%s_p%d" % (names[0], i), "chr1", 2500 + i, None, flag=4, mapq=0)
        return ds
    parts = [mk(2, 1, ["a%d" % i for i in range(5)]), mk(3, 0, ["b%d" % i for i in range(4)]), mk(0, 2, ["c%d" % i for i in range(3)])]
    paths = [ds.write(os.path.join(sub, "F%d" % i), write_ref=(i == 0)) for i, ds in enumerate(parts)]
    args = P.std_args(paths[0], threads=threads, extra=list(mode))
    k = args.index("--bam")
    args = args[:k + 1] + [p_["bam"] for p_ in paths] + args[k + 2:]
    base = {"mode": "pipeline_not_aligned", "threads": threads, "memory": list(mode)}
    rc, log = P.run_isoquant(os.path.join(sub, "out"), args)
    if rc != 0:
        return [("pipeline_failed", base, log[-800:])]
    of = P.out_files(os.path.join(sub, "out"))
    fails = []
    for fn in ("S.gene_counts.tsv", "S.transcript_counts.tsv", "S.transcript_model_counts.tsv"):
        rows, stats = parse_table(of[fn])
        if "__not_aligned" not in stats or Decimal(stats["__not_aligned"]) != 8:
            fails.append(("stats_line_differs", dict(base, table=fn), "__not_aligned = %s, expected 8 (5 unplaced + 3 placed unmapped "
                          "records in 3 files)" % stats.get("__not_aligned")))
        assigned = sum(Decimal(v) for _, v in rows)
        if fn != "S.transcript_model_counts.tsv" and assigned != 12:
            fails.append(("table_not_sum", dict(base, table=fn), "12 uniquely assigned reads in 3 files, table total %s" % assigned))
    ctx.count("pipeline_not_aligned_3_files")
    shutil.rmtree(sub, ignore_errors=True)
    return fails


def replay(ctx, failure, d):
    inp = failure["input"]
    if inp.get("mode") == "pipeline_multisample":
        return any(k == failure["kind"] for k, _, _ in run_multisample(ctx, d, inp["ds_seed"], inp.get("n_exp", 2),
                                                                       yaml=inp.get("yaml", False)))
    if inp.get("mode") == "pipeline_not_aligned":
        return any(k == failure["kind"] for k, _, _ in run_not_aligned(ctx, d, inp.get("threads", 1), inp.get("memory", [])))
    fl = run_one(ctx, d, inp["ds_seed"], inp["strategy"], inp["norm"], tie=inp.get("tie", False),
                 underscore=inp.get("underscore", False), threads=inp.get("threads", 1), tag="replay",
                 hash_id=inp.get("hash_id", False), dup=inp.get("dup", False), gene_strategy=inp.get("gene_strategy"),
                 dataset=inp.get("dataset"), extra=inp.get("extra") or ())
    return any(k == failure["kind"] for k, _, _ in fl)
